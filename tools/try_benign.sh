#!/bin/bash
# tools/try_benign.sh <patch.diff> — apply a behaviour-preserving refactoring to /repo, run ALL checks, report any VIOLATION (= false alarm), undo.
set -u
patch="$(readlink -f "$1")"
cd /repo || exit 2
if [ -n "$(git status --porcelain --untracked-files=no)" ]; then echo "repo not clean"; exit 2; fi
git apply "$patch" || { echo "patch does not apply"; exit 2; }
trap 'git -C /repo checkout -- . >/dev/null 2>&1; cd /verif; ./check ALL >/dev/null 2>&1' EXIT
cd /verif
./check ALL 2>/dev/null | grep -A1 "^VIOLATION" | grep -v "^--" | cut -c1-330
echo "== done $(basename $patch)"
