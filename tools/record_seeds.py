#!/usr/bin/env python3
"""tools/record_seeds.py <spec.json> <table-marker> — spec: {seed: [status(new|caught), "RULE | instance", why, change]}; updates seeded/<seed>/meta.json, registers canaries for
`new` seeds and appends rows to the DESIGN §12 table that precedes the line starting with <table-marker>"""
import json, os, shutil, sys
spec = json.load(open(sys.argv[1]))
marker = sys.argv[2]
exp = json.load(open('/verif/selftest/expect.json'))
rows = ""
for sid in sorted(spec, key=lambda x: (x.split('-')[0], int(x.split('-')[1]))):
    st, rule, why, chg = spec[sid]
    d = f'/verif/seeded/{sid}'
    m = json.load(open(d + '/meta.json'))
    v = open(d + '/verified.txt').read().strip().splitlines() if os.path.exists(d + '/verified.txt') else ["(confirmation run pending when this file was written; see verified.txt)"]
    m["what_i_ran"] = {"confirmation": "tools/verify_seed.sh in scratch worktree /tmp/seedverify (demo alone passes; demo+patch fails; full suite with patch)", "result": v,
                       "check": "tools/try_patch.sh <patch> <property> (scratch copy of /repo with the patch, ./check)"}
    m["detected_by"] = f"{rule} — {why}"
    m["round"] = 3
    json.dump(m, open(d + '/meta.json', 'w'), indent=1, ensure_ascii=False)
    rid = rule.split(' | ')[0]
    if st == "new":
        name = f"{sid.lower().replace('-', '_seed')}.diff"
        shutil.copy(d + '/patch.diff', '/verif/selftest/' + name)
        exp[name] = {"property": sid.split('-')[0], "expect": rule}
        inner = why.split('(', 1)[1].rstrip(')') if '(' in why else why
        cell = f"missed at first → **{rid}** ({inner}); now caught"
    elif st == "missed":
        cell = f"**missed** — {why}"
    else:
        cell = f"**{rid}** ({why})"
    rows += f"| {sid} | {chg} | {cell} |\n"
json.dump(exp, open('/verif/selftest/expect.json', 'w'), indent=1)
p = '/verif/DESIGN.md'
s = open(p).read()
idx = s.index(marker)
s = s[:idx].rstrip('\n') + "\n" + rows + "\n" + s[idx:]
open(p, 'w').write(s)
print(rows)
