#!/usr/bin/env python3
"""Generates /verif/MANIFEST.json from the claim table below (kept here so the manifest stays consistent)."""
import json
import os

VERIF = os.path.dirname(os.path.dirname(os.path.abspath(__file__)))

CLAIMS = {
    "C01": dict(
        technique="MIR edge-dominance (constraint gates), who-may-call tables, TypeId-slot type agreement, guard-neighbourhood analysis, finite-ordering evaluation of the constraint predicates (laws), backward slices (locked markers, leg direction)",
        text="Static necessary conditions over all MIR paths of the five crates: every feasibility marker / InsertionSuccess is dominated by the None "
             "edge of the complete goal.evaluate on activity and route level, only confirmed modules insert into tours, constraints read cache and "
             "dimension slots with the type they are written with and every slot they read has a writer, every job/route removal is guarded by the "
             "locked set; hard-constraint verdicts on loads use the component-wise can_fit, never the partial order. Value-level LAWS decided by finite evaluation over all "
             "orderings of the compared values / canonical expressions: can_fit iff load <= capacity per dimension and asked the right way round, skills (allOf subset, oneOf "
             "intersects, noneOf disjoint, all three required), tour limits (violation iff total + change > limit, kinds not mixed), reachability (rejected iff a new leg is "
             "negative), time windows (admitted iff no arrival after its latest time; abort only on target-independent facts), capacity (each demand part against its own load "
             "summary; abort only for static delivery). Marker jobs (reload / recharge) sitting in tours are locked (backward slice of what the route-interval enabler writes into the locked set). Not decided: arithmetic of the remaining constraints (breaks, recharge, reload thresholds) (feasible(P,S) itself), completeness of goal assembly.",
        note="Assumes user relations/initial solutions consistent (documented precondition); CHA call graph; module-level allow tables with reasons.",
        ref="DESIGN.md §5 C01"),
    "C02": dict(
        technique="job-place effect analysis (removal/arrival pairing and move obligations over merged closures, reasoned tables), must-pass ordering, must-derive dataflow (every alternative derives from a source), iterator-adapter type analysis, canonical-expression lints, final-report def-use",
        text="Conservation shape: every function that removes jobs from a job place (required/ignored/unassigned/a tour/the route list) adds to another place "
             "in the same function, a direct callee, or hands them to callers that do; unpaired functions need a reasoned table row; the final report chains "
             "unassigned and required and reports every route; the pragmatic writer writes every route and the unassigned list; functions that move jobs into a "
             "place clean the places the jobs can come from (reasoned move table, no duplication); empty tours are dropped after the last state acceptance; "
             "the leg search for the next sub-job starts after the previous one; no comparison in matching code relates a value to itself. Shift indices are positions in vehicle.shifts (no dropping adapter before enumerate); relation-bound jobs are excluded from clustering on every alternative (must-derive dataflow). Not decided: "
             "exact-once semantics through value-level bookkeeping (predicates), vehicle/shift existence, identity of breaks/reloads.",
        note="std collection method names classify removal/arrival; table rows are function level with reasons.",
        ref="DESIGN.md §5 C02"),
    "C03": dict(
        technique="same-field def-use analysis of the statistic sum / per-leg accumulator, units-of-measure pass over cost products, who-may-call rule for approximate routing, canonical-expression agreement of sibling queries",
        text="Narrow clauses: the pragmatic Statistic sum is field-wise over every scalar field of Statistic and Timing and the overall statistic folds tour "
             "statistics with it; the per-leg accumulator of create_tour computes every field from the same field of the running statistic; every product "
             "of a cost coefficient pairs a per-distance coefficient with a distance and a per-time coefficient with a time; report / checker / schedule code "
             "uses the exact routing queries only (no `_approx`); distance, duration and cost of a reported leg are queried for one (from, to, departure); place "
             "tags are indexed by place position (enumerate before any filtering). The reported tag is looked up for the place that was used (its own location and window); provider durations are scaled by the profile and legs are queried in travel direction (shared rules C16-F1, C01-D1). Not decided: equality up to "
             "rounding with an independent replay, load profiles, tag correctness.",
        note="Names distance/duration/waiting/... and Costs field names act as unit declarations; unknown units are silent.",
        ref="DESIGN.md §5 C03"),
    "C04": dict(
        technique="type-level aliasing argument (signatures + no interior mutability + forbid(unsafe)) and MIR typestate / guard analysis",
        text="Static analysis of all MIR bodies: `parent unchanged` is decided for every operator and history as a type-level argument "
             "(shared-reference signatures, zero interior-mutable fields/captures/globals in the four library crates, forbid(unsafe_code)); "
             "consistency of the result is decided only for its structural parts (no stale hand-over by typestate, locked-job guards on every "
             "tour removal, job conservation shape). Not decided: that assigned jobs satisfy every constraint after each operator.",
        note="Trusted base: rustc borrow checker/aliasing model, std and external crates; CHA for dyn calls; one typestate bit per function.",
        ref="DESIGN.md §5 C04"),
    "C05": dict(
        technique="MIR dominance + TypeId-slot table + Clean/Dirty typestate over the cache-coherence protocol, canonical-expression recurrences, construction-site def-use (fresh solution state)",
        text="Static necessary conditions of cache coherence over every path of every function: the stale bit is unforgeable and cleared only "
             "after all refreshes; per FeatureState impl every per-route slot is refreshed where stale bits are cleared; no hand-over function "
             "returns a possibly stale route; insert-then-accept pairing; a slot written on some paths only is removed on the others (must-write, presence "
             "law by finite evaluation) or its guard is constant per route; the schedule, latest-arrival / waiting, activity-time and load-summary recurrences have "
             "their defining form (canonical expressions: leg origin/destination/time, carried pair, max_load of carried maximum and current load). Every solution context over another set of routes starts from an empty SolutionState; the backward pass bypasses estimate_arrival only on a condition that reads the carried triple. Not decided: "
             "numeric equality of incremental updates with recomputation for the remaining summaries.",
        note="Assumes CHA resolution of workspace traits, closures may-run at construction site, calls through stored dyn Fn fields not followed.",
        ref="DESIGN.md §5 C05"),
    "C06": dict(
        technique="MIR edge-dominance of constraint gates, abort-condition analysis, finite-ordering evaluation of the time-window / capacity verdicts, canonical-expression recurrences",
        text="Soundness gate only: a reported success was evaluated by the complete constraint set on exactly that move on activity and route level, the "
             "multi-job shadow route is refreshed between sub-insertions, and in exhaustive mode the scan over legs/places/time windows is aborted only by "
             "a `stopped` violation while every leg from the skip index on is folded. The two constraints the property names are decided at value level by finite "
             "evaluation: time windows (admitted iff no arrival after its latest time; the scan-aborting verdict only on target-independent facts — the completeness "
             "clause w.r.t. time windows) and capacity (each demand part against its own load summary; abort only for static delivery; can_fit iff load <= capacity); the "
             "O(1) summaries they read have their defining recurrences (schedule, latest arrival, waiting, running load, past/future maximum) and legs are queried in "
             "travel direction. Not decided: agreement with an independent simulation for the remaining features; optimality of the returned position.",
        note="Shares rules C01-G1/G2/G3/W1/C1/O3/O4/D1, C05-I1/R1-R4, C02-O1.",
        ref="DESIGN.md §5 C06"),
    "C07": dict(
        technique="MIR loop-guard must-pass analysis (entry + per-iteration), finite-ordering evaluation of termination predicates, poll inventory, must-derive dataflow (complete initial individual), loop/fold element-preservation analysis",
        text="Static loop-guard analysis: in every EvolutionStrategy::run termination and quota are polled before the search of every generation and a "
             "positive poll leaves the loop; MaxGeneration fires iff generation >= limit (evaluated over <,=,>); composite criteria fire on any member; "
             "the insertion loop polls the quota every round and every path to return passes finalize_insertion_ctx (leftovers -> unassigned); the "
             "long-running loops still poll the quota and quota wrappers keep the wrapped quota; estimates are clamped; initial construction is never cut short by "
             "the quota itself and every built individual joins the population; decomposition merges every part back (no element-dropping adapter); configured "
             "generation/time limits become members of the termination criterion on every path of the config builder. Initial operators build a complete individual on every return path (must-derive from InsertionContext::new). Not decided: validity of the "
             "returned solution itself (C01-C03 value level), wall-clock timing.",
        note="Assumes monotone external Quota implementations; closures analysed at construction site.",
        ref="DESIGN.md §5 C07"),
    "C08": dict(
        technique="finite-ordering abstract interpretation of MIR (exhaustive over orderings) + must-call / ordering dominance",
        text="The incumbent-replacement code of all three populations is evaluated exhaustively over the finite space of abstract orderings "
             "(Less/Equal/Greater x Some/None), every add_all impl is shown to offer each individual to the comparison on every path, and Elitism's "
             "extend ≺ sort(total_order(a,b)) ≺ truncate order is checked by dominance. The elite of the self-organising population is ranked by the main objective (no maybe_change on it). Not decided: size bounds, selection non-emptiness, seeded-solve corollary.",
        note="Trusted: std Vec::sort_by/dedup_by/truncate contracts; total_order is a total preorder (C09).",
        ref="DESIGN.md §5 C08"),
    "C09": dict(
        technique="finite-ordering abstract interpretation of the whole comparison functions over small symbolic vectors / layer lists + same-index def-use analysis of element-wise operators",
        text="Order laws by finite evaluation of the whole functions: InsertionCost::cmp over cost vectors of 0/1/2 components per side (every ordering of the compared "
             "components enumerated) answers the ordering of the first differing zero-padded pair; Goal::total_order over 0/1/2 layers answers the first non-Equal layer and asks "
             "every layer about (a, b); both in fold and loop form. Components are compared only by f64::total_cmp, PartialOrd/PartialEq "
             "delegate to Ord, Add/Sub are element-wise with the right operator over 0..max(len); the single-objective comparator is exact; dominance order is antisymmetric; "
             "fitness enumerates the same layers. Not decided: laws of multi-objective layers, (x+y)-y == x numerically, sign of zero.",
        note="A lexicographic extension of a total order with fixed padding is a total order; f64::total_cmp is total (trusted).",
        ref="DESIGN.md §5 C09"),
    "C10": dict(
        technique="MIR edge-dominance (validate-first), call-graph reachability of rule functions, code/docs table cross-check, dropped-Result def-use scan, accepting-exit classification, confirmed guard rows (edge dominance), short-circuit adapter scan of the aggregator",
        text="Structural clauses: validate()? dominates every reader call in map_to_problem; every validation rule function (by return type) is reachable "
             "from ValidationContext::validate and module validators aggregate with combine_error_results; the code literal of each check_eNNNN equals its "
             "name and the set of codes in the code equals the documented headings; no Result in validation is dropped. Two confirmed guard rows keep input-derived panics outside validation's reach away (approximation only without index locations; windows only for two dates). The error aggregator keeps every error of a rule group (no short-circuit). Not decided: that each predicate "
             "matches its documentation, exactness of codes == violated rules, input-derived panics in readers for fields no rule covers.",
        note="Docs headings are taken as the rule table; reader panics on unvalidated fields are listed in DESIGN.md as observations, not decided.",
        ref="DESIGN.md §5 C10"),
    "C11": dict(
        technique="serde attribute symmetry table from a syn AST scan + JSON-kind distinguishability argument for untagged enums + record-field liveness + iterator-adapter type analysis of the re-reader walks / id numbering + matcher predicate scan",
        text="Narrow clauses: every type reachable from the Problem/Matrix/Solution documents derives both Serialize and Deserialize, carries no one-sided "
             "attribute, renames agree on both sides, skip_serializing_if is only Option::is_none on Option fields; for every untagged enum no later "
             "variant serialises to JSON an earlier variant accepts; tagged enums have unique tags; every CSV import column is consumed and CSV rows are grouped "
             "by id (never by adjacency); the initial-solution reader walks every tour, stop and activity of the document (no dropping adapter). Optional-break job ids are consecutive (numbered after the required breaks are filtered out); the activity matcher tests place windows inclusively. A job place is selected by location and time in one predicate. Not decided: float "
             "text round trip, activity matching when a solution is re-read, faithfulness of CSV values.",
        note="serde derive semantics for the listed attributes are trusted.",
        ref="DESIGN.md §5 C11"),
    "C12": dict(
        technique="call-graph reachability of checker rules, breach-class table, dropped-Result scan, constant-feasible CFG reachability of error sites, must-derive dataflow (limit accumulators), finite-ordering evaluation of lookup predicates",
        text="Nothing silently unchecked: every checker rule function is reachable from CheckerContext::check, each documented breach class maps to a wired "
             "leaf rule, groups aggregate all results, no Result in checker code is dropped, every leaf rule keeps reachable error-producing sites, "
             "capacity verdicts never use the partial order of multi-dimensional loads, no checker comparison relates a value to itself. "
             "Not decided: acceptance of all valid solutions, rejection power per breach (value-level predicates).",
        note="Breach-class table is module level with one row per documented class.",
        ref="DESIGN.md §5 C12"),
    "C13": dict(
        technique="record-field liveness / source-distinctness def-use analysis, generic-argument agreement, flag evaluation, lost-slot-write move analysis",
        text="Faithfulness clauses: every parsed record field / builder parameter is consumed and filled from a distinct parsed position; demand, capacity "
             "and capacity feature share one load type; essential features contain capacity and transport with time windows enforced for Solomon/Li&Lim; "
             "the rounding flag selects exactly between rounded and raw Euclidean distance; written Dimensions are never dropped; Li&Lim pickups/deliveries are paired by the relation column; the initial-solution reader "
             "visits every route token and every job (no dropping adapter). The recharge limit compares accumulator + current leg on every alternative; shared-resource consumption is summed per resource; a missing relation shift index means shift 0 (finite evaluation). Li&Lim request customers are fetched by id (keyed lookup). Not decided: numeric equality of parsed values, place / window choice on re-reading.",
        note="One genuine defect repaired (Li&Lim dimensions dropped, fix: 9670129).",
        ref="DESIGN.md §5 C13"),
    "C14": dict(
        technique="field privacy + paired-mutation must-pass analysis + workspace-wide field-store scan + type-level independence argument",
        text="Encapsulation and pairing: representation fields private; every Tour method that structurally mutates `activities` mutates `jobs` on every "
             "path in the matching direction; Activity.job is never assigned or mutably borrowed after construction anywhere; the registry's available "
             "sets are mutated only by use_actor(remove)/free_actor(insert) with propagated results and get_route is gated on use_actor; deep copies "
             "share only immutable Arc data; an activity is matched to a job through Job equality on its root job, and Job equality / hash are payload pointer identity. Not decided: depot ends, leg enumeration, counts (index arithmetic).",
        note="Trusted: std collection contracts, safe-Rust ownership (an owned value built from &self can only clone).",
        ref="DESIGN.md §5 C14"),
    "C15": dict(
        technique="effect reachability over the CHA call graph + exhaustive finite-ordering evaluation of the reducer + closure capture typing",
        text="Purity of insertion evaluation under the deterministic configuration (no RNG/clock/IO/interior-mutability/thread-local/logger effect "
             "reachable; exhaustive leg mode proved by evaluating get_sample_data over the enum variant), parallel closures are shared Fn closures "
             "without mutable captures, the reducer is evaluated exhaustively over {Success,Failure}^2 x {<,=,>} and evaluate_all wiring is checked; the "
             "fold step never drops the best-so-far (every exit returns the alternative or select_insertion(alternative, candidate)); the cost order used by the "
             "reducer is a total order (lexicographic total_cmp); the CPU count that sizes populations does not depend on the pool layout (non-interference). "
             "One known finding (multi-job permutation sampling). Not decided: order-insensitivity of cost pruning, validity of full runs per layout.",
        note="Calls through stored Arc<dyn Fn> feature closures are not followed; ties between equal costs may resolve differently.",
        ref="DESIGN.md §5 C15"),
    "C16": dict(
        technique="sibling-agreement def-use analysis over all TransportCost impls (field roles, index shape) + rejecting-exit inventory",
        text="All routing providers agree structurally: duration methods read only duration data and apply the profile scale, distance methods read only "
             "distance data unscaled, fallbacks match the method; the pragmatic reader feeds MatrixData from the right matrix fields; every provider indexes "
             "from*size+to; constructors keep their confirmed rejecting checks; unreachable entries become negative in both vectors; the time-aware provider's "
             "timestamp index is collected from the matrices after they are sorted by timestamp (no separately sorted index); the scientific coordinate "
             "provider subtracts like coordinates (symmetric, zero diagonal by construction); between two matrix timestamps durations follow the linear "
             "interpolation formula over the (idx-1, idx) bracket with values and timestamps taken from the same matrices, distances take the left matrix "
             "(canonical expressions). The time-agnostic constructor compares every profile index with its position. Not decided: numeric values, behaviour of binary_search itself.",
        note="Per-constructor minimal counts of rejecting exits are a reasoned table; local names durations/distances act as role declarations.",
        ref="DESIGN.md §5 C16"),
    "C17": dict(
        technique="kind (position vs node) flow analysis, edge-dominance gates, per-iteration must-pass pairing, comparator def-use",
        text="Narrow clauses: LKH never confuses path positions with node ids and rebuilds from the given start node; only paths validated by try_path "
             "(length gate + visited check) are returned and only for strictly positive gain; DBSCAN marks points Clustered before every push and skips "
             "clustered points; clusters are seeded and extended by core points only (neighbour count >= min_points, others noise / border, decided on the "
             "normalised comparison and its edges); k-medoids returns assignments to the nearest medoid. Not decided: termination/optimality numerics, density-reachability, "
             "`no core point left unclustered`, convergence.",
        note="One genuine defect repaired (start node, fix: a2d54db).",
        ref="DESIGN.md §5 C17"),
    "C19": dict(
        technique="insertion-site key/coordinate source agreement, field-store scan, edge-dominance, flag evaluation by abstract interpretation, phase-rank analysis, sign analysis of divisors",
        text="Narrow clauses: the node map is private and every insertion keys a node by its own coordinate; coordinates are rewritten only in the contraction "
             "remap; compaction removes nodes only when four remain, re-trains with is_new_input=false, and Network::update (evaluated over the flag) cannot "
             "reach grow_nodes without new input; population phases only move forward. every re-assignment of an elite's capacity is followed by the truncation, every returned network creates and resizes node storages with config.node_size, compaction shifts each coordinate with its own axis' bounds and step. Every node storage is resized to node_size after the initial balancing; the per-node error never divides by a possibly-zero size (sign analysis). Not decided: finiteness of weights/errors, capacity, lookup, elite bounds.",
        note="Phase ranks are taken from the enum declaration order (re-confirmed on change).",
        ref="DESIGN.md §5 C19"),
    "C18": dict(
        technique="sign / constant-set abstract interpretation of MIR (inductive field invariants, sampler-argument obligations, reward range) + finite-ordering evaluation + canonical-expression formula checks",
        text="Decided for every reward history under real-number semantics (NaN / overflow / underflow not modelled): the SlotMachine learning state keeps shape > 0, "
             "rate > 0 and variance >= 0 — established by every constructor and preserved by every function that writes the fields (inductive sign invariant); "
             "every gamma call gets shape > 0 and scale > 0 and every normal call a std >= 0 with no division by a possibly-zero value on the sampling path; the "
             "distance reward is >= 0, the performance multiplier lies in its finite constant set within (~0.5, 3] and the reward fed to the learner is >= 0; the "
             "arg-max comparator answers the true order of two samples (ties random); termination estimates are clamped to [0,1]; the variation criterion folds over "
             "all objectives from true, an objective above the threshold blocks it, and its verdict is reported iff global or in the exploitation phase. The relative fitness distance is |a - b| / max(|a|, |b|) of the same two values (bounded); the variation window is addressed by the generation counter. Not decided: "
             "finiteness (NaN/inf) of the state, mean within the hull of rewards, the reward upper bound 6, the value of the coefficient of variation, window bookkeeping.",
        note="Assumes a gamma variate is >= 0 and finite rewards; float rounding/overflow is outside the sign domain.",
        ref="DESIGN.md §5 C18"),
    "C20": dict(
        technique="def-use threading analysis of the quoted cost + measure agreement (TransportCost method / slot writer / value closure) + sign/constant-set abstract interpretation",
        text="Narrow clauses: the quoted cost of a position is goal.estimate(activity move) + the route-level estimate, threaded unchanged to every leg, carried "
             "into the success and accumulated by addition for multi jobs; Goal::estimate yields one component per layer in order; the distance objective "
             "estimates with the TransportCost method that also feeds the cached total its fitness reads; single-closure objectives evaluate the same closure "
             "in estimate and fitness; sign/size agreement by abstract interpretation: assigning a job is quoted as −estimator while the fitness sums +estimator, "
             "opening a tour is quoted as exactly ±1, the change of the tour-count objective. Not decided: numeric equality, objectives with two independent closures.",
        note="Parameter positions of the evaluator chain are a confirmed table.",
        ref="DESIGN.md §5 C20"),
}

NOT_APPLICABLE = {
}

PENDING = "static rules for this property are designed (DESIGN.md §5) but not armed yet in this revision; not claimed until they run silent on the unchanged tree"

ALL = [f"C{i:02d}" for i in range(1, 21)]


def main():
    checks = []
    for pid in ALL:
        c = CLAIMS.get(pid)
        if not c:
            continue
        checks.append({
            "property_id": pid,
            "quick_cmd": f"./check {pid} --tier quick",
            "thorough_cmd": f"./check {pid} --tier thorough",
            "evidence_file": f"/verif/evidence/{pid}.json",
            "replay_cmd_template": f"./check {pid} --replay {{path}}",
            "engine": "vrp-static",
            "level_claimed": {"category": "other", "text": c["text"], "design_ref": c["ref"]},
            "level_note": c["note"],
            "technique": c["technique"],
        })
    na = []
    for pid in ALL:
        if pid in CLAIMS:
            continue
        na.append({"property_id": pid, "reason": NOT_APPLICABLE.get(pid, PENDING)})
    m = {
        "version": 1,
        "setup_cmd": "cd /verif/driver && CARGO_NET_OFFLINE=true cargo build --offline --release && cd /verif/attrscan && CARGO_NET_OFFLINE=true cargo build --offline --release && cd /verif && python3 -m vv.selfcheck",
        "hooks": {
            "guard": "reinterpretcat_vrp_verif",
            "enable": "none needed: static analysis reads the unmodified sources (driver injected with RUSTC_WORKSPACE_WRAPPER under cargo +nightly check); no cfg-guarded hook exists in /repo",
            "baseline_off_cmd": "cd /repo && cargo nextest run --workspace --no-fail-fast --test-threads 8 --offline",
            "source_commits": [],
            "add_only": True,
        },
        "engines": [{
            "name": "vrp-static",
            "path": "/verif/check",
            "serves_properties": sorted(CLAIMS),
            "kind_free_text": "rustc_private MIR fact extractor (driver/) + syn attribute scanner (attrscan/) + python rule engine (vv/): call graph, "
                              "dominance/must-pass, typestate, TypeId-slot table, finite-ordering abstract interpreter, units, type-level facts",
        }],
        "checks": checks,
        "not_applicable": na,
        "notes": "Static analysis only. quick = fact extraction (cached by content hash of /repo) + all rules of the property; thorough = quick + canary self-test (selftest/*.diff applied to a scratch copy of the current tree; the rule must fire and name the instance) + compile-fail witnesses (witness/, cargo +nightly test --doc) for C04/C05/C14/C19. fix: commits in /repo repair genuine defects found by the rules (see known_findings.json `fixed`).",
    }
    with open(os.path.join(VERIF, "MANIFEST.json"), "w") as fh:
        json.dump(m, fh, indent=1, ensure_ascii=False)
        fh.write("\n")


if __name__ == "__main__":
    main()
