#!/bin/bash
# tools/verify_seed.sh <seed-dir> — independent confirmation of a seeded change in a scratch worktree (never /repo):
#   1. demo applied alone: demo command passes;  2. patch + demo: demo command fails;  3. patch alone: full suite passes.
# seed-dir holds patch.diff, demo.diff, meta.json (with demo_cmd). Writes <seed-dir>/verified.txt.
set -u
sd=$(realpath "$1")
wt=${SEED_WT:-/tmp/seedverify}
if [ ! -d "$wt" ]; then git -C /repo worktree add --detach "$wt" HEAD >/dev/null 2>&1 || exit 2; fi
cd "$wt" || exit 2
git checkout -q --detach "$(git -C /repo rev-parse HEAD)" 2>/dev/null
git checkout -- . ; git clean -fdq -e target
export CARGO_NET_OFFLINE=true
demo_cmd=$(python3 -c "import json,sys; print(json.load(open('$sd/meta.json'))['demo_cmd'])" | sed -E "s#cd /tmp/brk[0-9]*-[a-z0-9]+ *&& *##; s#/tmp/brk[0-9]*-[a-z0-9]+#$wt#g")
res="$sd/verified.txt"; : > "$res"
echo "head: $(git rev-parse --short HEAD)" >> "$res"
echo "demo_cmd: $demo_cmd" >> "$res"
git apply "$sd/demo.diff" || { echo "demo.diff does not apply" >> "$res"; exit 1; }
if bash -c "$demo_cmd" > /tmp/seedverify-demo1.log 2>&1; then echo "demo without patch: PASS (expected)" >> "$res"; else echo "demo without patch: FAIL (unexpected)" >> "$res"; tail -5 /tmp/seedverify-demo1.log >> "$res"; fi
git apply "$sd/patch.diff" || { echo "patch.diff does not apply" >> "$res"; exit 1; }
if bash -c "$demo_cmd" > /tmp/seedverify-demo2.log 2>&1; then echo "demo with patch: PASS (unexpected)" >> "$res"; else echo "demo with patch: FAIL (expected)" >> "$res"; fi
git checkout -- . ; git clean -fdq -e target
git apply "$sd/patch.diff"
cargo nextest run --workspace --no-fail-fast --test-threads 8 --offline > /tmp/seedverify-suite.log 2>&1
grep -E "Summary|^\s+FAIL" /tmp/seedverify-suite.log | head -5 | sed 's/^/suite with patch: /' >> "$res"
git checkout -- . ; git clean -fdq -e target
cat "$res"
