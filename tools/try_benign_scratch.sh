#!/bin/bash
# tools/try_benign_scratch.sh <patch.diff> — like try_benign.sh but on a scratch copy of /repo (does not touch /repo or the committed evidence)
set -u
patch="$(readlink -f "$1")"
S=/var/tmp/vrp-benign-$$
mkdir -p "$S"
rsync -a --delete --exclude target --exclude .git /repo/ "$S/repo/"
( cd "$S/repo" && patch -p1 -s -i "$patch" ) || { echo "patch does not apply"; rm -rf "$S"; exit 2; }
cd /verif
VV_REPO="$S/repo" VV_EVIDENCE_DIR="$S/evidence" ./check ALL 2>/dev/null | grep -A1 "^VIOLATION" | grep -v "^--" | cut -c1-330
echo "== done $(basename $patch)"
rm -rf "$S"
