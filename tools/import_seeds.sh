#!/bin/bash
# tools/import_seeds.sh <PROP> <out-dir> <first-index> [<worktree>] — copy a breaker agent's deliverables to seeded/<PROP>-<i>, remove its worktree, run the property's check on each (scratch copy)
set -u
P=$1; out=$2; i=$3; wt=${4:-}
cd /verif
for k in 1 2 3; do
  [ -f "$out/$k/patch.diff" ] || continue
  d=seeded/$P-$i; mkdir -p $d
  cp "$out/$k/patch.diff" "$out/$k/demo.diff" "$out/$k/meta.json" $d/
  echo "##### $P-$i  ($(python3 -c "import json;print(json.load(open('$d/meta.json'))['summary'][:150])"))"
  tools/try_patch.sh $d/patch.diff $P | cut -c1-300
  i=$((i+1))
done
if [ -n "$wt" ]; then git -C /repo worktree remove --force "$wt" 2>/dev/null; rm -rf "$wt"; fi
