#!/usr/bin/env python3
"""tools/finalize_seed.py <seed-dir> <detected-by text> — merge verified.txt + detection result into meta.json"""
import json, os, sys
sd = sys.argv[1]
det = sys.argv[2] if len(sys.argv) > 2 else ""
m = json.load(open(os.path.join(sd, "meta.json")))
v = open(os.path.join(sd, "verified.txt")).read().strip().splitlines() if os.path.exists(os.path.join(sd, "verified.txt")) else []
m["what_i_ran"] = {
    "confirmation": "tools/verify_seed.sh in scratch worktree /tmp/seedverify (demo alone passes; demo+patch fails; full suite with patch)",
    "result": v,
    "check": "tools/try_seed.sh <patch> <property> (git apply to /repo, ./check, git checkout -- .)",
}
m["detected_by"] = det
json.dump(m, open(os.path.join(sd, "meta.json"), "w"), indent=1, ensure_ascii=False)
