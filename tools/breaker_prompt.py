#!/usr/bin/env python3
"""prints the prompt for an independent 'breaker' sub-agent for property <ID> (only the property text is given)"""
import json, sys
pid = sys.argv[1]
n = sys.argv[2] if len(sys.argv) > 2 else "3"
for l in open('/verif/properties.jsonl'):
    p = json.loads(l)
    if p['id'] == pid:
        break
wt = f"/tmp/brk-{pid.lower()}"
print(f"""You are a software engineer studying how robust a Rust code base is against subtle regressions. The project is reinterpretcat/vrp (a rich Vehicle Routing Problem solver: crates rosomaxa, vrp-core, vrp-pragmatic, vrp-scientific, vrp-cli).

Create your own scratch git worktree and work ONLY there (never touch /repo or /verif, do not read /verif):
    git -C /repo worktree add {wt} HEAD
    cd {wt}
The sandbox has no network: always build/test with `CARGO_NET_OFFLINE=true cargo ... --offline`. Building a crate's tests takes a few minutes the first time. The project's test suite is run with: `CARGO_NET_OFFLINE=true cargo nextest run --workspace --no-fail-fast --test-threads 8 --offline` (1212 tests, all pass on the unmodified tree). Unit tests live under <crate>/tests/unit/... and are mounted into source modules via `#[cfg(test)] #[path = "..."] mod xxx_test;`, so they can use `super::*`; helpers are under <crate>/tests/helpers.

Here is a semantic property of the system that is supposed to hold for every input / configuration / history:

  [{p['id']}] {p['title']}
  {p['statement']}
  Quantifier: {p['quantifier']['text']}

Your task: produce {n} DIFFERENT realistic code changes (regressions a developer could plausibly introduce by a refactoring, an optimisation, a 'simplification' or a misplaced edit) to the product code (under */src/, not tests) such that EACH change, applied alone to the unmodified tree:
  1. still compiles (whole workspace) and the existing test suite still passes completely (run the full suite command above with your change applied, and report the summary line);
  2. breaks the property above for some input/history;
  3. needs something specific to manifest — e.g. a particular multi-step sequence of operations, an unusual but valid input, a specific configuration, a particular interleaving, or two cooperating sites that each look fine alone — i.e. NOT something ordinary use would expose at once;
  4. comes with a demonstration: a new unit/integration test (or small program) that FAILS with the change and PASSES without it. Verify both directions yourself.
Prefer changes in different files/mechanisms from each other (e.g. not three variations of the same line). Keep each change small (a few lines).

Deliverables — for change k (k=1..{n}) create a directory {wt}-out/k/ containing:
  - patch.diff : `git diff` of the product-code change only (must apply to the unmodified tree with `git apply`);
  - demo.diff  : `git diff` of the demonstration test only (new/modified test files; must apply independently of patch.diff to the unmodified tree, where the demo passes);
  - meta.json  : {{"property": "{p['id']}", "summary": "...what was changed...", "needs": "...what is needed for it to manifest...", "demo_cmd": "...exact command that runs the demo...", "suite_summary": "...summary line of the full test suite run with the patch applied..."}}
Make sure patch.diff and demo.diff are produced against the unmodified HEAD (use `git stash`/`git checkout` as needed to separate them). When finished, reset the worktree to a clean state (`git checkout -- . && git clean -fd` inside the worktree) but do NOT remove the worktree or the -out directory. In your final answer list, for each change, the one-line summary and the paths. If you cannot find a change that passes the full existing suite for some k, say so rather than delivering one that fails tests.""")
