#!/usr/bin/env python3
"""tools/mkcanary.py <name> <rel-file> <old> <new> [<expect-prop> <expect-text>] — writes selftest/<name>.diff (single replacement in one file of /repo) and registers it"""
import json, os, subprocess, sys, tempfile
name, rel, old, new = sys.argv[1:5]
src = open(os.path.join('/repo', rel)).read()
assert src.count(old) == 1, f"old text occurs {src.count(old)} times"
d = tempfile.mkdtemp(dir='/var/tmp')
for side, text in (('a', src), ('b', src.replace(old, new))):
    p = os.path.join(d, side, rel)
    os.makedirs(os.path.dirname(p), exist_ok=True)
    open(p, 'w').write(text)
out = subprocess.run(['diff', '-u', os.path.join('a', rel), os.path.join('b', rel)], cwd=d, stdout=subprocess.PIPE, text=True).stdout
open(f'/verif/selftest/{name}.diff', 'w').write(out)
subprocess.run(['rm', '-rf', d])
if len(sys.argv) > 6:
    p = '/verif/selftest/expect.json'
    e = json.load(open(p))
    e[name + '.diff'] = {'property': sys.argv[5], 'expect': sys.argv[6]}
    json.dump(e, open(p, 'w'), indent=1)
print(out)
