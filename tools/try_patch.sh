#!/bin/bash
# tools/try_patch.sh <patch.diff> <PROP> [<PROP>...] — evaluate checks against a SCRATCH COPY of /repo with the patch applied (never touches /repo or its evidence):
# used while /repo must stay untouched (e.g. while the thorough tier is running). Evidence of these runs goes to a scratch evidence dir.
set -u
patch="$(readlink -f "$1")"; shift
S=/var/tmp/vrp-try-$$
mkdir -p "$S"
rsync -a --delete --exclude target --exclude .git /repo/ "$S/repo/"
( cd "$S/repo" && patch -p1 -s -i "$patch" ) || { echo "patch does not apply"; rm -rf "$S"; exit 2; }
cd /verif
for p in "$@"; do
  out=$(VV_REPO="$S/repo" VV_EVIDENCE_DIR="$S/evidence" ./check "$p" 2>/dev/null); rc=$?
  echo "== $p exit=$rc"
  echo "$out" | grep -A1 "^VIOLATION" | grep -v "^--" | sed 's/^/   /' | cut -c1-400
done
rm -rf "$S"
