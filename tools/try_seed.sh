#!/bin/bash
# tools/try_seed.sh <patch.diff> <PROP> [<PROP>...] — apply a seeded change to /repo, run the given checks, undo it.
# Prints for every property whether the check fired (exit 1) and which rule instances it named.
set -u
patch="$(readlink -f "$1")"; shift
cd /repo || exit 2
if [ -n "$(git status --porcelain --untracked-files=no)" ]; then echo "repo not clean"; exit 2; fi
git apply "$patch" || { echo "patch does not apply"; exit 2; }
props="$*"
trap 'git -C /repo checkout -- . >/dev/null 2>&1; cd /verif; for p in $props; do ./check "$p" >/dev/null 2>&1; done' EXIT
cd /verif
for p in "$@"; do
  out=$(./check "$p" 2>/dev/null); rc=$?
  echo "== $p exit=$rc"
  echo "$out" | grep -A1 "^VIOLATION" | grep -v "^--" | sed 's/^/   /' | cut -c1-400
done
