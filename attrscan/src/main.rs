// attrscan: syn-2 AST walker. Usage: attrscan <repo-root>. Emits JSONL on stdout:
//   {"t":"crate_attrs","crate":..,"file":..,"attrs":[..]}           inner attributes of lib.rs / main.rs
//   {"t":"type","file":..,"line":..,"name":..,"kind":"struct|enum","derives":[..],"serde":[..],"fields":[..],"variants":[..]}
//   {"t":"fmt","file":..,"line":..,"func":..,"macro":..,"template":..}  first string literal of format-like macros
//   {"t":"unsafe","file":..,"line":..,"what":..}
use std::path::{Path, PathBuf};
use syn::visit::Visit;

fn esc(s: &str) -> String {
    let mut o = String::new();
    for c in s.chars() {
        match c {
            '"' => o.push_str("\\\""),
            '\\' => o.push_str("\\\\"),
            '\n' => o.push_str("\\n"),
            '\t' => o.push_str("\\t"),
            c if (c as u32) < 0x20 => {}
            c => o.push(c),
        }
    }
    o
}
fn q(s: &str) -> String {
    format!("\"{}\"", esc(s))
}
fn list(v: &[String]) -> String {
    format!("[{}]", v.iter().map(|s| q(s)).collect::<Vec<_>>().join(","))
}

fn serde_attrs(attrs: &[syn::Attribute]) -> Vec<String> {
    // each top-level item inside #[serde(...)] as normalised token text
    let mut out = Vec::new();
    for a in attrs {
        if a.path().is_ident("serde") {
            if let syn::Meta::List(l) = &a.meta {
                let parsed = l.parse_args_with(syn::punctuated::Punctuated::<syn::Meta, syn::Token![,]>::parse_terminated);
                match parsed {
                    Ok(items) => {
                        for m in items {
                            out.push(quote::quote!(#m).to_string());
                        }
                    }
                    Err(_) => out.push(l.tokens.to_string()),
                }
            }
        }
    }
    out
}
fn derives(attrs: &[syn::Attribute]) -> Vec<String> {
    let mut out = Vec::new();
    for a in attrs {
        if a.path().is_ident("derive") {
            if let syn::Meta::List(l) = &a.meta {
                if let Ok(items) = l.parse_args_with(syn::punctuated::Punctuated::<syn::Path, syn::Token![,]>::parse_terminated) {
                    for p in items {
                        out.push(p.segments.last().map(|s| s.ident.to_string()).unwrap_or_default());
                    }
                }
            }
        }
    }
    out
}
fn fields_json(fields: &syn::Fields) -> String {
    let mut v = Vec::new();
    for (i, f) in fields.iter().enumerate() {
        let ty = &f.ty;
        let name = f.ident.as_ref().map(|x| x.to_string()).unwrap_or(format!("{}", i));
        let name = name.trim_start_matches("r#").to_string();
        v.push(format!(
            "{{\"name\":{},\"ty\":{},\"serde\":{}}}",
            q(&name),
            q(&quote::quote!(#ty).to_string()),
            list(&serde_attrs(&f.attrs))
        ));
    }
    format!("[{}]", v.join(","))
}

struct V {
    file: String,
    func: Vec<String>,
    in_test: usize,
}

fn is_cfg_test(attrs: &[syn::Attribute]) -> bool {
    attrs.iter().any(|a| a.path().is_ident("cfg") && quote::quote!(#a).to_string().replace(' ', "").contains("cfg(test)"))
}

impl V {
    fn mac(&mut self, m: &syn::Macro) {
        let name = m.path.segments.last().map(|s| s.ident.to_string()).unwrap_or_default();
        if !matches!(name.as_str(), "format" | "write" | "writeln" | "println" | "print" | "panic" | "format_args") {
            return;
        }
        // first string literal token
        for tt in m.tokens.clone() {
            if let proc_macro2::TokenTree::Literal(l) = tt {
                let s = l.to_string();
                if s.starts_with('"') {
                    let line = m.path.segments.first().map(|s| s.ident.span().start().line).unwrap_or(0);
                    println!(
                        "{{\"t\":\"fmt\",\"file\":{},\"line\":{},\"func\":{},\"macro\":{},\"template\":{}}}",
                        q(&self.file),
                        line,
                        q(&self.func.join("::")),
                        q(&name),
                        q(&s[1..s.len() - 1])
                    );
                    break;
                }
            }
        }
    }
}

impl<'ast> Visit<'ast> for V {
    fn visit_item_mod(&mut self, i: &'ast syn::ItemMod) {
        if is_cfg_test(&i.attrs) {
            return;
        }
        syn::visit::visit_item_mod(self, i);
    }
    fn visit_item_struct(&mut self, i: &'ast syn::ItemStruct) {
        println!(
            "{{\"t\":\"type\",\"file\":{},\"line\":{},\"name\":{},\"kind\":\"struct\",\"derives\":{},\"serde\":{},\"fields\":{},\"variants\":[]}}",
            q(&self.file),
            i.ident.span().start().line,
            q(&i.ident.to_string()),
            list(&derives(&i.attrs)),
            list(&serde_attrs(&i.attrs)),
            fields_json(&i.fields)
        );
    }
    fn visit_item_enum(&mut self, i: &'ast syn::ItemEnum) {
        let mut vs = Vec::new();
        for v in i.variants.iter() {
            vs.push(format!(
                "{{\"name\":{},\"serde\":{},\"shape\":{},\"fields\":{}}}",
                q(&v.ident.to_string()),
                list(&serde_attrs(&v.attrs)),
                q(match &v.fields {
                    syn::Fields::Named(_) => "named",
                    syn::Fields::Unnamed(_) => "tuple",
                    syn::Fields::Unit => "unit",
                }),
                fields_json(&v.fields)
            ));
        }
        println!(
            "{{\"t\":\"type\",\"file\":{},\"line\":{},\"name\":{},\"kind\":\"enum\",\"derives\":{},\"serde\":{},\"fields\":[],\"variants\":[{}]}}",
            q(&self.file),
            i.ident.span().start().line,
            q(&i.ident.to_string()),
            list(&derives(&i.attrs)),
            list(&serde_attrs(&i.attrs)),
            vs.join(",")
        );
    }
    fn visit_item_fn(&mut self, i: &'ast syn::ItemFn) {
        if is_cfg_test(&i.attrs) {
            return;
        }
        if i.sig.unsafety.is_some() {
            println!("{{\"t\":\"unsafe\",\"file\":{},\"line\":{},\"what\":\"fn\"}}", q(&self.file), i.sig.ident.span().start().line);
        }
        self.func.push(i.sig.ident.to_string());
        syn::visit::visit_item_fn(self, i);
        self.func.pop();
    }
    fn visit_impl_item_fn(&mut self, i: &'ast syn::ImplItemFn) {
        self.func.push(i.sig.ident.to_string());
        syn::visit::visit_impl_item_fn(self, i);
        self.func.pop();
    }
    fn visit_item_impl(&mut self, i: &'ast syn::ItemImpl) {
        if i.unsafety.is_some() {
            println!("{{\"t\":\"unsafe\",\"file\":{},\"line\":{},\"what\":\"impl\"}}", q(&self.file), i.impl_token.span.start().line);
        }
        let ty = &i.self_ty;
        let name = quote::quote!(#ty).to_string().replace(' ', "");
        self.func.push(name);
        syn::visit::visit_item_impl(self, i);
        self.func.pop();
    }
    fn visit_expr_unsafe(&mut self, i: &'ast syn::ExprUnsafe) {
        println!("{{\"t\":\"unsafe\",\"file\":{},\"line\":{},\"what\":\"block\"}}", q(&self.file), i.unsafe_token.span.start().line);
        syn::visit::visit_expr_unsafe(self, i);
    }
    fn visit_macro(&mut self, m: &'ast syn::Macro) {
        self.mac(m);
        // descend into macro arguments that parse as expressions (nested format! calls)
        if let Ok(args) = m.parse_body_with(syn::punctuated::Punctuated::<syn::Expr, syn::Token![,]>::parse_terminated) {
            for e in args.iter() {
                self.visit_expr(e);
            }
        }
    }
}

fn walk(dir: &Path, out: &mut Vec<PathBuf>) {
    if let Ok(rd) = std::fs::read_dir(dir) {
        let mut ents: Vec<_> = rd.filter_map(|e| e.ok()).collect();
        ents.sort_by_key(|e| e.path());
        for e in ents {
            let p = e.path();
            if p.is_dir() {
                walk(&p, out);
            } else if p.extension().map(|x| x == "rs").unwrap_or(false) {
                out.push(p);
            }
        }
    }
}

fn main() {
    let root = std::env::args().nth(1).unwrap_or("/repo".into());
    let crates = ["rosomaxa", "vrp-core", "vrp-pragmatic", "vrp-scientific", "vrp-cli"];
    let mut failed = false;
    for c in crates {
        let src = Path::new(&root).join(c).join("src");
        let mut files = Vec::new();
        walk(&src, &mut files);
        for p in files {
            let rel = p.strip_prefix(&root).unwrap().to_string_lossy().to_string();
            let text = match std::fs::read_to_string(&p) {
                Ok(t) => t,
                Err(_) => continue,
            };
            let f = match syn::parse_file(&text) {
                Ok(f) => f,
                Err(e) => {
                    eprintln!("attrscan: cannot parse {}: {}", rel, e);
                    failed = true;
                    continue;
                }
            };
            if rel.ends_with("src/lib.rs") || rel.ends_with("src/main.rs") {
                let at: Vec<String> = f
                    .attrs
                    .iter()
                    .map(|a| {
                        let m = &a.meta;
                        quote::quote!(#m).to_string().replace(' ', "")
                    })
                    .collect();
                println!("{{\"t\":\"crate_attrs\",\"crate\":{},\"file\":{},\"attrs\":{}}}", q(c), q(&rel), list(&at));
            }
            V { file: rel, func: vec![], in_test: 0 }.visit_file(&f);
        }
    }
    if failed {
        std::process::exit(1);
    }
}
