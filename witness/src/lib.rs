//! Compile-fail witnesses (thorough tier): rustc itself confirms the encapsulation facts the static rules rely on.
//! Every `compile_fail,E0xxx` block has a compiling twin that differs only by the offending access, so a witness whose
//! path is merely wrong cannot pass. Run with `cargo +nightly test --doc --offline` (error codes are checked on nightly).

/// C14-E1: the representation of `Tour` is private.
/// ```compile_fail,E0616
/// fn f(t: &mut vrp_core::models::solution::Tour) { t.activities.clear(); }
/// ```
/// ```compile_fail,E0616
/// fn f(t: &mut vrp_core::models::solution::Tour) { t.jobs.clear(); }
/// ```
/// twin:
/// ```
/// fn f(t: &mut vrp_core::models::solution::Tour) -> usize { t.total() }
/// ```
pub struct TourIsEncapsulated;

/// C14-E1: `activities_mut` is crate-private (only lkh_search may permute activities).
/// ```compile_fail,E0624
/// fn f(t: &mut vrp_core::models::solution::Tour) { t.activities_mut().clear(); }
/// ```
/// twin:
/// ```
/// fn f(t: &mut vrp_core::models::solution::Tour) { let _ = t.all_activities_mut().count(); }
/// ```
pub struct ActivitiesMutIsCratePrivate;

/// C05-S1: the stale bit cannot be bypassed: `RouteContext` fields are private and `mark_stale` is crate-private.
/// ```compile_fail,E0616
/// fn f(r: &mut vrp_core::construction::heuristics::RouteContext) { let _ = &mut r.route; }
/// ```
/// ```compile_fail,E0616
/// fn f(r: &mut vrp_core::construction::heuristics::RouteContext) { let _ = &mut r.state; }
/// ```
/// ```compile_fail,E0624
/// fn f(r: &mut vrp_core::construction::heuristics::RouteContext) { r.mark_stale(false); }
/// ```
/// twin:
/// ```
/// fn f(r: &mut vrp_core::construction::heuristics::RouteContext) -> bool { let _ = r.route_mut(); r.is_stale() }
/// ```
pub struct StaleBitIsUnforgeable;

/// C14-E1 / C14-R1: the registry's bookkeeping is private.
/// ```compile_fail,E0616
/// fn f(r: &mut vrp_core::models::solution::Registry) { r.available.clear(); }
/// ```
/// ```compile_fail,E0616
/// fn f(r: &mut vrp_core::construction::heuristics::RegistryContext) { let _ = &mut r.registry; }
/// ```
/// twin:
/// ```
/// fn f(r: &vrp_core::models::solution::Registry) -> usize { r.available().count() }
/// ```
pub struct RegistryIsEncapsulated;

/// C04-P1: a search operator cannot mutate its parent through the shared reference.
/// ```compile_fail,E0596
/// fn f(parent: &vrp_core::construction::heuristics::InsertionContext) { parent.solution.required.clear(); }
/// ```
/// twin:
/// ```
/// fn f(parent: &vrp_core::construction::heuristics::InsertionContext) -> usize { parent.solution.required.len() }
/// ```
pub struct ParentIsShared;

/// C19-M1: the GSOM node map is private.
/// ```compile_fail,E0616
/// fn f<C, I, S, F>(n: &mut rosomaxa::algorithms::gsom::Network<C, I, S, F>)
/// where C: Send + Sync, I: rosomaxa::algorithms::gsom::Input, S: rosomaxa::algorithms::gsom::Storage<Item = I>, F: rosomaxa::algorithms::gsom::StorageFactory<C, I, S>
/// { n.nodes.clear(); }
/// ```
/// twin:
/// ```
/// fn f<C, I, S, F>(n: &rosomaxa::algorithms::gsom::Network<C, I, S, F>) -> usize
/// where C: Send + Sync, I: rosomaxa::algorithms::gsom::Input, S: rosomaxa::algorithms::gsom::Storage<Item = I>, F: rosomaxa::algorithms::gsom::StorageFactory<C, I, S>
/// { n.size() }
/// ```
pub struct NodeMapIsPrivate;

/// C18-S1: the learning state of a slot machine cannot be written from outside its module (the sign invariant
/// shape > 0, rate > 0, variance >= 0 is established by `new` and preserved by `update`, the only writers).
/// ```compile_fail,E0616
/// fn f<A, S>(m: &mut rosomaxa::algorithms::rl::SlotMachine<A, S>) { m.alpha = -1.; }
/// ```
/// ```compile_fail,E0616
/// fn f<A, S>(m: &mut rosomaxa::algorithms::rl::SlotMachine<A, S>) { m.beta = 0.; }
/// ```
/// twin:
/// ```
/// fn f<A, S>(m: &rosomaxa::algorithms::rl::SlotMachine<A, S>) -> f64
/// where A: rosomaxa::algorithms::rl::SlotAction + Clone, S: rosomaxa::utils::DistributionSampler + Clone {
///     m.get_params().0
/// }
/// ```
pub struct SlotMachineStateIsPrivate;
