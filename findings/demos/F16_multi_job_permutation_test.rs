//! Checks that evaluation of a multi job insertion is a pure function of (tour, job).

use crate::format::problem::*;
use crate::helpers::*;
use crate::utils::VariableJobPermutation;
use std::collections::BTreeSet;
use std::sync::Arc;
use vrp_core::construction::heuristics::*;
use vrp_core::models::problem::{Job as CoreJob, JobPermutation};
use vrp_core::prelude::Environment;
use vrp_core::utils::DefaultRandom;

const REPEAT: usize = 200;

/// One open-ended vehicle at (0,0), one multi job: pickups at x=1,2; deliveries at x=3,4.
/// Route distance for sub-job orders (tour is empty, so order of sub-jobs == order in tour):
///  [p1 p2 d1 d2] -> 4, [p1 p2 d2 d1] -> 5, [p2 p1 d1 d2] -> 6, [p2 p1 d2 d1] -> 7
fn create_core_problem() -> Arc<vrp_core::models::Problem> {
    let problem = Problem {
        plan: Plan {
            jobs: vec![create_multi_job(
                "multi",
                vec![((1., 0.), 0., vec![1]), ((2., 0.), 0., vec![1])],
                vec![((3., 0.), 0., vec![1]), ((4., 0.), 0., vec![1])],
            )],
            ..create_empty_plan()
        },
        fleet: Fleet {
            vehicles: vec![VehicleType {
                shifts: vec![create_default_open_vehicle_shift()],
                ..create_default_vehicle_type()
            }],
            ..create_default_fleet()
        },
        ..create_empty_problem()
    };
    let matrix = create_matrix_from_problem(&problem);

    Arc::new((problem, vec![matrix]).read_pragmatic().unwrap_or_else(|err| panic!("cannot read problem: {err:?}")))
}

fn evaluate_once(insertion_ctx: &InsertionContext, job: &CoreJob) -> String {
    let routes = insertion_ctx.solution.registry.next_route().collect::<Vec<_>>();
    assert_eq!(routes.len(), 1);

    let result = PositionInsertionEvaluator::default().evaluate_all(
        insertion_ctx,
        &[job],
        &routes,
        &LegSelection::Exhaustive,
        &BestResultSelector::default(),
    );

    match result {
        InsertionResult::Success(s) => format!("{:?}", s.cost.iter().collect::<Vec<_>>()),
        InsertionResult::Failure(f) => format!("failure({:?})", f.constraint),
    }
}

/// Variant 1: default environment, same context, same thread, repeated evaluation.
#[test]
fn multi_job_insertion_cost_is_same_on_repeated_evaluation_with_default_environment() {
    let problem = create_core_problem();
    let insertion_ctx = InsertionContext::new(problem.clone(), Arc::new(Environment::default()));
    let job = problem.jobs.all().first().cloned().unwrap();
    assert!(job.as_multi().is_some());

    let costs = (0..REPEAT).map(|_| evaluate_once(&insertion_ctx, &job)).collect::<Vec<_>>();
    let distinct = costs.iter().cloned().collect::<BTreeSet<_>>();
    let histogram =
        distinct.iter().map(|c| (c.clone(), costs.iter().filter(|x| *x == c).count())).collect::<Vec<_>>();
    println!("default env: distinct costs with counts: {histogram:?}");

    assert_eq!(distinct.len(), 1, "expected single cost, got: {histogram:?}");
}

/// Variant 2: environment with repeatable random passed to InsertionContext, evaluation from many threads.
/// NOTE: problem reader ignores it: it creates its own Environment::default() (problem_reader.rs:183).
#[test]
fn multi_job_insertion_cost_is_same_across_threads_with_repeatable_environment() {
    let problem = create_core_problem();
    let environment = Arc::new(Environment { random: Arc::new(DefaultRandom::new_repeatable()), ..Environment::default() });
    let insertion_ctx = InsertionContext::new(problem.clone(), environment);
    let job = problem.jobs.all().first().cloned().unwrap();

    let costs = std::thread::scope(|s| {
        let handles = (0..8)
            .map(|_| s.spawn(|| (0..REPEAT / 8).map(|_| evaluate_once(&insertion_ctx, &job)).collect::<Vec<_>>()))
            .collect::<Vec<_>>();
        handles.into_iter().flat_map(|h| h.join().unwrap()).collect::<Vec<_>>()
    });
    let distinct = costs.iter().cloned().collect::<BTreeSet<_>>();
    let histogram =
        distinct.iter().map(|c| (c.clone(), costs.iter().filter(|x| *x == c).count())).collect::<Vec<_>>();
    println!("repeatable env, 8 threads: distinct costs with counts: {histogram:?}");

    assert_eq!(distinct.len(), 1, "expected single cost, got: {histogram:?}");
}

/// Variant 3: permutator itself with a *repeatable* random (as if environment was passed through):
/// each thread has own stream, consecutive calls on the same thread return different samples.
#[test]
fn variable_permutation_with_repeatable_random_returns_same_sample_set() {
    let permutator = VariableJobPermutation::new(4, 2, 3, Arc::new(DefaultRandom::new_repeatable()));

    let per_thread = std::thread::scope(|s| {
        let handles = (0..4)
            .map(|_| {
                s.spawn(|| {
                    (0..50)
                        .map(|_| {
                            let mut sample = permutator.get();
                            sample.sort();
                            sample.dedup();
                            sample
                        })
                        .collect::<Vec<_>>()
                })
            })
            .collect::<Vec<_>>();
        handles.into_iter().map(|h| h.join().unwrap()).collect::<Vec<_>>()
    });

    let all = per_thread.iter().flatten().cloned().collect::<BTreeSet<_>>();
    let without_identity = per_thread.iter().flatten().filter(|s| !s.contains(&vec![0, 1, 2, 3])).count();
    println!("repeatable permutator: {} distinct sample sets over 4x50 calls: {all:?}", all.len());
    println!("repeatable permutator: {without_identity} of 200 calls do not contain [0,1,2,3]");
    println!("repeatable permutator: first 5 calls on thread 0: {:?}", &per_thread[0][..5]);
    println!("repeatable permutator: threads identical to each other: {}", per_thread.iter().all(|t| *t == per_thread[0]));

    assert_eq!(all.len(), 1, "expected the same set of permutations on every call");
}
