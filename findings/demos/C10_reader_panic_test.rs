//! Triage tests: each test feeds a syntactically well-formed problem (and matrices) into the
//! pragmatic reader and FAILS when the reader panics instead of returning Ok or Err(codes).
//! Outcome (Ok / Err codes / PANIC message @ location) is printed with `--nocapture`.

use crate::format::problem::*;
use crate::format_time;
use crate::helpers::*;
use std::cell::RefCell;
use std::panic::{AssertUnwindSafe, catch_unwind};
use std::sync::Once;

thread_local! {
    static LAST_PANIC: RefCell<Option<String>> = const { RefCell::new(None) };
}

static HOOK: Once = Once::new();

/// Installs (once) a chained panic hook which records message + location in a thread local.
fn install_hook() {
    HOOK.call_once(|| {
        let prev = std::panic::take_hook();
        std::panic::set_hook(Box::new(move |info| {
            let msg = info
                .payload()
                .downcast_ref::<&str>()
                .map(|s| s.to_string())
                .or_else(|| info.payload().downcast_ref::<String>().cloned())
                .unwrap_or_else(|| "<non-string payload>".to_string());
            let loc = info.location().map(|l| format!("{}:{}:{}", l.file(), l.line(), l.column())).unwrap_or_default();
            LAST_PANIC.with(|p| *p.borrow_mut() = Some(format!("'{msg}' @ {loc}")));
            prev(info);
        }));
    });
}

/// Runs reader and returns textual outcome: `Ok`, `Err([codes])` or `PANIC: ...`.
fn outcome<F>(name: &str, read: F) -> String
where
    F: FnOnce() -> Result<vrp_core::models::Problem, MultiFormatError>,
{
    install_hook();
    LAST_PANIC.with(|p| *p.borrow_mut() = None);

    let result = match catch_unwind(AssertUnwindSafe(read)) {
        Ok(Ok(_)) => "Ok".to_string(),
        Ok(Err(err)) => {
            format!("Err({:?})", err.errors.iter().map(|e| format!("{}: {}", e.code, e.action)).collect::<Vec<_>>())
        }
        Err(_) => format!("PANIC: {}", LAST_PANIC.with(|p| p.borrow_mut().take()).unwrap_or_default()),
    };

    println!("[{name}] => {result}");

    result
}

fn assert_no_panic(name: &str, outcome: String) {
    assert!(!outcome.starts_with("PANIC"), "[{name}] reader crashed: {outcome}");
}

fn base_problem() -> Problem {
    Problem {
        plan: Plan { jobs: vec![create_delivery_job("job1", (1., 0.))], ..create_empty_plan() },
        fleet: create_default_fleet(),
        ..create_empty_problem()
    }
}

fn read_with_matrix(problem: Problem) -> Result<vrp_core::models::Problem, MultiFormatError> {
    let matrix = create_matrix_from_problem(&problem);
    (problem, vec![matrix]).read_pragmatic()
}

fn valid_break() -> VehicleBreak {
    VehicleBreak::Optional {
        time: VehicleOptionalBreakTime::TimeWindow(vec![format_time(5.), format_time(10.)]),
        places: vec![VehicleOptionalBreakPlace { duration: 2.0, location: None, tag: None }],
        policy: None,
    }
}

// sanity: the base problem itself is readable both ways
#[test]
fn panic_triage_0_base_problem_is_ok() {
    assert_eq!(outcome("0-matrix", || read_with_matrix(base_problem())), "Ok");
    assert_eq!(outcome("0-approx", || base_problem().read_pragmatic()), "Ok");
}

// A. empty capacity array
#[test]
fn panic_triage_a_empty_capacity() {
    let mut problem = base_problem();
    problem.fleet.vehicles[0].capacity = vec![];

    assert_no_panic("A", outcome("A", || read_with_matrix(problem)));
}

// A'. the same through json text
#[test]
fn panic_triage_a_empty_capacity_json() {
    let mut problem = base_problem();
    problem.fleet.vehicles[0].capacity = vec![];
    let matrix = serde_json::to_string(&create_matrix_from_problem(&problem)).unwrap();
    let problem = serde_json::to_string(&problem).unwrap();

    assert_no_panic("A-json", outcome("A-json", || (problem, vec![matrix]).read_pragmatic()));
}

// B. 9-dimensional capacity and demand
#[test]
fn panic_triage_b_nine_dimensions() {
    let mut problem = base_problem();
    problem.fleet.vehicles[0].capacity = vec![1; 9];
    problem.plan.jobs = vec![create_delivery_job_with_demand("job1", (1., 0.), vec![1; 9])];

    assert_no_panic("B", outcome("B", || read_with_matrix(problem)));
}

// B'. 9-dimensional demand only (capacity stays 1-dim)
#[test]
fn panic_triage_b_nine_dimensions_demand_only() {
    let mut problem = base_problem();
    problem.plan.jobs = vec![create_delivery_job_with_demand("job1", (1., 0.), vec![1; 9])];

    assert_no_panic("B-demand", outcome("B-demand", || read_with_matrix(problem)));
}

// C. malformed shift.start.latest
#[test]
fn panic_triage_c_bad_start_latest() {
    let mut problem = base_problem();
    problem.fleet.vehicles[0].shifts[0].start.latest = Some("not a date".to_string());

    assert_no_panic("C", outcome("C", || read_with_matrix(problem)));
}

// D1. single matrix with malformed timestamp
#[test]
fn panic_triage_d_bad_matrix_timestamp_single() {
    let problem = base_problem();
    let matrix = Matrix { timestamp: Some("not a date".to_string()), ..create_matrix_from_problem(&problem) };

    assert_no_panic("D1", outcome("D1", || (problem, vec![matrix]).read_pragmatic()));
}

// D2. two matrices for the same profile, one valid and one malformed timestamp
#[test]
fn panic_triage_d_bad_matrix_timestamp_two() {
    let problem = base_problem();
    let m1 = Matrix { timestamp: Some(format_time(0.)), ..create_matrix_from_problem(&problem) };
    let m2 = Matrix { timestamp: Some("not a date".to_string()), ..create_matrix_from_problem(&problem) };

    assert_no_panic("D2", outcome("D2", || (problem, vec![m1, m2]).read_pragmatic()));
}

// E. no vehicle types, jobs present
#[test]
fn panic_triage_e_no_vehicle_types() {
    let mut problem = base_problem();
    problem.fleet.vehicles = vec![];

    let with_matrix = outcome("E-matrix", || read_with_matrix(problem.clone()));
    let with_approx = outcome("E-approx", || problem.read_pragmatic());

    assert_no_panic("E-matrix", with_matrix);
    assert_no_panic("E-approx", with_approx);
}

// F1. zero approximation speed, no matrices
#[test]
fn panic_triage_f_zero_speed() {
    let mut problem = base_problem();
    problem.fleet.profiles = vec![MatrixProfile { name: "car".to_string(), speed: Some(0.) }];

    assert_no_panic("F-zero", outcome("F-zero", || problem.read_pragmatic()));
}

// F2. negative approximation speed, no matrices
#[test]
fn panic_triage_f_negative_speed() {
    let mut problem = base_problem();
    problem.fleet.profiles = vec![MatrixProfile { name: "car".to_string(), speed: Some(-1.) }];

    assert_no_panic("F-neg", outcome("F-neg", || problem.read_pragmatic()));
}

// F3 (bonus). empty profiles list, no matrices: approximation runs before validation (E1501)
#[test]
fn panic_triage_f_empty_profiles_approx() {
    let mut problem = base_problem();
    problem.fleet.profiles = vec![];

    assert_no_panic("F-empty-profiles", outcome("F-empty-profiles", || problem.read_pragmatic()));
}

fn relation(type_field: RelationType, jobs: &[&str]) -> Relation {
    Relation {
        type_field,
        jobs: jobs.iter().map(|j| j.to_string()).collect(),
        vehicle_id: "my_vehicle_1".to_string(),
        shift_index: None,
    }
}

// G1. "break" listed twice, shift defines one (optional) break
#[test]
fn panic_triage_g_break_twice_one_defined() {
    let outcomes = [("G1-strict", RelationType::Strict), ("G1-any", RelationType::Any)]
        .into_iter()
        .map(|(name, ty)| {
            let mut problem = base_problem();
            problem.fleet.vehicles[0].shifts[0].breaks = Some(vec![valid_break()]);
            problem.plan.relations = Some(vec![relation(ty, &["departure", "job1", "break", "break"])]);

            (name, outcome(name, || read_with_matrix(problem)))
        })
        .collect::<Vec<_>>();

    outcomes.into_iter().for_each(|(name, outcome)| assert_no_panic(name, outcome));
}

// G1-control. "break" listed once, shift defines one break: must be fine
#[test]
fn panic_triage_g_break_once_control() {
    let mut problem = base_problem();
    problem.fleet.vehicles[0].shifts[0].breaks = Some(vec![valid_break()]);
    problem.plan.relations = Some(vec![relation(RelationType::Strict, &["departure", "job1", "break"])]);

    assert_eq!(outcome("G1-control", || read_with_matrix(problem)), "Ok");
}

// G2. "reload" while shift has `reloads: Some(vec![])` (E1206 only tests is_none)
#[test]
fn panic_triage_g_reload_with_empty_reload_list() {
    let mut problem = base_problem();
    problem.fleet.vehicles[0].shifts[0].reloads = Some(vec![]);
    problem.plan.relations = Some(vec![relation(RelationType::Any, &["job1", "reload"])]);

    assert_no_panic("G2", outcome("G2", || read_with_matrix(problem)));
}

// G2-control. "reload" while shift has `reloads: None` => E1206 expected
#[test]
fn panic_triage_g_reload_with_no_reloads_control() {
    let mut problem = base_problem();
    problem.plan.relations = Some(vec![relation(RelationType::Any, &["job1", "reload"])]);

    let result = outcome("G2-control", || read_with_matrix(problem));
    assert!(result.contains("E1206"), "{result}");
}

// G3. "break" while shift has only a required break (not materialized as job)
#[test]
fn panic_triage_g_break_with_required_break_only() {
    let mut problem = base_problem();
    problem.fleet.vehicles[0].shifts[0].breaks = Some(vec![VehicleBreak::Required {
        time: VehicleRequiredBreakTime::ExactTime { earliest: format_time(5.), latest: format_time(10.) },
        duration: 2.,
    }]);
    problem.plan.relations = Some(vec![relation(RelationType::Any, &["job1", "break"])]);

    assert_no_panic("G3", outcome("G3", || read_with_matrix(problem)));
}

fn recharge_problem(times: Vec<Vec<String>>) -> Problem {
    let mut problem = base_problem();
    problem.fleet.vehicles[0].shifts[0].recharges = Some(VehicleRecharges {
        max_distance: 100.,
        stations: vec![JobPlace { location: (2., 0.).to_loc(), duration: 1., times: Some(times), tag: None }],
    });
    problem
}

// H-control. well-formed recharge station time window
#[test]
fn panic_triage_h_recharge_valid_times_control() {
    let problem = recharge_problem(vec![vec![format_time(0.), format_time(100.)]]);

    assert_eq!(outcome("H-control", || read_with_matrix(problem)), "Ok");
}

// H1. recharge station with unparsable time window
#[test]
fn panic_triage_h_recharge_bad_dates() {
    let problem = recharge_problem(vec![vec!["not a date".to_string(), "x".to_string()]]);

    assert_no_panic("H1", outcome("H1", || read_with_matrix(problem)));
}

// H2. recharge station with single-element time window
#[test]
fn panic_triage_h_recharge_single_element_window() {
    let problem = recharge_problem(vec![vec![format_time(0.)]]);

    assert_no_panic("H2", outcome("H2", || read_with_matrix(problem)));
}
