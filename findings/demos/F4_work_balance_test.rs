use super::*;
use crate::helpers::construction::heuristics::TestInsertionContextBuilder;
use crate::helpers::models::domain::TestGoalContextBuilder;
use crate::helpers::models::problem::TestSingleBuilder;
use crate::helpers::models::solution::{ActivityBuilder, RouteBuilder, RouteContextBuilder};

// F4: route-level balance value must equal recomputation once the stale bit is cleared.
// NOTE: the state key is a fn-local type, so the cached value is observed via `objective.estimate`
// which returns cached `get_tour_state::<K, Float>()` when it is present.
#[test]
fn f4_route_level_balance_value_equals_recomputation_after_accept_solution_state() {
    let feature = create_activity_balanced_feature("activity_balance").unwrap();
    let objective = feature.objective.clone().unwrap();
    let goal = TestGoalContextBuilder::default().add_feature(feature).build();

    let mut route_ctx = RouteContextBuilder::default()
        .with_route(
            RouteBuilder::with_default_vehicle()
                .add_activities((1..=3).map(|location| ActivityBuilder::with_location(location).build()))
                .build(),
        )
        .build();

    goal.accept_route_state(&mut route_ctx);
    assert!(!route_ctx.is_stale());

    let mut solution_ctx = TestInsertionContextBuilder::default().with_routes(vec![route_ctx]).build().solution;
    let probe_job = TestSingleBuilder::default().build_as_job_ref();
    let estimate = |solution_ctx: &SolutionContext, route_ctx: &RouteContext| {
        objective.estimate(&MoveContext::route(solution_ctx, route_ctx, &probe_job))
    };
    assert_eq!(estimate(&solution_ctx, &solution_ctx.routes[0]), 3.);

    // "ruin": remove one job directly from the tour, this marks route as stale
    let job = solution_ctx.routes[0].route().tour.jobs().next().cloned().unwrap();
    assert!(solution_ctx.routes[0].route_mut().tour.remove(&job));
    assert!(solution_ctx.routes[0].is_stale());
    assert_eq!(solution_ctx.routes[0].route().tour.job_activity_count(), 2);

    // what InsertionHeuristic::process / finalize_insertion_ctx do after a ruin
    goal.accept_solution_state(&mut solution_ctx);
    assert!(!solution_ctx.routes[0].is_stale(), "stale bit is expected to be cleared");

    let cached = estimate(&solution_ctx, &solution_ctx.routes[0]);

    let mut recomputed_ctx = solution_ctx.routes[0].deep_copy();
    recomputed_ctx.mark_stale(true);
    goal.accept_route_state(&mut recomputed_ctx);
    let recomputed = estimate(&solution_ctx, &recomputed_ctx);

    assert_eq!(recomputed, 2.);
    assert_eq!(cached, recomputed, "cached route-level balance value differs from recomputation on non-stale route");
}
