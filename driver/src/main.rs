// vvdriver: rustc_private fact extractor. Invoked as RUSTC_WORKSPACE_WRAPPER; for every workspace crate
// listed in VV_CRATES it writes one JSONL fact file $VV_OUT/<crate>[-bin].jsonl (one write per process).
// Facts: ADTs (fields, types, visibility), traits, trait impls, statics, and structured MIR of every local body
// (fn, assoc fn, closure, promoted consts). All identifiers are crate-qualified, re-export independent paths.
#![feature(rustc_private)]
#![allow(unused)]
extern crate rustc_abi;
extern crate rustc_driver;
extern crate rustc_hir;
extern crate rustc_interface;
extern crate rustc_middle;
extern crate rustc_span;

use rustc_driver::{Callbacks, Compilation};
use rustc_hir::def::DefKind;
use rustc_hir::def_id::{DefId, LOCAL_CRATE};
use rustc_interface::interface::Compiler;
use rustc_middle::mir::*;
use rustc_middle::ty::print::{with_no_trimmed_paths, with_no_visible_paths, with_resolve_crate_name};
use rustc_middle::ty::{self, Instance, Ty, TyCtxt, TypingEnv};
use std::fmt::Write as _;

fn esc(s: &str) -> String {
    let mut o = String::with_capacity(s.len() + 2);
    for c in s.chars() {
        match c {
            '"' => o.push_str("\\\""),
            '\\' => o.push_str("\\\\"),
            '\n' => o.push_str("\\n"),
            '\t' => o.push_str("\\t"),
            c if (c as u32) < 0x20 => {}
            c => o.push(c),
        }
    }
    o
}
fn q(s: &str) -> String {
    format!("\"{}\"", esc(s))
}
fn clip(s: String, n: usize) -> String {
    if s.len() > n {
        let mut e = n;
        while !s.is_char_boundary(e) {
            e -= 1;
        }
        format!("{}…", &s[..e])
    } else {
        s
    }
}

macro_rules! full {
    ($e:expr) => {
        with_no_visible_paths!(with_resolve_crate_name!(with_no_trimmed_paths!($e)))
    };
}

fn dp<'tcx>(tcx: TyCtxt<'tcx>, did: DefId) -> String {
    full!(tcx.def_path_str(did))
}
fn tys<'tcx>(t: Ty<'tcx>) -> String {
    clip(full!(format!("{}", t)), 400)
}

struct Cb;

fn span_str<'tcx>(tcx: TyCtxt<'tcx>, sp: rustc_span::Span) -> String {
    let sp = sp.source_callsite();
    let sm = tcx.sess.source_map();
    let lo = sm.lookup_char_pos(sp.lo());
    format!("{}:{}", lo.file.name.prefer_local_unconditionally(), lo.line)
}
fn line_of<'tcx>(tcx: TyCtxt<'tcx>, sp: rustc_span::Span) -> usize {
    tcx.sess.source_map().lookup_char_pos(sp.source_callsite().lo()).line
}

fn place_json<'tcx>(tcx: TyCtxt<'tcx>, body: &Body<'tcx>, p: &Place<'tcx>) -> String {
    let mut s = format!("{{\"l\":{},\"p\":[", p.local.as_usize());
    let mut first = true;
    for (base, elem) in p.iter_projections() {
        if !first {
            s.push(',');
        }
        first = false;
        match elem {
            ProjectionElem::Deref => s.push_str("\"*\""),
            ProjectionElem::Field(f, _) => {
                let bty = base.ty(body, tcx);
                let mut name = format!("{}", f.as_usize());
                let mut adt = String::new();
                match bty.ty.kind() {
                    ty::Adt(def, _) => {
                        adt = dp(tcx, def.did());
                        let vidx = bty.variant_index.unwrap_or(rustc_abi::FIRST_VARIANT);
                        if let Some(v) = def.variants().get(vidx) {
                            if let Some(fd) = v.fields.get(f) {
                                name = fd.name.to_string();
                            }
                            if def.is_enum() {
                                name = format!("{}::{}", v.name, name);
                            }
                        }
                    }
                    ty::Closure(..) => adt = "<closure>".into(),
                    ty::Tuple(..) => adt = "<tuple>".into(),
                    _ => {}
                }
                write!(s, "[\"f\",{},{},{}]", q(&adt), q(&name), f.as_usize()).unwrap();
            }
            ProjectionElem::Downcast(name, idx) => {
                write!(s, "[\"d\",{}]", q(&name.map(|n| n.to_string()).unwrap_or(format!("{}", idx.as_usize())))).unwrap()
            }
            ProjectionElem::Index(l) => write!(s, "[\"i\",{}]", l.as_usize()).unwrap(),
            ProjectionElem::ConstantIndex { offset, from_end, .. } => {
                write!(s, "[\"ci\",{},{}]", offset, from_end).unwrap()
            }
            _ => s.push_str("\"o\""),
        }
    }
    s.push_str("]}");
    s
}

fn const_fn<'tcx>(c: &ConstOperand<'tcx>) -> Option<(DefId, ty::GenericArgsRef<'tcx>)> {
    match c.const_.ty().kind() {
        ty::FnDef(d, a) => Some((*d, *a)),
        _ => None,
    }
}

fn gargs_json<'tcx>(a: ty::GenericArgsRef<'tcx>) -> String {
    let v: Vec<String> = a
        .iter()
        .filter_map(|g| {
            if let Some(t) = g.as_type() {
                Some(q(&tys(t)))
            } else if g.as_region().is_some() {
                None
            } else {
                Some(q(&clip(full!(format!("{:?}", g)), 120)))
            }
        })
        .collect();
    format!("[{}]", v.join(","))
}

fn operand_json<'tcx>(tcx: TyCtxt<'tcx>, body: &Body<'tcx>, o: &Operand<'tcx>) -> String {
    match o {
        Operand::Copy(p) => place_json(tcx, body, p),
        Operand::Move(p) => {
            let mut s = place_json(tcx, body, p);
            s.pop();
            s.push_str(",\"mv\":1}");
            s
        }
        Operand::Constant(c) => {
            if let Some((d, a)) = const_fn(c) {
                format!("{{\"fn\":{},\"ga\":{}}}", q(&dp(tcx, d)), gargs_json(a))
            } else {
                let mut t = full!(format!("{}", c.const_));
                if let Const::Unevaluated(u, _) = c.const_ {
                    if let Some(p) = u.promoted {
                        t = format!("promoted[{}]", p.as_usize());
                    } else {
                        t = format!("const:{}", dp(tcx, u.def));
                    }
                }
                let t = if t.len() > 160 { t[t.len() - 160..].to_string() } else { t };
                let mut val = String::new();
                if let Const::Unevaluated(u, _) = c.const_ {
                    if u.promoted.is_none() && u.args.is_empty() && c.const_.ty().is_primitive() {
                        if let Ok(ConstValue::Scalar(interpret::Scalar::Int(si))) = tcx.const_eval_poly(u.def) {
                            let bits = si.to_bits(si.size());
                            let cty = c.const_.ty();
                            let v = match cty.kind() {
                                ty::Float(ty::FloatTy::F64) => format!("{:?}", f64::from_bits(bits as u64)),
                                ty::Float(ty::FloatTy::F32) => format!("{:?}", f32::from_bits(bits as u32)),
                                ty::Uint(_) => format!("{}", bits),
                                ty::Int(_) => {
                                    let sz = si.size().bits();
                                    let sh = 128 - sz;
                                    format!("{}", ((bits as i128) << sh) >> sh)
                                }
                                ty::Bool => format!("{}", bits != 0),
                                _ => String::new(),
                            };
                            if !v.is_empty() {
                                val = format!(",\"v\":{}", q(&v));
                            }
                        }
                    }
                }
                format!("{{\"c\":{},\"ty\":{}{}}}", q(&t), q(&tys(c.const_.ty())), val)
            }
        }
        #[allow(unreachable_patterns)]
        _ => "{\"c\":\"?\"}".into(),
    }
}

fn rvalue_json<'tcx>(tcx: TyCtxt<'tcx>, body: &Body<'tcx>, rv: &Rvalue<'tcx>) -> String {
    match rv {
        Rvalue::Use(o, _) => format!("{{\"k\":\"use\",\"o\":[{}]}}", operand_json(tcx, body, o)),
        Rvalue::CopyForDeref(p) => format!("{{\"k\":\"use\",\"o\":[{}]}}", place_json(tcx, body, p)),
        Rvalue::Ref(_, bk, p) => {
            let m = matches!(bk, BorrowKind::Mut { .. });
            format!("{{\"k\":\"ref\",\"mut\":{},\"o\":[{}]}}", m, place_json(tcx, body, p))
        }
        Rvalue::RawPtr(_, p) => format!("{{\"k\":\"raw\",\"o\":[{}]}}", place_json(tcx, body, p)),
        Rvalue::Cast(kind, o, t) => {
            format!(
                "{{\"k\":\"cast\",\"ck\":{},\"o\":[{}],\"ty\":{}}}",
                q(&clip(format!("{:?}", kind), 60)),
                operand_json(tcx, body, o),
                q(&tys(*t))
            )
        }
        Rvalue::BinaryOp(op, b) => {
            let (l, r) = &**b;
            let lt = l.ty(body, tcx);
            format!(
                "{{\"k\":\"bin\",\"op\":{},\"ty\":{},\"o\":[{},{}]}}",
                q(&format!("{:?}", op)),
                q(&tys(lt)),
                operand_json(tcx, body, l),
                operand_json(tcx, body, r)
            )
        }
        Rvalue::UnaryOp(op, o) => {
            format!("{{\"k\":\"un\",\"op\":{},\"o\":[{}]}}", q(&format!("{:?}", op)), operand_json(tcx, body, o))
        }
        Rvalue::Discriminant(p) => format!("{{\"k\":\"discr\",\"o\":[{}]}}", place_json(tcx, body, p)),
        Rvalue::ThreadLocalRef(d) => format!("{{\"k\":\"tls\",\"n\":{},\"o\":[]}}", q(&dp(tcx, *d))),
        Rvalue::Repeat(o, _) => format!("{{\"k\":\"repeat\",\"o\":[{}]}}", operand_json(tcx, body, o)),
        Rvalue::Aggregate(kind, ops) => {
            let mut fnames = String::new();
            let (ak, name) = match &**kind {
                AggregateKind::Adt(d, v, _, _, _) => {
                    let def = tcx.adt_def(*d);
                    let var = def.variant(*v);
                    let vn = var.name.to_string();
                    let fs: Vec<String> = var.fields.iter().map(|f| q(&f.name.to_string())).collect();
                    fnames = format!(",\"fs\":[{}]", fs.join(","));
                    ("adt", format!("{}#{}", dp(tcx, *d), vn))
                }
                AggregateKind::Closure(d, _) => ("closure", dp(tcx, *d)),
                AggregateKind::Coroutine(d, _) => ("closure", dp(tcx, *d)),
                AggregateKind::CoroutineClosure(d, _) => ("closure", dp(tcx, *d)),
                AggregateKind::Tuple => ("tuple", String::new()),
                AggregateKind::Array(_) => ("array", String::new()),
                _ => ("other", String::new()),
            };
            let os: Vec<String> = ops.iter().map(|o| operand_json(tcx, body, o)).collect();
            format!("{{\"k\":\"agg\",\"ak\":{},\"n\":{}{},\"o\":[{}]}}", q(ak), q(&name), fnames, os.join(","))
        }
        _ => {
            let t = format!("{:?}", rv);
            format!("{{\"k\":\"other\",\"t\":{},\"o\":[]}}", q(&clip(t, 60)))
        }
    }
}

fn vis_str<'tcx>(tcx: TyCtxt<'tcx>, did: DefId) -> String {
    match tcx.visibility(did) {
        ty::Visibility::Public => "pub".into(),
        ty::Visibility::Restricted(m) => {
            if m.is_crate_root() {
                "crate".into()
            } else {
                format!("in:{}", dp(tcx, m))
            }
        }
    }
}

fn dump_body<'tcx>(tcx: TyCtxt<'tcx>, did: DefId, out: &mut String) {
    let body = tcx.optimized_mir(did);
    dump_body_inner(tcx, did, body, String::new(), out);
    let proms = tcx.promoted_mir(did);
    for (i, pb) in proms.iter().enumerate() {
        dump_body_inner(tcx, did, pb, format!("::promoted[{}]", i), out);
    }
}

fn dump_body_inner<'tcx>(tcx: TyCtxt<'tcx>, did: DefId, body: &Body<'tcx>, suffix: String, out: &mut String) {
    let kind = tcx.def_kind(did);
    let path = format!("{}{}", dp(tcx, did), suffix);
    let is_closure = matches!(kind, DefKind::Closure);
    let parent = if is_closure { dp(tcx, tcx.typeck_root_def_id(did)) } else { String::new() };
    let mut impl_trait = String::new();
    let mut impl_self = String::new();
    let mut trait_item = String::new();
    let mut vis = String::new();
    if matches!(kind, DefKind::Fn | DefKind::AssocFn) {
        vis = vis_str(tcx, did);
    }
    if matches!(kind, DefKind::AssocFn) {
        if let Some(impl_did) = tcx.impl_of_assoc(did) {
            impl_self = tys(tcx.type_of(impl_did).instantiate_identity().skip_norm_wip());
            if let Some(tr) = tcx.impl_opt_trait_ref(impl_did) {
                impl_trait = dp(tcx, tr.skip_binder().def_id);
            }
            if let Some(ti) = tcx.associated_item(did).trait_item_def_id() {
                trait_item = dp(tcx, ti);
            }
        } else if let Some(tr) = tcx.trait_of_assoc(did) {
            impl_trait = format!("<default>{}", dp(tcx, tr));
            trait_item = dp(tcx, did);
        }
    }
    let module = dp(tcx, tcx.parent_module_from_def_id(did.expect_local()).to_def_id());
    write!(
        out,
        "{{\"t\":\"fn\",\"id\":{},\"kind\":{},\"parent\":{},\"module\":{},\"span\":{},\"vis\":{},\"impl_trait\":{},\"impl_self\":{},\"trait_item\":{},\"argc\":{},\"locals\":[",
        q(&path),
        q(&format!("{:?}", kind)),
        q(&parent),
        q(&module),
        q(&span_str(tcx, body.span)),
        q(&vis),
        q(&impl_trait),
        q(&impl_self),
        q(&trait_item),
        body.arg_count
    )
    .unwrap();
    for (i, ld) in body.local_decls.iter().enumerate() {
        if i > 0 {
            out.push(',');
        }
        out.push_str(&q(&tys(ld.ty)));
    }
    out.push_str("],\"names\":{");
    let mut first = true;
    let mut upnames: Vec<(usize, String)> = Vec::new();
    for vdi in body.var_debug_info.iter() {
        if let VarDebugInfoContents::Place(p) = &vdi.value {
            if p.projection.is_empty() {
                if !first {
                    out.push(',');
                }
                first = false;
                write!(out, "\"{}\":{}", p.local.as_usize(), q(&vdi.name.to_string())).unwrap();
            } else if is_closure && p.local.as_usize() == 1 {
                // captured variable: _1.N or (*_1).N [deref]
                for e in p.projection.iter() {
                    if let ProjectionElem::Field(f, _) = e {
                        upnames.push((f.as_usize(), vdi.name.to_string()));
                        break;
                    }
                }
            }
        }
    }
    out.push_str("}");
    if is_closure {
        out.push_str(",\"upvars\":[");
        if let ty::Closure(_, args) = tcx.type_of(did).instantiate_identity().skip_norm_wip().kind() {
            let ups = args.as_closure().upvar_tys();
            for (i, t) in ups.iter().enumerate() {
                if i > 0 {
                    out.push(',');
                }
                let n = upnames.iter().find(|(k, _)| *k == i).map(|(_, n)| n.clone()).unwrap_or_default();
                write!(out, "[{},{}]", q(&n), q(&tys(t))).unwrap();
            }
        }
        out.push_str("]");
    }
    out.push_str(",\"bbs\":[");
    let tenv = TypingEnv::post_analysis(tcx, did);
    for (bi, bb) in body.basic_blocks.iter().enumerate() {
        if bi > 0 {
            out.push(',');
        }
        out.push_str("{\"s\":[");
        let mut firsts = true;
        for st in bb.statements.iter() {
            match &st.kind {
                StatementKind::Assign(b) => {
                    let (pl, rv) = &**b;
                    if !firsts {
                        out.push(',');
                    }
                    firsts = false;
                    write!(
                        out,
                        "{{\"d\":{},\"r\":{},\"ln\":{},\"x\":{}}}",
                        place_json(tcx, body, pl),
                        rvalue_json(tcx, body, rv),
                        line_of(tcx, st.source_info.span),
                        st.source_info.span.from_expansion()
                    )
                    .unwrap();
                }
                StatementKind::SetDiscriminant { place, variant_index } => {
                    if !firsts {
                        out.push(',');
                    }
                    firsts = false;
                    write!(
                        out,
                        "{{\"d\":{},\"r\":{{\"k\":\"setdiscr\",\"v\":{},\"o\":[]}},\"ln\":{},\"x\":{}}}",
                        place_json(tcx, body, place),
                        variant_index.as_usize(),
                        line_of(tcx, st.source_info.span),
                        st.source_info.span.from_expansion()
                    )
                    .unwrap();
                }
                _ => {}
            }
        }
        out.push_str("],\"t\":");
        let term = bb.terminator();
        let ln = line_of(tcx, term.source_info.span);
        let exp = term.source_info.span.from_expansion();
        match &term.kind {
            TerminatorKind::Call { func, args, destination, target, .. } => {
                let mut callee = String::new();
                let mut callee_args = String::from("[]");
                let mut resolved = String::new();
                let mut fp = String::from("null");
                let mut how = "indirect";
                match func {
                    Operand::Constant(c) => {
                        if let Some((d, a)) = const_fn(c) {
                            callee = dp(tcx, d);
                            callee_args = gargs_json(a);
                            how = "static";
                            if tcx.trait_of_assoc(d).is_some() {
                                how = "trait";
                                match Instance::try_resolve(tcx, tenv, d, a) {
                                    Ok(Some(inst)) => match inst.def {
                                        ty::InstanceKind::Item(rd) => {
                                            resolved = dp(tcx, rd);
                                            how = "trait-resolved";
                                        }
                                        ty::InstanceKind::Virtual(..) => how = "virtual",
                                        ty::InstanceKind::ClosureOnceShim { call_once, .. } => {
                                            how = "closure-shim";
                                            if let Some(t0) = a.types().next() {
                                                if let ty::Closure(cd, _) = t0.kind() {
                                                    resolved = dp(tcx, *cd);
                                                }
                                            }
                                        }
                                        ty::InstanceKind::FnPtrShim(..) => how = "fnptr-shim",
                                        _ => how = "trait-other",
                                    },
                                    _ => how = "trait-generic",
                                }
                            }
                        }
                    }
                    Operand::Copy(p) | Operand::Move(p) => {
                        fp = place_json(tcx, body, p);
                    }
                    #[allow(unreachable_patterns)]
                    _ => {}
                }
                let os: Vec<String> = args.iter().map(|o| operand_json(tcx, body, &o.node)).collect();
                let ats: Vec<String> = args.iter().map(|o| q(&tys(o.node.ty(body, tcx)))).collect();
                write!(
                    out,
                    "{{\"k\":\"call\",\"callee\":{},\"ga\":{},\"res\":{},\"how\":{},\"fp\":{},\"args\":[{}],\"argtys\":[{}],\"dest\":{},\"tgt\":{},\"ln\":{},\"x\":{}}}",
                    q(&callee),
                    callee_args,
                    q(&resolved),
                    q(how),
                    fp,
                    os.join(","),
                    ats.join(","),
                    place_json(tcx, body, destination),
                    target.map(|t| t.as_usize() as i64).unwrap_or(-1),
                    ln,
                    exp
                )
                .unwrap();
            }
            TerminatorKind::SwitchInt { discr, targets } => {
                let ts: Vec<String> = targets.iter().map(|(v, b)| format!("[{},{}]", v, b.as_usize())).collect();
                write!(
                    out,
                    "{{\"k\":\"switch\",\"o\":{},\"tg\":[{}],\"else\":{},\"ln\":{}}}",
                    operand_json(tcx, body, discr),
                    ts.join(","),
                    targets.otherwise().as_usize(),
                    ln
                )
                .unwrap();
            }
            TerminatorKind::Goto { target } => write!(out, "{{\"k\":\"goto\",\"tgt\":{}}}", target.as_usize()).unwrap(),
            TerminatorKind::Return => out.push_str("{\"k\":\"ret\"}"),
            TerminatorKind::Drop { target, place, .. } => {
                write!(out, "{{\"k\":\"drop\",\"tgt\":{},\"o\":{}}}", target.as_usize(), place_json(tcx, body, place)).unwrap()
            }
            TerminatorKind::Assert { target, msg, cond, expected, .. } => {
                let m = format!("{:?}", msg);
                let m = m.split('(').next().unwrap_or("").to_string();
                write!(
                    out,
                    "{{\"k\":\"assert\",\"tgt\":{},\"m\":{},\"o\":{},\"exp\":{},\"ln\":{},\"x\":{}}}",
                    target.as_usize(),
                    q(&m),
                    operand_json(tcx, body, cond),
                    expected,
                    ln,
                    exp
                )
                .unwrap()
            }
            TerminatorKind::FalseEdge { real_target, .. } => {
                write!(out, "{{\"k\":\"goto\",\"tgt\":{}}}", real_target.as_usize()).unwrap()
            }
            TerminatorKind::FalseUnwind { real_target, .. } => {
                write!(out, "{{\"k\":\"goto\",\"tgt\":{}}}", real_target.as_usize()).unwrap()
            }
            TerminatorKind::Unreachable => out.push_str("{\"k\":\"unreachable\"}"),
            TerminatorKind::UnwindResume => out.push_str("{\"k\":\"resume\"}"),
            _ => out.push_str("{\"k\":\"other\"}"),
        }
        out.push('}');
    }
    out.push_str("]}\n");
}

impl Callbacks for Cb {
    fn after_analysis<'tcx>(&mut self, _c: &Compiler, tcx: TyCtxt<'tcx>) -> Compilation {
        let krate = tcx.crate_name(LOCAL_CRATE).to_string();
        let dir = match std::env::var("VV_OUT") {
            Ok(d) => d,
            Err(_) => return Compilation::Continue,
        };
        let want = std::env::var("VV_CRATES")
            .unwrap_or("rosomaxa,vrp_core,vrp_pragmatic,vrp_scientific,vrp_cli".into());
        if !want.split(',').any(|c| c == krate) {
            return Compilation::Continue;
        }
        let is_bin = tcx.crate_types().iter().any(|t| format!("{:?}", t).contains("Executable"));
        let mut out = String::new();
        writeln!(out, "{{\"t\":\"crate\",\"name\":{},\"bin\":{}}}", q(&krate), is_bin).unwrap();
        for ldid in tcx.hir_crate_items(()).definitions() {
            let did = ldid.to_def_id();
            match tcx.def_kind(did) {
                DefKind::Struct | DefKind::Enum | DefKind::Union => {
                    let def = tcx.adt_def(did);
                    let mut vs = Vec::new();
                    for v in def.variants().iter() {
                        let mut fs = Vec::new();
                        for f in v.fields.iter() {
                            let t = tys(tcx.type_of(f.did).instantiate_identity().skip_norm_wip());
                            fs.push(format!(
                                "{{\"n\":{},\"ty\":{},\"vis\":{}}}",
                                q(&f.name.to_string()),
                                q(&t),
                                q(&vis_str(tcx, f.did))
                            ));
                        }
                        vs.push(format!("{{\"n\":{},\"f\":[{}]}}", q(&v.name.to_string()), fs.join(",")));
                    }
                    writeln!(
                        out,
                        "{{\"t\":\"adt\",\"id\":{},\"kind\":{},\"span\":{},\"vis\":{},\"v\":[{}]}}",
                        q(&dp(tcx, did)),
                        q(if def.is_enum() { "enum" } else { "struct" }),
                        q(&span_str(tcx, tcx.def_span(did))),
                        q(&vis_str(tcx, did)),
                        vs.join(",")
                    )
                    .unwrap();
                }
                DefKind::Static { .. } => {
                    let t = tys(tcx.type_of(did).instantiate_identity().skip_norm_wip());
                    writeln!(
                        out,
                        "{{\"t\":\"static\",\"id\":{},\"ty\":{},\"tls\":{},\"span\":{}}}",
                        q(&dp(tcx, did)),
                        q(&t),
                        tcx.is_thread_local_static(did),
                        q(&span_str(tcx, tcx.def_span(did)))
                    )
                    .unwrap();
                }
                DefKind::Trait => {
                    let mut ms = Vec::new();
                    for it in tcx.associated_items(did).in_definition_order() {
                        if matches!(it.kind, ty::AssocKind::Fn { .. }) {
                            ms.push(format!("[{},{}]", q(&dp(tcx, it.def_id)), it.defaultness(tcx).has_value()));
                        }
                    }
                    writeln!(out, "{{\"t\":\"trait\",\"id\":{},\"m\":[{}]}}", q(&dp(tcx, did)), ms.join(",")).unwrap();
                }
                _ => {}
            }
        }
        for (tr, impls) in tcx.all_local_trait_impls(()).iter() {
            for imp in impls.iter() {
                let idid = imp.to_def_id();
                let self_ty = tys(tcx.type_of(idid).instantiate_identity().skip_norm_wip());
                let mut ms = Vec::new();
                let mut have = Vec::new();
                for it in tcx.associated_items(idid).in_definition_order() {
                    if let Some(ti) = it.trait_item_def_id() {
                        if matches!(it.kind, ty::AssocKind::Fn { .. }) {
                            ms.push(format!("[{},{}]", q(&dp(tcx, ti)), q(&dp(tcx, it.def_id))));
                            have.push(ti);
                        }
                    }
                }
                let mut dflt = Vec::new();
                for it in tcx.associated_items(*tr).in_definition_order() {
                    if matches!(it.kind, ty::AssocKind::Fn { .. }) && it.defaultness(tcx).has_value() && !have.contains(&it.def_id)
                    {
                        dflt.push(q(&dp(tcx, it.def_id)));
                    }
                }
                writeln!(
                    out,
                    "{{\"t\":\"impl\",\"trait\":{},\"self\":{},\"span\":{},\"m\":[{}],\"dflt\":[{}]}}",
                    q(&dp(tcx, *tr)),
                    q(&self_ty),
                    q(&span_str(tcx, tcx.def_span(idid))),
                    ms.join(","),
                    dflt.join(",")
                )
                .unwrap();
            }
        }
        for ldid in tcx.mir_keys(()) {
            let did = ldid.to_def_id();
            let kind = tcx.def_kind(did);
            if !matches!(kind, DefKind::Fn | DefKind::AssocFn | DefKind::Closure) {
                continue;
            }
            dump_body(tcx, did, &mut out);
        }
        std::fs::create_dir_all(&dir).ok();
        std::fs::write(format!("{}/{}{}.jsonl", dir, krate, if is_bin { "-bin" } else { "" }), out).unwrap();
        Compilation::Continue
    }
}

fn main() {
    let mut args: Vec<String> = std::env::args().collect();
    args.remove(1);
    rustc_driver::run_compiler(&args, &mut Cb);
}
