"""Per-function CFG utilities over the MIR facts: successors, reachability with blocked nodes/edges
(must-pass-through), dominators, natural loops, def-use back-tracing."""
import functools


def succs_of(bb):
    t = bb["t"]
    k = t["k"]
    if k == "call":
        return [t["tgt"]] if t["tgt"] >= 0 else []
    if k == "switch":
        return [x[1] for x in t["tg"]] + [t["else"]]
    if k in ("goto", "drop", "assert"):
        return [t["tgt"]]
    return []


def succs(fn):
    s = fn.get("_succs")
    if s is None:
        s = [succs_of(bb) for bb in fn["bbs"]]
        fn["_succs"] = s
    return s


def preds(fn):
    p = fn.get("_preds")
    if p is None:
        p = [[] for _ in fn["bbs"]]
        for a, ss in enumerate(succs(fn)):
            for b in ss:
                p[b].append(a)
        fn["_preds"] = p
    return p


def reach(fn, starts, blocked=(), blocked_edges=(), include_start=True):
    """Blocks reachable from `starts` without entering a block in `blocked` or taking an edge in
    `blocked_edges`. A start block that is itself blocked is not expanded."""
    S = succs(fn)
    blocked = set(blocked)
    blocked_edges = set(blocked_edges)
    seen = set()
    st = []
    for s in starts:
        if s in blocked:
            continue
        if s not in seen:
            seen.add(s)
            st.append(s)
    while st:
        x = st.pop()
        for y in S[x]:
            if y in seen or y in blocked or (x, y) in blocked_edges:
                continue
            seen.add(y)
            st.append(y)
    return seen


def reach_from_succs(fn, b, blocked=(), blocked_edges=()):
    """Blocks reachable by leaving block b (b itself only if it lies on a cycle)."""
    be = set(blocked_edges)
    starts = [y for y in succs(fn)[b] if (b, y) not in be]
    return reach(fn, starts, blocked, blocked_edges)


def ret_blocks(fn):
    return [i for i, bb in enumerate(fn["bbs"]) if bb["t"]["k"] == "ret"]


def dominators(fn):
    d = fn.get("_dom")
    if d is not None:
        return d
    S = succs(fn)
    P = preds(fn)
    n = len(S)
    R = reach(fn, [0])
    full = 0
    for b in R:
        full |= 1 << b
    dom = {b: full for b in R}
    dom[0] = 1
    order = sorted(R)
    ch = True
    while ch:
        ch = False
        for b in order:
            if b == 0:
                continue
            acc = full
            for p in P[b]:
                if p in R:
                    acc &= dom[p]
            acc |= 1 << b
            if acc != dom[b]:
                dom[b] = acc
                ch = True
    fn["_dom"] = dom
    return dom


def dominates(fn, a, b):
    d = dominators(fn)
    return b in d and bool(d[b] >> a & 1)


def back_edges(fn):
    out = []
    S = succs(fn)
    for a, ss in enumerate(S):
        for b in ss:
            if dominates(fn, b, a):
                out.append((a, b))
    return out


def natural_loops(fn):
    """header -> set(blocks)"""
    P = preds(fn)
    loops = {}
    for a, h in back_edges(fn):
        body = loops.setdefault(h, {h})
        st = [a]
        while st:
            x = st.pop()
            if x in body:
                continue
            body.add(x)
            st.extend(P[x])
    return loops


# ---- statements / operands ---------------------------------------------------------------------

def is_place(o):
    return isinstance(o, dict) and "l" in o


def is_const(o):
    return isinstance(o, dict) and "c" in o


def is_fnconst(o):
    return isinstance(o, dict) and "fn" in o


def calls(fn):
    for bi, bb in enumerate(fn["bbs"]):
        t = bb["t"]
        if t["k"] == "call":
            yield bi, t


def stmts(fn):
    for bi, bb in enumerate(fn["bbs"]):
        for si, s in enumerate(bb["s"]):
            yield bi, si, s


def field_path(place):
    """tuple of field names in a place projection (derefs/downcasts dropped)"""
    return tuple(p[2] for p in place["p"] if isinstance(p, list) and p[0] == "f")


def proj_fields(place):
    """list of (adt, field) pairs"""
    return [(p[1], p[2]) for p in place["p"] if isinstance(p, list) and p[0] == "f"]


def defs(fn):
    """local -> list of definition sites. ('s',bi,si,stmt) whole-local assignment; ('c',bi,term) call dest;
    partial (field) stores are under key ('p', local)."""
    d = fn.get("_defs")
    if d is not None:
        return d
    d = {}
    for bi, si, s in stmts(fn):
        dst = s["d"]
        if not dst["p"]:
            d.setdefault(dst["l"], []).append(("s", bi, si, s))
        else:
            d.setdefault(("p", dst["l"]), []).append(("s", bi, si, s))
    for bi, t in calls(fn):
        dst = t["dest"]
        if not dst["p"]:
            d.setdefault(dst["l"], []).append(("c", bi, t))
        else:
            d.setdefault(("p", dst["l"]), []).append(("c", bi, t))
    fn["_defs"] = d
    return d


PASS_THROUGH_CALLS = (
    "core::ops::deref::Deref::deref", "core::ops::deref::DerefMut::deref_mut", "core::clone::Clone::clone",
    "core::convert::AsRef::as_ref", "core::convert::AsMut::as_mut", "core::borrow::Borrow::borrow",
    "core::convert::Into::into", "core::convert::From::from", "core::option::Option::<T>::as_ref",
    "core::option::Option::<T>::as_mut", "core::option::Option::<T>::unwrap", "core::option::Option::<T>::expect",
    "core::option::Option::<T>::cloned", "core::option::Option::<T>::copied", "core::option::Option::<&T>::cloned",
    "core::option::Option::<&T>::copied", "core::result::Result::<T, E>::unwrap", "core::result::Result::<T, E>::expect",
    "core::option::Option::<T>::unwrap_or_default", "core::option::Option::<T>::unwrap_or",
    "alloc::sync::Arc::<T, A>::as_ref", "core::iter::traits::collect::IntoIterator::into_iter",
    "core::ops::try_trait::Try::branch", "alloc::borrow::ToOwned::to_owned",
    "alloc::vec::Vec::<T, A>::as_slice", "alloc::vec::Vec::<T, A>::as_mut_slice", "core::slice::<impl [T]>::iter",
    "alloc::boxed::Box::<T>::new", "alloc::sync::Arc::<T>::new",
)


def trace(fn, op, through_calls=PASS_THROUGH_CALLS, depth=0, seen=None):
    """Back-trace an operand to its root sources. Returns a set of tuples:
       ('arg', n, proj) | ('call', bi, proj) | ('const', text, proj) | ('fn', path, proj) | ('agg', (bi,si), proj)
       | ('bin', (bi,si), proj) | ('local', l, proj) | ('other', (bi,si), proj)
    proj = tuple of field names applied to the source (outermost first). Looks through copies, refs, derefs,
    casts and the pass-through calls (Deref, Clone, as_ref, unwrap, ...)."""
    if seen is None:
        seen = set()
    out = set()
    if is_const(op):
        out.add(("const", op["c"], ()))
        return out
    if is_fnconst(op):
        out.add(("fn", op["fn"], ()))
        return out
    if not is_place(op):
        return out
    l = op["l"]
    proj = field_path(op)
    if l <= fn["argc"] and l >= 1:
        # arguments may be re-assigned, but that is rare at mir-opt-level 0
        if l not in defs(fn):
            out.add(("arg", l, proj))
            return out
    key = (l,)
    if key in seen or depth > 40:
        out.add(("local", l, proj))
        return out
    seen = seen | {key}
    ds = defs(fn).get(l, [])
    if not ds:
        out.add(("local", l, proj))
        return out
    for d in ds:
        if d[0] == "s":
            _, bi, si, s = d
            r = s["r"]
            k = r["k"]
            if k in ("use", "ref", "raw", "cast") and r["o"]:
                for (kk, kv, kp) in trace(fn, r["o"][0], through_calls, depth + 1, seen):
                    out.add((kk, kv, kp + proj))
            elif k == "agg":
                out.add(("agg", (bi, si), proj))
            elif k in ("bin", "un"):
                out.add(("bin", (bi, si), proj))
            else:
                out.add(("other", (bi, si), proj))
        else:
            _, bi, t = d
            callee = t["callee"]
            if callee in through_calls and t["args"]:
                for (kk, kv, kp) in trace(fn, t["args"][0], through_calls, depth + 1, seen):
                    out.add((kk, kv, kp + proj))
            else:
                out.add(("call", bi, proj))
    return out


def uses_of_local(fn, l):
    """all (where, operand) reading local l (any projection): where = ('s',bi,si) | ('t',bi)"""
    out = []
    for bi, si, s in stmts(fn):
        for o in s["r"].get("o", []):
            if is_place(o) and o["l"] == l:
                out.append((("s", bi, si), o))
        d = s["d"]
        if d["l"] == l and d["p"]:
            out.append((("sd", bi, si), d))
    for bi, bb in enumerate(fn["bbs"]):
        t = bb["t"]
        if t["k"] == "call":
            for o in t["args"]:
                if is_place(o) and o["l"] == l:
                    out.append((("t", bi), o))
            if t.get("fp") and t["fp"]["l"] == l:
                out.append((("t", bi), t["fp"]))
        elif t["k"] in ("switch", "assert"):
            o = t["o"]
            if is_place(o) and o["l"] == l:
                out.append((("t", bi), o))
    return out


def forward(fn, start_locals, max_iter=50):
    """Forward may-flow closure of locals: all locals that (transitively) receive a value computed from
    one of start_locals via statements or as the destination of a call taking it as argument."""
    flow = set(start_locals)
    ch = True
    it = 0
    while ch and it < max_iter:
        ch = False
        it += 1
        for bi, si, s in stmts(fn):
            if s["d"]["l"] in flow:
                continue
            for o in s["r"].get("o", []):
                if is_place(o) and o["l"] in flow:
                    flow.add(s["d"]["l"])
                    ch = True
                    break
        for bi, t in calls(fn):
            if t["dest"]["l"] in flow:
                continue
            for o in t["args"]:
                if is_place(o) and o["l"] in flow:
                    flow.add(t["dest"]["l"])
                    ch = True
                    break
    return flow


def deep_leaves(fn, op, stop_calls=None, seen=None, depth=0):
    """Backward slice of an operand through *all* calls and compound rvalues.
    Returns (leaves, crossed): leaves = set of ('arg',n,proj) | ('const','c',proj) | ('fn',path,proj) | ('local',l,proj)
    | (stop_kind, None, proj) for calls whose callee is a key of stop_calls (value = leaf kind);
    crossed = set of callee names the slice went through."""
    leaves = set()
    crossed = set()
    if seen is None:
        seen = set()
    stop_calls = stop_calls or {}
    for k, v, p in trace(fn, op):
        if k == "call":
            t = fn["bbs"][v]["t"]
            if ("c", v) in seen or depth > 14:
                continue
            seen.add(("c", v))
            callee = t["callee"] or "<indirect>"
            crossed.add(callee)
            if callee in stop_calls:
                leaves.add((stop_calls[callee], None, p))
                continue
            for a in t["args"]:
                l2, c2 = deep_leaves(fn, a, stop_calls, seen, depth + 1)
                leaves |= l2
                crossed |= c2
            if t.get("fp"):
                l2, c2 = deep_leaves(fn, t["fp"], stop_calls, seen, depth + 1)
                leaves |= l2
                crossed |= c2
        elif k in ("agg", "bin", "other"):
            bi, si = v
            rv = fn["bbs"][bi]["s"][si]["r"]
            if ("s", bi, si) in seen:
                continue
            seen.add(("s", bi, si))
            if rv["k"] == "agg" and rv.get("ak") == "closure":
                leaves.add(("closure", rv["n"], p))
            for a in rv.get("o", []):
                l2, c2 = deep_leaves(fn, a, stop_calls, seen, depth + 1)
                leaves |= l2
                crossed |= c2
        else:
            leaves.add((k, v if k != "const" else "c", p))
    return leaves, crossed


def option_edges(fn, call_bi):
    """For a call whose destination is an Option/ControlFlow-like enum: find the switch on its discriminant.
    Returns dict {variant_index: (switch_block, target_block)} plus key 'else' or None if not found.
    Follows goto chains and looks for `discr` of a place rooted at the call's destination (or a ref of it)."""
    t = fn["bbs"][call_bi]["t"]
    d = t["dest"]["l"]
    aliases = {d}
    b = t["tgt"]
    hops = 0
    while b is not None and b >= 0 and hops < 6:
        bb = fn["bbs"][b]
        dl = None
        for s in bb["s"]:
            r = s["r"]
            if r["k"] in ("ref", "use") and r["o"] and is_place(r["o"][0]) and r["o"][0]["l"] in aliases and not field_path(r["o"][0]):
                if not s["d"]["p"]:
                    aliases.add(s["d"]["l"])
            if r["k"] == "discr" and r["o"][0]["l"] in aliases and not field_path(r["o"][0]):
                dl = s["d"]["l"]
        tt = bb["t"]
        if dl is not None and tt["k"] == "switch" and is_place(tt["o"]) and tt["o"]["l"] == dl:
            out = {}
            for v, tb in tt["tg"]:
                out[v] = (b, tb)
            out["else"] = (b, tt["else"])
            return out
        if tt["k"] == "goto":
            b = tt["tgt"]
            hops += 1
            continue
        return None
    return None


def bool_edges(fn, call_bi):
    """For a call returning bool consumed by a switch: {True: (sw, tgt), False: (sw, tgt)} or None"""
    t = fn["bbs"][call_bi]["t"]
    d = t["dest"]["l"]
    aliases = {d}
    b = t["tgt"]
    hops = 0
    while b is not None and b >= 0 and hops < 6:
        bb = fn["bbs"][b]
        for s in bb["s"]:
            r = s["r"]
            if r["k"] == "use" and r["o"] and is_place(r["o"][0]) and r["o"][0]["l"] in aliases and not r["o"][0]["p"] and not s["d"]["p"]:
                aliases.add(s["d"]["l"])
        tt = bb["t"]
        if tt["k"] == "switch" and is_place(tt["o"]) and tt["o"]["l"] in aliases:
            f = [tb for v, tb in tt["tg"] if v == 0]
            if f:
                return {False: (b, f[0]), True: (b, tt["else"])}
            return None
        if tt["k"] == "goto":
            b = tt["tgt"]
            hops += 1
            continue
        return None
    return None


def variant_edge(oe, idx, nvariants=2):
    """edge (switch_block, target) taken for enum variant `idx` given option_edges() output, else None"""
    if not oe:
        return None
    if idx in oe:
        return oe[idx]
    listed = [k for k in oe if k != "else"]
    if len(listed) == nvariants - 1 and idx not in listed:
        return oe["else"]
    return None


def field_discr_edges(fn, adt, field, variant, nvariants=2):
    """edges taken when the discriminant of a place whose last field projection is (adt, field) equals `variant`"""
    out = []
    for sb, bb in enumerate(fn["bbs"]):
        tt = bb["t"]
        if tt["k"] != "switch" or not is_place(tt["o"]):
            continue
        for s in bb["s"]:
            if s["r"]["k"] == "discr" and s["d"]["l"] == tt["o"]["l"]:
                pf = proj_fields(s["r"]["o"][0])
                if pf and pf[-1] == (adt, field):
                    oe = {v: (sb, tb) for v, tb in tt["tg"]}
                    oe["else"] = (sb, tt["else"])
                    e = variant_edge(oe, variant, nvariants)
                    if e:
                        out.append(e)
    return out


def switches_on_call(fn, call_bi):
    """all switch edges whose scrutinee derives (by copies) from the bool result of the call in block call_bi:
    list of {True: (sw, tgt), False: (sw, tgt)}"""
    out = []
    for sb, bb in enumerate(fn["bbs"]):
        tt = bb["t"]
        if tt["k"] != "switch" or not is_place(tt["o"]):
            continue
        roots = trace(fn, tt["o"], through_calls=())
        if any(k == "call" and v == call_bi for k, v, p in roots) and len(roots) == 1:
            f = [tb for v, tb in tt["tg"] if v == 0]
            if f:
                out.append({False: (sb, f[0]), True: (sb, tt["else"])})
    return out


def closure_arg_calls(F, fn, term, target_pred, depth=3):
    """does any closure passed (directly) as an argument of call `term` (transitively, nocha) call a fn satisfying target_pred"""
    from . import cg
    for a in term["args"]:
        if not is_place(a):
            continue
        for k, v, p in trace(fn, a):
            if k == "agg":
                rv = fn["bbs"][v[0]]["s"][v[1]]["r"]
                if rv.get("ak") == "closure":
                    par = cg.reach(F, [rv["n"]], cha=False)
                    for g in par:
                        gf = F.fns.get(g)
                        if gf and any(target_pred(t["callee"]) for _, t in calls(gf)):
                            return True
    return False


# ---- canonical expressions (self-comparison detection) -----------------------------------------------------------
def _canon_proj(place):
    out = []
    for p in place["p"]:
        if p == "*":
            out.append("*")
        elif isinstance(p, list) and p[0] == "f":
            out.append("." + str(p[2]))
        elif isinstance(p, list) and p[0] == "d":
            out.append("as#" + str(p[1]))
        elif isinstance(p, list) and p[0] == "i":
            out.append(("idx", p[1]))
        elif isinstance(p, list):
            out.append(tuple(str(x) for x in p))
        else:
            out.append(str(p))
    return out


def _norm_path(path):
    out = []
    for e in path:
        if e == "*" and out and out[-1] == "&":
            out.pop()
        else:
            out.append(e)
    return tuple(out)


def mut_aliased(fn):
    """locals that are mutably borrowed / partially stored / of `&mut` type: their value (or pointee) may change between two reads"""
    m = fn.get("_mut_aliased")
    if m is not None:
        return m
    m = set()
    for bi, si, s in stmts(fn):
        r = s["r"]
        if r["k"] in ("ref", "raw") and r.get("mut") and r["o"] and is_place(r["o"][0]):
            m.add(r["o"][0]["l"])
        if s["d"]["p"]:
            m.add(s["d"]["l"])
    for bi, t in calls(fn):
        if t["dest"]["p"]:
            m.add(t["dest"]["l"])
    for l, ty in enumerate(fn["locals"]):
        if ty.startswith("&mut") or ty.startswith("*mut"):
            m.add(l)
    fn["_mut_aliased"] = m
    return m


def expr(fn, op, depth=0, memo=None, impure=None):
    """Canonical expression tree of an operand, through single-definition temporaries only:
       (root, path) with root in ('arg',n) | ('const',text) | ('fn',path) | ('call',callee,(args..)) | ('bin',op,a,b)
       | ('un',op,a) | ('agg',name,(ops..)) | ('opaque',id).  Two operands with equal trees denote the same value
       provided the calls in them are deterministic and take no `&mut` argument (those become opaque, unique per site)."""
    if memo is None:
        memo = {}
    if is_const(op):
        return (("const", op["c"]), ())
    if is_fnconst(op):
        return (("fn", op["fn"]), ())
    if not is_place(op):
        return (("opaque", id(op)), ())
    l = op["l"]
    proj = _canon_proj(op)
    if ("idx",) in [e[:1] for e in proj if isinstance(e, tuple)]:
        proj = [(("idx", expr(fn, {"l": e[1], "p": []}, depth + 1, memo, impure)) if isinstance(e, tuple) and e[0] == "idx" else e) for e in proj]
    if l in memo:
        base = memo[l]
    else:
        memo[l] = (("opaque", ("rec", l)), ())
        D = defs(fn)
        ds = D.get(l, [])
        if l in mut_aliased(fn):
            base = (("opaque", ("mut", l)), ())
        elif 1 <= l <= fn["argc"] and not ds:
            base = (("arg", l), ())
        elif len(ds) != 1 or ("p", l) in D or depth > 60:
            base = (("opaque", ("local", l)), ())
        elif ds[0][0] == "s":
            r = ds[0][3]["r"]
            k = r["k"]
            if k == "use":
                base = expr(fn, r["o"][0], depth + 1, memo, impure)
            elif k in ("ref", "raw"):
                b = expr(fn, r["o"][0], depth + 1, memo, impure)
                base = (b[0], _norm_path(b[1] + ("&",)))
            elif k == "cast":
                b = expr(fn, r["o"][0], depth + 1, memo, impure)
                base = (("cast", r.get("ty", ""), b), ())
            elif k == "bin":
                base = (("bin", r.get("op", "?"), expr(fn, r["o"][0], depth + 1, memo, impure), expr(fn, r["o"][1], depth + 1, memo, impure)), ())
            elif k == "un":
                base = (("un", r.get("op", "?"), expr(fn, r["o"][0], depth + 1, memo, impure)), ())
            elif k == "discr":
                base = (("discr", expr(fn, r["o"][0], depth + 1, memo, impure)), ())
            elif k == "agg":
                base = (("agg", r.get("n", ""), tuple(expr(fn, o, depth + 1, memo, impure) for o in r["o"])), ())
            else:
                base = (("opaque", ("stmt", ds[0][1], ds[0][2])), ())
        else:
            t = ds[0][2]
            c = t["callee"] or ""
            bad = any(a.startswith("&mut") for a in t.get("argtys", [])) or not c or "andom" in c \
                or c.endswith(("::next", "::now", "::elapsed", "::fetch_add")) or c.startswith("core::ops::function::Fn") \
                or (impure is not None and impure(t))
            if bad:
                base = (("opaque", ("call", ds[0][1])), ())
            else:
                base = (("call", t["callee"], tuple(expr(fn, a, depth + 1, memo, impure) for a in t["args"])), ())
        memo[l] = base
    return _reduce_proj(base[0], _norm_path(base[1] + tuple(proj)))


def _reduce_proj(root, path):
    """component selection on a tuple aggregate: (a, b).1 == b"""
    while root[0] == "agg" and root[1] in ("", "<tuple>") and path and isinstance(path[0], str) and path[0][:1] == "." and path[0][1:].isdigit():
        i = int(path[0][1:])
        if i >= len(root[2]):
            break
        sub = root[2][i]
        root, path = sub[0], _norm_path(sub[1] + tuple(path[1:]))
    return (root, path)


def expr_has_input(e):
    """does the expression depend on anything but literals?"""
    root, _ = e
    if root[0] in ("arg", "opaque"):
        return True
    if root[0] in ("const", "fn"):
        return False
    if root[0] == "call":
        return any(expr_has_input(a) for a in root[2]) or not root[2]
    if root[0] in ("bin",):
        return expr_has_input(root[2]) or expr_has_input(root[3])
    if root[0] in ("un", "cast"):
        return expr_has_input(root[2])
    if root[0] == "discr":
        return expr_has_input(root[1])
    if root[0] == "agg":
        return any(expr_has_input(a) for a in root[2])
    return True


def expr_has_opaque(e):
    root, path = e
    if any(isinstance(p, tuple) and p[0] == "idx" and expr_has_opaque(p[1]) for p in path):
        return True
    if root[0] == "opaque":
        return True
    if root[0] == "call":
        return any(expr_has_opaque(a) for a in root[2])
    if root[0] == "bin":
        return expr_has_opaque(root[2]) or expr_has_opaque(root[3])
    if root[0] in ("un", "cast"):
        return expr_has_opaque(root[2])
    if root[0] == "discr":
        return expr_has_opaque(root[1])
    if root[0] == "agg":
        return any(expr_has_opaque(a) for a in root[2])
    return False


CMP_CALLS = ("core::cmp::PartialEq::eq", "core::cmp::PartialEq::ne", "core::cmp::PartialOrd::lt", "core::cmp::PartialOrd::le", "core::cmp::PartialOrd::gt",
             "core::cmp::PartialOrd::ge", "core::cmp::PartialOrd::partial_cmp", "core::cmp::Ord::cmp", "core::f64::<impl f64>::total_cmp",
             "core::cmp::Ord::max", "core::cmp::Ord::min", "core::f64::<impl f64>::max", "core::f64::<impl f64>::min")
CMP_BINOPS = ("Eq", "Ne", "Lt", "Le", "Gt", "Ge")


def self_comparisons(fn, impure=None):
    """comparison sites of fn whose two operands are the same canonical expression: [(line, what, expr)]"""
    out = []
    memo = {}
    for bi, t in calls(fn):
        if t["callee"] in CMP_CALLS and len(t["args"]) == 2 and not t.get("x"):
            a, b = expr(fn, t["args"][0], 0, memo, impure), expr(fn, t["args"][1], 0, memo, impure)
            if a == b and expr_has_input(a) and not expr_has_opaque(a):
                out.append((t["ln"], t["callee"].split("::")[-1], a))
    for bi, si, s in stmts(fn):
        r = s["r"]
        if r["k"] == "bin" and r.get("op") in CMP_BINOPS and not s.get("x"):
            a, b = expr(fn, r["o"][0], 0, memo, impure), expr(fn, r["o"][1], 0, memo, impure)
            if a == b and expr_has_input(a) and not expr_has_opaque(a):
                out.append((s.get("ln"), r["op"], a))
    return out


# ---------------------------------------------------------------------------------------------------------------------
# must-derive: "on EVERY alternative definition the value is computed from a source" (greatest fixpoint over loops)

_BRANCHING_HOF = {
    # callee -> (argument indices that are returned as they are on some branch, closure argument indices whose RESULT is returned)
    "core::option::Option::<T>::map_or": ((1,), (2,)),
    "core::option::Option::<T>::map_or_else": ((), (1, 2)),
    "core::option::Option::<T>::unwrap_or": ((0, 1), ()),
    "core::option::Option::<T>::unwrap_or_else": ((0,), (1,)),
    "core::option::Option::<T>::or": ((0, 1), ()),
    "core::option::Option::<T>::or_else": ((0,), (1,)),
    "core::result::Result::<T, E>::unwrap_or": ((0, 1), ()),
    "core::result::Result::<T, E>::unwrap_or_else": ((0,), (1,)),
    "core::result::Result::<T, E>::map_or": ((1,), (2,)),
    "core::bool::<impl bool>::then": ((), (1,)),
}


def _all3(vals):
    vals = list(vals)
    if any(v is False for v in vals):
        return False
    if any(v is None for v in vals):
        return None
    return True


def _any3(vals):
    vals = list(vals)
    if any(v is True for v in vals):
        return True
    if any(v is None for v in vals):
        return None
    return False


def must_derive(F, fn, op, is_source, derived_roots=frozenset(), seen=None, depth=0):
    """True  — on every alternative definition of `op` (every branch that may have produced it) the value is computed
               from a place/call accepted by is_source(fn, kind, x) (kind 'place' → operand, 'call' → terminator);
       False — some alternative is computed without any source;
       None  — not decided (state built through `&mut`, recursion limit, indirect call).
    Calls: a branching combinator (map_or, unwrap_or, …) derives only if each of its alternatives does; a workspace callee
    derives if its return value does (parameters derive when the arguments do); any other call derives if some argument
    (or captured value of a closure argument) does. derived_roots: locals of `fn` taken as derived (parameters of a
    callee/closure whose arguments derive; ('up', i) for captured value i of a closure)."""
    if seen is None:
        seen = set()
    if depth > 60:
        return None
    if not is_place(op):
        return False
    if is_source(fn, "place", op):
        return True
    l = op["l"]
    if l == 1 and fn.get("kind") == "Closure":
        for e in op["p"]:
            if isinstance(e, list) and e[0] == "f" and e[1] == "<closure>":
                return ("up", int(e[2])) in derived_roots
        return False
    if l in derived_roots:
        return True
    ds = defs(fn).get(l, [])
    if 1 <= l <= fn["argc"] and not ds:
        return False
    key = (fn["id"], l)
    if key in seen:
        return True  # greatest fixpoint: the cyclic alternative is as derived as the others
    seen = seen | {key}
    if not ds:
        ds = defs(fn).get(("p", l), [])
        if not ds:
            return None
        return _any3(_def_derives(F, fn, d, is_source, derived_roots, seen, depth) for d in ds)
    res = _all3(_def_derives(F, fn, d, is_source, derived_roots, seen, depth) for d in ds)
    if res is False and l in mut_aliased(fn):
        # the value may have been completed through a `&mut` borrow (extend, insert, …): look for such a call fed by a source
        for bi, t in calls(fn):
            borrowed = False
            others = []
            for a in t["args"]:
                if is_place(a) and any(k == "local" and v == l or k == "arg" and v == l for k, v, p in trace(fn, a)) and a["l"] != l:
                    borrowed = True
                else:
                    others.append(a)
            if borrowed and _any3(must_derive(F, fn, a, is_source, derived_roots, seen, depth + 1) for a in others) is True:
                return None  # completed in place somewhere: whether on every path is not decided here
        return False
    return res


def _def_derives(F, fn, d, is_source, derived_roots, seen, depth):
    if d[0] == "s":
        r = d[3]["r"]
        ops = r.get("o", [])
        if not ops:
            return False
        return _any3(must_derive(F, fn, a, is_source, derived_roots, seen, depth + 1) for a in ops)
    t = d[2]
    if is_source(fn, "call", t):
        return True
    callee = t["callee"]
    args = t["args"]
    if callee is None:
        return None
    if callee in _BRANCHING_HOF:
        plain, clos = _BRANCHING_HOF[callee]
        payload = must_derive(F, fn, args[0], is_source, derived_roots, seen, depth + 1) if args else False
        alts = []
        for i in plain:
            if i < len(args):
                alts.append(must_derive(F, fn, args[i], is_source, derived_roots, seen, depth + 1))
        for i in clos:
            if i < len(args):
                alts.append(_closure_result_derives(F, fn, args[i], payload is True, is_source, derived_roots, seen, depth))
        return _all3(alts)
    target = F.fns.get(t.get("res") or "") or F.fns.get(callee)
    argv = [must_derive(F, fn, a, is_source, derived_roots, seen, depth + 1) for a in args]
    if target is not None and target.get("bbs"):
        roots = frozenset(i + 1 for i, v in enumerate(argv) if v is True)
        inner = must_derive(F, target, {"l": 0, "p": []}, is_source, roots, seen, depth + 1)
        if inner is True:
            return True
    return _any3(argv)


def _closure_result_derives(F, fn, op, param_derived, is_source, derived_roots, seen, depth):
    """does the value RETURNED by the closure held in `op` derive? (captured values derive as they do in `fn`)"""
    if not is_place(op):
        return None  # a plain fn item: not followed
    out = []
    for k, v, p in trace(fn, op):
        if k != "agg":
            return None
        bi, si = v
        rv = fn["bbs"][bi]["s"][si]["r"]
        if rv.get("ak") != "closure" or rv["n"] not in F.fns:
            return None
        cfn = F.fns[rv["n"]]
        roots = set()
        for i, a in enumerate(rv.get("o", [])):
            if must_derive(F, fn, a, is_source, derived_roots, seen, depth + 1) is True:
                roots.add(("up", i))
        if param_derived:
            roots |= set(range(2, cfn["argc"] + 1))
        out.append(must_derive(F, cfn, {"l": 0, "p": []}, is_source, frozenset(roots), seen, depth + 1))
    return _all3(out) if out else None
