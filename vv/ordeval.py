"""E-C: finite-ordering abstract interpreter for comparison-only MIR.
Interprets a function body over abstract values (opaque symbols, Ordering, bool, Option, tuples, enum variants),
exploring every outcome of a comparison/branch whose value is not fixed by the scenario (non-determinism by
replaying choice prefixes). Produces, per explored path, the return value, the symbolic heap of field stores and
the log of observed calls. Leaves the fragment (loops over data, arithmetic) => Undecided (rule fails closed)."""

import re

ORD = {"Less": "L", "Equal": "E", "Greater": "G"}
ORD_INT = {"L": -1, "E": 0, "G": 1}


HOF_OPTION = ("is_some_and", "is_none_or", "map", "and_then", "filter", "map_or", "map_or_else", "unwrap_or_else", "inspect")
_NOHOF = object()


class Undecided(Exception):
    pass


class _Abort(Exception):
    """the path ends in a panic (assert / expect): it returns nothing, so it carries no obligation"""


class _NeedChoice(Exception):
    def __init__(self, n, what):
        self.n = n
        self.what = what


def rev(o):
    return {"L": "G", "E": "E", "G": "L"}[o]


def sym(name):
    return ("sym", name)


def ref(v):
    return ("ref", v)


def some(v):
    return ("some", v)


NONE = ("none",)
UNK = ("unk",)


def strip_refs(v):
    while v and v[0] == "ref":
        v = v[1]
    return v


class Path:
    def __init__(self, ret, heap, calls, assumptions, env):
        self.ret = ret
        self.heap = heap
        self.calls = calls
        self.assumptions = assumptions
        self.env = env


class Interp:
    def __init__(self, F, fid, args, rel=None, heap=None, variants=None, observe=(), inline=(), max_steps=800,
                 unknown_switch="fork", call_models=None, fresh=False, enum_results=False):
        """args: {local: abstract value}; rel: {(symA, symB): 'L'|'E'|'G'} ordering facts between symbols
        (field paths on both sides must match); heap: {(symname, field): value}; variants: {symname: (variant_index)}
        for enum symbols; observe: callee suffixes whose invocations are logged; inline: fn ids to interpret
        interprocedurally."""
        self.F = F
        self.fid = fid
        self.fn = F.fns[fid]
        self.args = args
        self.rel = dict(rel or {})
        self.heap0 = dict(heap or {})
        self.variants = dict(variants or {})
        self.observe = tuple(observe)
        self.inline = set(inline)
        self.max_steps = max_steps
        self.unknown_switch = unknown_switch
        self.call_models = call_models or {}
        self.fresh = fresh
        self.enum_results = enum_results
        self.int_symbols = False
        self.name_values = False
        self.start_block = 0

    # ---- driver: enumerate choice sequences -----------------------------------------------------
    def explore(self, max_paths=256):
        paths = []
        stack = [[]]
        while stack:
            choices = stack.pop()
            try:
                p = self._run(list(choices))
                paths.append(p)
            except _NeedChoice as nc:
                for i in range(nc.n):
                    stack.append(choices + [i])
            except _Abort:
                pass
            if len(paths) > max_paths:
                raise Undecided("too many paths")
        return paths

    # ---- single run under a choice prefix -------------------------------------------------------
    def _run(self, choices):
        self._choices = choices
        self._ci = 0
        self._assump = []
        self._calls = []
        heap = dict(self.heap0)
        rel = dict(self.rel)
        ret, env = self._exec(self.fn, dict(self.args), heap, rel, 0)
        return Path(ret, heap, list(self._calls), list(self._assump), env)

    def _choose(self, n, what):
        if self._ci < len(self._choices):
            c = self._choices[self._ci]
            self._ci += 1
            return c
        raise _NeedChoice(n, what)

    def _proms(self, fn):
        out = {}
        i = 0
        base = fn["id"]
        while f"{base}::promoted[{i}]" in self.F.fns:
            pr = self.F.fns[f"{base}::promoted[{i}]"]
            v = UNK
            env = {}
            for s in pr["bbs"][0]["s"]:
                r = s["r"]
                if r["k"] == "agg" and r.get("ak") == "adt":
                    val = self._agg(r, [env.get(o["l"], UNK) if "l" in o else self._const(o) for o in r["o"]])
                    env[s["d"]["l"]] = val
                elif r["k"] == "ref" and not r["o"][0]["p"]:
                    env[s["d"]["l"]] = ref(env.get(r["o"][0]["l"], UNK))
                elif r["k"] == "use" and "c" in r["o"][0]:
                    env[s["d"]["l"]] = self._const(r["o"][0])
            out[f"promoted[{i}]"] = env.get(0, UNK)
            i += 1
        return out

    def _const(self, o):
        c = o.get("c")
        if c == "true":
            return ("bool", True)
        if c == "false":
            return ("bool", False)
        if c == "()":
            return ("unit",)
        m = re.fullmatch(r"(-?\d+)_(?:[iu](?:8|16|32|64|128|size))", str(c))
        if m:
            return ("int", int(m.group(1)))
        return ("const", c)

    def _agg(self, rv, vals):
        n = rv.get("n", "")
        if rv["ak"] == "adt":
            if n.startswith("core::cmp::Ordering#"):
                return ("ord", ORD[n.split("#")[1]])
            if n == "core::option::Option#Some":
                return some(vals[0])
            if n == "core::option::Option#None":
                return NONE
            if n.startswith("core::ops::control_flow::ControlFlow#"):
                return ("cf", n.split("#")[1], vals[0] if vals else ("unit",))
            if n.startswith("core::result::Result#"):
                return ("res", n.split("#")[1], vals[0] if vals else ("unit",))
            return ("agg", n, dict(zip(rv.get("fs", []), vals)))
        if rv["ak"] == "tuple":
            return ("tuple", list(vals))
        if rv["ak"] == "closure":
            return ("closure", n, list(vals))
        return UNK

    # ---- places ---------------------------------------------------------------------------------
    def _proj(self, v, e, heap):
        if e == "*":
            if v and v[0] == "ref":
                return v[1]
            return v
        if isinstance(e, list) and e[0] == "d":
            return v
        if isinstance(e, list) and e[0] == "f":
            name, idx = e[2], e[3]
            if v is None:
                return UNK
            k = v[0]
            if k == "some" and name == "Some::0":
                return v[1]
            if k == "cf" and name.endswith("::0"):
                return v[2]
            if k == "res" and name.endswith("::0"):
                return v[2]
            if k == "tuple":
                return v[1][idx] if idx < len(v[1]) else UNK
            if k == "agg":
                return v[2].get(name, v[2].get(name.split("::")[-1], UNK))
            if k == "closure":
                return v[2][idx] if idx < len(v[2]) else UNK
            if k == "sym":
                hv = heap.get((v[1], name))
                if hv is not None:
                    return hv
                return sym(f"{v[1]}.{name}")
            return UNK
        return UNK

    def _place(self, env, heap, p):
        v = env.get(p["l"], UNK)
        for e in p["p"]:
            v = self._proj(v, e, heap)
        return v

    def _store(self, env, heap, p, val):
        if not p["p"]:
            env[p["l"]] = val
            return
        # walk to the container of the last field projection
        v = env.get(p["l"], UNK)
        chain = p["p"]
        last_f = max((i for i, e in enumerate(chain) if isinstance(e, list) and e[0] == "f"), default=None)
        if last_f is None:
            # (*_1) = val : store through reference to a symbol: not modelled
            tgt = strip_refs(v)
            if tgt and tgt[0] == "sym":
                heap[(tgt[1], "*")] = val
            return
        for e in chain[:last_f]:
            v = self._proj(v, e, heap)
        e = chain[last_f]
        base = strip_refs(v) if v and v[0] == "ref" else v
        if base and base[0] == "sym":
            heap[(base[1], e[2])] = val
        elif base and base[0] == "tuple" and len(chain) == 1:
            lst = list(base[1])
            while len(lst) <= e[3]:
                lst.append(UNK)
            lst[e[3]] = val
            env[p["l"]] = ("tuple", lst)
        elif base and base[0] == "agg" and len(chain) == 1:
            d = dict(base[2])
            d[e[2]] = val
            env[p["l"]] = ("agg", base[1], d)
        elif (base is None or base == UNK) and len(chain) == 1:
            # first partial init of a tuple/aggregate local
            lst = [UNK] * (e[3] + 1)
            lst[e[3]] = val
            env[p["l"]] = ("tuple", lst)

    def _operand(self, env, heap, o, proms):
        if "l" in o:
            return self._place(env, heap, o)
        if "fn" in o:
            return ("fn", o["fn"])
        c = o.get("c", "")
        if isinstance(c, str) and c.startswith("promoted["):
            return proms.get(c, UNK)
        return self._const(o)

    # ---- comparisons ----------------------------------------------------------------------------
    def _split(self, v):
        v = strip_refs(v)
        if v and v[0] == "sym":
            parts = v[1].split(".")
            return parts[0], tuple(parts[1:])
        if v and v[0] == "const" and re.fullmatch(r"-?[0-9][0-9_.eE+-]*f(?:32|64)", str(v[1])):
            return "k" + str(v[1]).replace(".", "_"), ()       # a float literal acts as a named constant symbol (k0f64 ...)
        if v and v[0] == "int" and self.int_symbols:
            return "k" + str(v[1]), ()
        return None, None

    def _compare(self, a, b, rel, what="cmp"):
        sa, pa = self._split(a)
        sb, pb = self._split(b)
        if sa is not None and sb is not None:
            if sa == sb and pa == pb:
                return "E"
            key = (sa + "".join("." + x for x in pa), sb + "".join("." + x for x in pb))
            if pa == pb:
                if (sa, sb) in rel:
                    return rel[(sa, sb)]
                if (sb, sa) in rel:
                    return rev(rel[(sb, sa)])
            if key in rel:
                return rel[key]
            if (key[1], key[0]) in rel:
                return rev(rel[(key[1], key[0])])
            c = self._choose(3, f"{what}({key[0]},{key[1]})")
            o = "LEG"[c]
            rel[key] = o
            self._assump.append((key[0], key[1], o))
            return o
        raise Undecided(f"comparison of non-symbolic values {a} {b}")

    # ---- execution ------------------------------------------------------------------------------
    def _exec(self, fn, env, heap, rel, depth):
        proms = self._proms(fn)
        b = self.start_block if depth == 0 else 0
        steps = 0
        bbs = fn["bbs"]
        while True:
            steps += 1
            if steps > self.max_steps:
                raise Undecided("step bound exceeded (loop over data?)")
            bb = bbs[b]
            for s in bb["s"]:
                rv = s["r"]
                k = rv["k"]
                if k in ("use", "cast"):
                    v = self._operand(env, heap, rv["o"][0], proms)
                elif k in ("ref", "raw"):
                    v = ref(self._place(env, heap, rv["o"][0]))
                elif k == "discr":
                    x = self._place(env, heap, rv["o"][0])
                    v = self._discr(x)
                    if v is UNK:
                        # `match opt { Some(..) / None }` on an unknown option: its presence is chosen once per path (shared with the Option combinators)
                        sx = strip_refs(x) if x and x[0] == "ref" else x
                        pl = rv["o"][0]
                        ty = (fn["locals"][pl["l"]] if pl["l"] < len(fn["locals"]) else "") if all(e == "*" for e in pl["p"]) else ""
                        ty = ty.lstrip("&").replace("mut ", "", 1).strip()
                        if sx and sx[0] == "sym" and ty.startswith("core::option::Option<"):
                            key = ("optional", sx[1])
                            if key not in heap:
                                c = self._choose(2, f"opt:{sx[1]}")
                                heap[key] = ("bool", bool(c))
                                self._assump.append(("optional", sx[1], bool(c)))
                            v = ("int", 1 if heap[key][1] else 0)
                elif k == "agg":
                    v = self._agg(rv, [self._operand(env, heap, o, proms) for o in rv["o"]])
                elif k == "bin":
                    v = self._bin(rv, [self._operand(env, heap, o, proms) for o in rv["o"]], rel)
                    if v is UNK and self.name_values and rv.get("op") in ("Add", "Sub", "Mul", "Div") and not s["d"]["p"]:
                        # arithmetic is opaque to the ordering domain: its result is a fresh symbol named after the variable it defines
                        v = sym(self._value_name(fn, s["d"]["l"], s.get("ln")))
                elif k == "un":
                    x = self._operand(env, heap, rv["o"][0], proms)
                    if rv["op"] == "Not" and x and x[0] == "bool":
                        v = ("bool", not x[1])
                    else:
                        v = UNK
                else:
                    v = UNK
                self._store(env, heap, s["d"], v)
            t = bb["t"]
            k = t["k"]
            if k == "ret":
                return env.get(0, UNK), env
            if k in ("goto", "drop"):
                b = t["tgt"]
                continue
            if k == "assert":
                b = t["tgt"]
                continue
            if k == "switch":
                x = self._operand(env, heap, t["o"], proms)
                iv = None
                if x and x[0] == "bool":
                    iv = int(x[1])
                elif x and x[0] == "int":
                    iv = x[1]
                if iv is None:
                    if self.unknown_switch != "fork":
                        raise Undecided(f"switch on {x}")
                    tgts = [tb for _, tb in t["tg"]] + [t["else"]]
                    live = [tb for tb in tgts if bbs[tb]["t"]["k"] != "unreachable" or bbs[tb]["s"]]
                    if live:
                        tgts = live       # an exhaustive match compiles its impossible default to `unreachable`: not a path
                    c = self._choose(len(tgts), f"switch@bb{b}")
                    self._assump.append(("switch", b, c))
                    b = tgts[c]
                    continue
                nb = t["else"]
                for v_, tb in t["tg"]:
                    vv = v_
                    if vv >= 2 ** 127:
                        vv -= 2 ** 128
                    elif vv >= 2 ** 63 and vv < 2 ** 64:
                        vv -= 2 ** 64
                    elif 128 <= vv < 256:
                        vv -= 256
                    if vv == iv:
                        nb = tb
                b = nb
                continue
            if k == "call":
                v = self._call(fn, t, env, heap, rel, proms, depth)
                self._store(env, heap, t["dest"], v)
                if t["tgt"] < 0:
                    if getattr(self, "drop_panics", False) and "panic" in (t["callee"] or ""):
                        raise _Abort()
                    raise Undecided("diverging call")
                b = t["tgt"]
                continue
            if k == "unreachable":
                raise Undecided("unreachable reached (infeasible abstract path)")
            raise Undecided(f"terminator {k}")

    def _discr(self, x):
        x0 = x
        if x and x[0] == "ord":
            return ("int", ORD_INT[x[1]])
        if x and x[0] == "bool":
            return ("int", int(x[1]))
        if x and x[0] == "some":
            return ("int", 1)
        if x and x[0] == "none":
            return ("int", 0)
        if x and x[0] == "cf":
            return ("int", 0 if x[1] == "Continue" else 1)
        if x and x[0] == "res":
            return ("int", 0 if x[1] == "Ok" else 1)
        if x and x[0] == "agg" and "#" in x[1]:
            adt, var = x[1].split("#")
            a = self.F.adts.get(adt)
            if a:
                for i, v in enumerate(a["v"]):
                    if v["n"] == var:
                        return ("int", i)
        if x and x[0] == "sym":
            if x[1] in self.variants:
                return ("int", self.variants[x[1]])
        return UNK

    def _bin(self, rv, vals, rel=None):
        a, b = vals
        op = rv["op"]
        if a and b and a[0] == "int" and b[0] == "int":
            if op in ("Eq", "Ne", "Lt", "Le", "Gt", "Ge"):
                return ("bool", {"Eq": a[1] == b[1], "Ne": a[1] != b[1], "Lt": a[1] < b[1], "Le": a[1] <= b[1], "Gt": a[1] > b[1], "Ge": a[1] >= b[1]}[op])
        if a and b and a[0] == "bool" and b[0] == "bool":
            if op == "Eq":
                return ("bool", a[1] == b[1])
            if op == "Ne":
                return ("bool", a[1] != b[1])
            if op == "BitAnd":
                return ("bool", a[1] and b[1])
            if op == "BitOr":
                return ("bool", a[1] or b[1])
        if op in ("Lt", "Le", "Gt", "Ge", "Eq", "Ne") and rv["ty"] in ("f64", "f32", "usize", "i32", "i64", "u64", "isize"):
            sa, _ = self._split(a)
            sb, _ = self._split(b)
            if sa is not None and sb is not None and rel is not None:
                o = self._compare(a, b, rel, op)
                return ("bool", {"Lt": o == "L", "Le": o in "LE", "Gt": o == "G", "Ge": o in "GE", "Eq": o == "E", "Ne": o != "E"}[op])
        return UNK

    def _call(self, fn, t, env, heap, rel, proms, depth):
        callee = t["callee"]
        args = [self._operand(env, heap, o, proms) for o in t["args"]]
        last = callee.split("::")[-1] if callee else ""
        res = t["res"] or callee
        for suf in self.observe:
            if callee.endswith(suf) or res.endswith(suf):
                self._calls.append((suf, tuple(args)))
        for suf, model in self.call_models.items():
            if callee.endswith(suf) or res.endswith(suf):
                self.cur_site = (fn, t)         # models may look at the call site (e.g. only calls inside a loop are scripted)
                out = model(self, args, heap, rel)
                if out is not NotImplemented:
                    return out
        if not callee:
            return self._unknown_result(fn, t)
        if last in ("total_order", "cmp", "total_cmp") and len(args) >= 2:
            return ("ord", self._compare(args[-2], args[-1], rel, last))
        if last == "partial_cmp" and len(args) >= 2:
            return some(("ord", self._compare(args[-2], args[-1], rel, last)))
        if last in ("gt", "lt", "ge", "le") and "PartialOrd" in callee:
            o = self._compare(args[0], args[1], rel, last)
            return ("bool", {"gt": o == "G", "lt": o == "L", "ge": o in "GE", "le": o in "LE"}[last])
        if last in ("eq", "ne") and "PartialEq" in callee:
            x, y = strip_refs(args[0]), strip_refs(args[1])
            if x and y and x[0] == y[0] and x[0] in ("ord", "bool", "int"):
                return ("bool", (x[1] == y[1]) if last == "eq" else (x[1] != y[1]))
            if x and y and x[0] == "sym" and y[0] == "sym":
                o = self._compare(x, y, rel, last)
                return ("bool", (o == "E") if last == "eq" else (o != "E"))
            return UNK
        if last in ("deref", "deref_mut", "clone", "as_ref", "borrow", "to_owned", "into", "from", "as_mut", "cloned", "copied") and args:
            a0 = args[0]
            if last in ("clone", "to_owned", "cloned", "copied"):
                return strip_refs(a0) if (a0 and a0[0] == "ref" and a0[1] and a0[1][0] not in ("some", "none")) else (
                    self._map_opt(strip_refs(a0), strip_refs) if a0 else a0)
            if last == "as_ref" and "Option" in callee:
                inner = strip_refs(a0)
                if inner and inner[0] == "some":
                    return some(ref(inner[1]))
                if inner == NONE:
                    return NONE
                if inner and inner[0] == "sym":
                    return inner          # an unknown option stays the same unknown option (its presence is enumerated where it is consumed)
                return UNK
            return a0 if last in ("into", "from") else (a0 if a0 and a0[0] == "ref" else ref(a0))
        if last in ("is_some", "is_none") and args:
            x = strip_refs(args[0])
            if x and x[0] in ("some", "none"):
                return ("bool", (x[0] == "some") == (last == "is_some"))
            return UNK
        if last in ("is_eq", "is_ne", "is_lt", "is_gt", "is_le", "is_ge") and args:
            x = strip_refs(args[0])
            if x and x[0] == "ord":
                o = x[1]
                return ("bool", {"is_eq": o == "E", "is_ne": o != "E", "is_lt": o == "L", "is_gt": o == "G", "is_le": o in "LE", "is_ge": o in "GE"}[last])
        if last == "reverse" and args and "Ordering" in callee:
            x = strip_refs(args[0])
            if x and x[0] == "ord":
                return ("ord", rev(x[1]))
        if last in ("unwrap", "expect", "unwrap_or_default") and args:
            x = args[0]
            if x and x[0] == "some":
                return x[1]
            if x and x[0] == "res" and x[1] == "Ok":
                return x[2]
            if x and x[0] == "sym":
                return x
            return UNK
        if last == "branch" and args:  # Try::branch
            x = args[0]
            if x and x[0] == "some":
                return ("cf", "Continue", x[1])
            if x == NONE:
                return ("cf", "Break", NONE)
            if x and x[0] == "cf":
                return ("cf", x[1], x[2]) if x[1] == "Continue" else ("cf", "Break", x)
            return UNK
        if last == "from_residual" and args:
            x = args[0]
            if x == NONE:
                return NONE
            if x and x[0] == "cf":
                return x
            return UNK
        # Option combinators taking a closure built in this body: interpret the closure (the payload of an unknown option is enumerated)
        if "core::option::Option" in callee and last in HOF_OPTION and args and depth < 5:
            hv = self._hof_option(last, args, heap, rel, depth, f"{fn['id'].split('::')[-1]}@L{t['ln']}")
            if hv is not _NOHOF:
                return hv
        tgt = t["res"] or callee
        if tgt in self.inline and tgt in self.F.fns and depth < 4:
            callee_fn = self.F.fns[tgt]
            cenv = {i + 1: a for i, a in enumerate(args)}
            r, _ = self._exec(callee_fn, cenv, heap, rel, depth + 1)
            return r
        return self._unknown_result(fn, t)

    def _call_closure(self, cv, cargs, heap, rel, depth):
        cv = strip_refs(cv) if cv and cv[0] == "ref" else cv
        if not (cv and cv[0] == "closure" and cv[1] in self.F.fns):
            return _NOHOF
        cfn = self.F.fns[cv[1]]
        cenv = {1: cv}
        for i, a in enumerate(cargs):
            cenv[2 + i] = a
        r, _ = self._exec(cfn, cenv, heap, rel, depth + 1)
        return r

    def _hof_option(self, last, args, heap, rel, depth, where):
        opt = args[0]
        inner = strip_refs(opt) if opt and opt[0] == "ref" else opt
        fpos = {"map_or": 2, "map_or_else": 2}.get(last, 1)
        if len(args) <= fpos:
            return _NOHOF
        f = args[fpos]
        fv = strip_refs(f) if f and f[0] == "ref" else f
        if not (fv and fv[0] == "closure" and fv[1] in self.F.fns):
            return _NOHOF
        if inner and inner[0] == "some":
            present, payload = True, inner[1]
        elif inner == NONE:
            present, payload = False, None
        elif inner and inner[0] == "sym":
            key = ("optional", inner[1])
            if key not in heap:                       # the presence of one unknown option is chosen once per path
                c = self._choose(2, f"opt:{inner[1]}")
                heap[key] = ("bool", bool(c))
                self._assump.append(("optional", inner[1], bool(c)))
            present, payload = heap[key][1], sym(inner[1] + ".Some::0")       # same name as the MIR projection `(x as Some).0` (field `Some::0`)
        else:
            return _NOHOF
        if last in ("unwrap_or_else",):
            return payload if present else self._call_closure(fv, [], heap, rel, depth)
        if not present:
            if last == "is_some_and":
                return ("bool", False)
            if last == "is_none_or":
                return ("bool", True)
            if last in ("map", "and_then", "filter", "inspect"):
                return NONE
            if last == "map_or":
                return args[1]
            if last == "map_or_else":
                return self._call_closure(args[1], [], heap, rel, depth)
            return _NOHOF
        if last == "filter":
            keep = self._call_closure(fv, [ref(payload)], heap, rel, depth)
            if keep and keep[0] == "bool":
                return some(payload) if keep[1] else NONE
            return _NOHOF
        if last == "inspect":
            self._call_closure(fv, [ref(payload)], heap, rel, depth)
            return some(payload)
        res = self._call_closure(fv, [payload], heap, rel, depth)
        if res is _NOHOF:
            return _NOHOF
        if last == "map":
            return some(res)
        return res          # is_some_and / is_none_or / and_then / map_or / map_or_else

    def _value_name(self, fn, l, ln):
        """debug name of the user variable a temporary is (transitively) copied into, else a site name"""
        nm = fn["names"].get(str(l))
        if nm:
            return f"{nm}@{ln}"
        seen = {l}
        cur = l
        for _ in range(6):
            nxt = None
            for bb in fn["bbs"]:
                for st in bb["s"]:
                    if st["r"]["k"] == "use" and st["r"]["o"] and "l" in st["r"]["o"][0] and st["r"]["o"][0]["l"] == cur and not st["r"]["o"][0]["p"] and not st["d"]["p"]:
                        nxt = st["d"]["l"]
                    elif st["r"]["k"] == "agg" and st["r"].get("ak") == "tuple" and not st["d"]["p"]:
                        for i, o in enumerate(st["r"]["o"]):
                            if "l" in o and o["l"] == cur and not o["p"]:
                                # packed into a tuple: follow the unpacking `x = T.i`
                                for bb2 in fn["bbs"]:
                                    for st2 in bb2["s"]:
                                        o2 = st2["r"]["o"][0] if st2["r"]["k"] == "use" and st2["r"]["o"] else None
                                        if o2 and "l" in o2 and o2["l"] == st["d"]["l"] and len(o2["p"]) == 1 and isinstance(o2["p"][0], list) and o2["p"][0][0] == "f" \
                                                and o2["p"][0][3] == i and not st2["d"]["p"]:
                                            nxt = st2["d"]["l"]
            if nxt is None or nxt in seen:
                break
            seen.add(nxt)
            cur = nxt
            nm = fn["names"].get(str(cur))
            if nm:
                return f"{nm}@{ln}"
        return f"t{ln}_{l}"

    def _unknown_result(self, fn, t):
        d = t["dest"]
        ty = fn["locals"][d["l"]] if not d["p"] and d["l"] < len(fn["locals"]) else ""
        where = f"{fn['id'].split('::')[-1]}@L{t['ln']}"
        if self.enum_results and ty == "core::cmp::Ordering":
            c = self._choose(3, f"ret:{where}")
            self._assump.append(("callret", where, "LEG"[c], t["callee"], t["ln"]))
            return ("ord", "LEG"[c])
        if self.enum_results and ty == "bool":
            c = self._choose(2, f"ret:{where}")
            self._assump.append(("callret", where, bool(c), t["callee"], t["ln"]))
            return ("bool", bool(c))
        if self.fresh:
            if self.name_values and not d["p"]:
                nm = self._value_name(fn, d["l"], t["ln"])
                if not nm.startswith("t"):
                    return sym(nm)
            return sym(f"r{t['ln']}_{d['l']}")
        return UNK

    @staticmethod
    def _map_opt(v, f):
        if v and v[0] == "some":
            return some(f(v[1]))
        return v


def script_next(it, length, make=None):
    """models `Iterator::next` in Interp `it` as a finite script: `length` elements, then None (state is reset for every explored run).
    Loop forms of iterator chains are thereby evaluated over sequences of a fixed small length."""
    state = {"i": 0}
    make = make or (lambda i: some(sym(f"item{i}")))

    from . import mir as _mir
    in_loop = {}

    def nxt(i_, a, h, rl):
        fn_, t_ = i_.cur_site
        if fn_["id"] not in in_loop:
            blocks = set().union(*_mir.natural_loops(fn_).values()) if _mir.natural_loops(fn_) else set()
            in_loop[fn_["id"]] = {bi for bi, tt in _mir.calls(fn_) if bi in blocks and tt["callee"].endswith("Iterator::next")}
        here = [bi for bi, tt in _mir.calls(fn_) if tt is t_]
        if not here or here[0] not in in_loop[fn_["id"]]:
            return NotImplemented           # a `next()` outside any loop (`ranked().next()`) is an ordinary unknown call
        state["i"] += 1
        return make(state["i"]) if state["i"] <= length else NONE
    it.call_models = dict(it.call_models)
    it.call_models["Iterator::next"] = nxt
    orig = it._run

    def run(choices):
        state["i"] = 0
        return orig(choices)
    it._run = run
    return it
