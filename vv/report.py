"""Rule/finding collector, known-findings handling, evidence + replay writers."""
import json
import os
import time
import traceback

from .facts import AnchorError

VERIF = os.path.dirname(os.path.dirname(os.path.abspath(__file__)))


class Finding:
    def __init__(self, rule, instance, why, where=None, path=None, extra=None):
        self.rule = rule
        self.instance = instance
        self.why = why
        self.where = where
        self.path = path
        self.extra = extra or {}

    @property
    def key(self):
        return f"{self.rule}|{self.instance}"

    def to_json(self, prop):
        return {"property": prop, "rule": self.rule, "instance": self.instance, "key": self.key, "where": self.where,
                "why": self.why, "path": self.path, **self.extra}


class Rule:
    def __init__(self, ctx, rid, text, floor=0, tier="quick"):
        self.ctx = ctx
        self.id = rid
        self.text = text
        self.floor = floor
        self.tier = tier
        self.instances = []   # (instance, status, detail, where)
        self.trivial = 0
        self.failed = False

    def ok(self, instance, detail=None, where=None):
        self.instances.append((str(instance), "ok", detail, where))

    def skip(self, n=1):
        """evaluated but trivial (no obligation), counted separately"""
        self.trivial += n

    def fail(self, instance, why, where=None, path=None, **extra):
        self.instances.append((str(instance), "fail", why, where))
        self.ctx.findings.append(Finding(self.id, str(instance), why, where, path, extra))

    def broken(self, why):
        """the rule itself could not be evaluated (anchor missing ...): fail closed"""
        self.failed = True
        self.ctx.findings.append(Finding(self.id, "rule-not-evaluable", why))


class Ctx:
    def __init__(self, F, prop, tier, seed=0):
        self.F = F
        self.prop = prop
        self.tier = tier
        self.seed = seed
        self.rules = []
        self.findings = []
        self.assumptions = []
        self.not_decided = ""
        self.explanation = ""
        self.extra = {}
        self.t0 = time.time()

    def rule(self, rid, text, floor=0, tier="quick"):
        r = Rule(self, rid, text, floor, tier)
        self.rules.append(r)
        return r

    def run(self, rid, text, fn, floor=0, tier="quick"):
        """declare + evaluate a rule, converting anchor errors into fail-closed findings"""
        r = self.rule(rid, text, floor, tier)
        if tier == "thorough" and self.tier != "thorough":
            r.skipped = True
            return r
        try:
            fn(self.F, r)
        except AnchorError as e:
            r.broken(f"anchor error: {e}")
        except Exception as e:  # a crashing rule must never pass silently
            r.broken(f"rule crashed: {type(e).__name__}: {e} @ {traceback.format_exc().splitlines()[-3].strip()}")
        return r

    def finish_floors(self):
        for r in self.rules:
            if getattr(r, "skipped", False) or r.failed:
                continue
            n = len(r.instances)
            if n < r.floor:
                self.findings.append(Finding(r.id, "instance-floor",
                                             f"only {n} instances matched, at least {r.floor} were confirmed by hand on the pinned tree "
                                             f"(anchor renamed/removed? the rule would pass vacuously)"))


def load_known():
    p = os.path.join(VERIF, "known_findings.json")
    if not os.path.exists(p):
        return {"findings": [], "fixed": []}
    with open(p) as fh:
        return json.load(fh)


def emit(ctx, facts_info, analysed, level="other", out=print):
    """Prints VIOLATION / KNOWN-FINDING lines, writes evidence + replay files. Returns exit code."""
    ctx.finish_floors()
    prop = ctx.prop
    known = {k["key"]: k for k in load_known().get("findings", []) if k.get("property") == prop}
    ev_dir = os.environ.get("VV_EVIDENCE_DIR") or os.path.join(VERIF, "evidence")
    rp_dir = os.path.join(ev_dir, "replay")
    os.makedirs(rp_dir, exist_ok=True)
    for f in os.listdir(rp_dir):
        if f.startswith(prop + "-"):
            try:
                os.unlink(os.path.join(rp_dir, f))
            except OSError:
                pass
    violations = 0
    known_hit = []
    n = 0
    seen_keys = set()
    for f in ctx.findings:
        if f.key in seen_keys:
            continue
        seen_keys.add(f.key)
        if f.key in known:
            known_hit.append(f.key)
            out(f"KNOWN-FINDING: property={prop} {f.key} — {known[f.key].get('what', f.why)}")
            continue
        n += 1
        violations += 1
        rp = os.path.join(rp_dir, f"{prop}-{n}.json")
        with open(rp, "w") as fh:
            json.dump(f.to_json(prop), fh, indent=1)
        out(f"VIOLATION property={prop} replay={rp}")
        out(f"  {f.rule} | {f.instance} | {f.where or '-'} | {f.why}")
        if f.path:
            out("  path: " + " -> ".join(f.path))
    # evidence
    evaluations = sum(len(r.instances) + r.trivial for r in ctx.rules)
    distinct = len({(r.id, i[0]) for r in ctx.rules for i in r.instances})
    samples = []
    for r in ctx.rules:
        for inst in r.instances[:3]:
            samples.append({"rule": r.id, "instance": inst[0], "status": inst[1], "detail": inst[2], "where": inst[3]})
    rules_ev = []
    for r in ctx.rules:
        rules_ev.append({
            "id": r.id, "text": r.text, "tier": r.tier,
            "evaluated": not getattr(r, "skipped", False),
            "instances": len(r.instances), "trivial": r.trivial, "floor": r.floor,
            "failed": sum(1 for i in r.instances if i[1] == "fail"),
            "instance_list": [i[0] for i in r.instances][:60],
        })
    obligations = sum(len(r.instances) for r in ctx.rules)
    discharged = sum(1 for r in ctx.rules for i in r.instances if i[1] == "ok")
    ev = {
        "property_id": prop,
        "tier": ctx.tier,
        "seed": ctx.seed,
        "level": level,
        "coverage": {
            "explanation": ctx.explanation + (" NOT decided: " + ctx.not_decided if ctx.not_decided else ""),
            "evaluations": evaluations,
            "distinct_nontrivial": distinct,
            "rule": "one evaluation = one rule instance (a function, call site, slot, type or table row the rule quantifies over); "
                    "non-trivial = the instance carries an obligation (e.g. the function really contains the guarded operation); "
                    "distinct = distinct (rule, instance) pairs",
            "samples": samples[:40],
            "obligations": obligations,
            "discharged": discharged,
            "rules": rules_ev,
            "analysed": analysed,
            "facts": facts_info,
            "known_findings_hit": known_hit,
            "exhaustive": True,
            **ctx.extra,
        },
        "assumptions": ctx.assumptions,
        "wall_s": round(time.time() - ctx.t0 + facts_info.get("extract_s", 0.0) + facts_info.get("load_s", 0.0), 2),
        "violations": violations,
    }
    with open(os.path.join(ev_dir, f"{prop}.json"), "w") as fh:
        json.dump(ev, fh, indent=1)
    return 1 if violations else 0
