"""Two-state (Clean/Dirty) typestate "some route may carry a stale cache", bottom-up function summaries.
One bit per function (not per object): may miss, never invents a Dirty exit that no path produces.
Primitives: RouteContext::{route_mut,as_mut,state_mut}, mark_stale(true) => Dirty;
GoalContext::{accept_route_state,accept_solution_state} and the two *_with_states helpers, mark_stale(false) => Clean
(their own bodies are verified by C05-S2)."""
from . import cg, mir

C = "C"
D = "D"
ID = (frozenset(C), frozenset(D))
DIRTY = (frozenset(D), frozenset(D))
CLEAN = (frozenset(C), frozenset(C))

DIRTY_PRIMS = (
    "vrp_core::construction::heuristics::context::RouteContext::route_mut",
    "vrp_core::construction::heuristics::context::RouteContext::as_mut",
    "vrp_core::construction::heuristics::context::RouteContext::state_mut",
)
# constructors produce a stale route as well (new_with_state starts with is_stale = true)
DIRTY_CTORS = (
    "vrp_core::construction::heuristics::context::RouteContext::new",
    "vrp_core::construction::heuristics::context::RouteContext::new_with_state",
)
CLEAN_PRIMS = (
    "vrp_core::models::goal::GoalContext::accept_route_state",
    "vrp_core::models::goal::GoalContext::accept_solution_state",
    "vrp_core::construction::enablers::feature_combinator::accept_route_state_with_states",
    "vrp_core::construction::enablers::feature_combinator::accept_solution_state_with_states",
)
MARK = "vrp_core::construction::heuristics::context::RouteContext::mark_stale"

# calls to other hand-over operators return a fresh, separately verified object: identity
HANDOVER_TRAIT_METHODS = (
    "rosomaxa::hyper::HeuristicSearchOperator::search",
    "vrp_core::solver::search::local::LocalOperator::explore",
    "rosomaxa::evolution::InitialOperator::create",
    "rosomaxa::evolution::HeuristicSolutionProcessing::post_process",
    "rosomaxa::hyper::HeuristicDiversifyOperator::diversify",
)


class TS:
    def __init__(self, F, identity_methods=HANDOVER_TRAIT_METHODS, dirty_ctors=False):
        self.F = F
        self.sum = {}
        self.inprog = set()
        self.identity = set(identity_methods)
        self.dirty_ctors = dirty_ctors

    def prim(self, g):
        if g in DIRTY_PRIMS:
            return DIRTY
        if self.dirty_ctors and g in DIRTY_CTORS:
            return DIRTY
        if g in CLEAN_PRIMS:
            return CLEAN
        return None

    @staticmethod
    def apply(tr, states):
        out = set()
        for s in states:
            out |= tr[0] if s == C else tr[1]
        return frozenset(out)

    @staticmethod
    def join(trs):
        a = set()
        b = set()
        for t in trs:
            a |= t[0]
            b |= t[1]
        return (frozenset(a), frozenset(b))

    def summary(self, g):
        p = self.prim(g)
        if p:
            return p
        if g in self.sum:
            return self.sum[g]
        fn = self.F.fns.get(g)
        if fn is None:
            return ID
        if g in self.inprog:
            return ID  # recursion: optimistic (documented)
        self.inprog.add(g)
        res = []
        for entry in (C, D):
            res.append(self.run(fn, frozenset(entry))[0])
        self.inprog.discard(g)
        # a function with no return (diverges) is identity for our purposes
        r0 = res[0] if res[0] else frozenset(C)
        r1 = res[1] if res[1] else frozenset(D)
        self.sum[g] = (r0, r1)
        return self.sum[g]

    def call_effect(self, t):
        callee = t["callee"]
        if not callee:
            return ID
        if callee == MARK:
            a = t["args"][1]
            if mir.is_const(a) and a["c"] == "false":
                return CLEAN
            return DIRTY
        if callee in self.identity:
            return ID
        tgts = cg.call_targets(self.F, t)
        trs = [self.summary(m) for m in tgts]
        trs = [x for x in trs if x is not None]
        if not trs:
            return ID
        if len(trs) == 1:
            return trs[0]
        return self.join(trs)

    def run(self, fn, entry):
        """forward dataflow; returns (union of states at Return, {ret block: states}, IN)"""
        bbs = fn["bbs"]
        n = len(bbs)
        IN = [frozenset() for _ in range(n)]
        IN[0] = entry
        work = [0]
        rets = {}
        S = mir.succs(fn)
        ret_opt = fn["locals"][0].startswith("core::option::Option<")
        while work:
            b = work.pop()
            st = IN[b]
            bb = bbs[b]
            for s in bb["s"]:
                rv = s["r"]
                if ret_opt and s["d"]["l"] == 0 and not s["d"]["p"] and rv["k"] == "agg" and rv.get("n", "").endswith("Option#None"):
                    st = frozenset()  # nothing is handed over on a None return
                if rv["k"] == "agg" and rv.get("ak") == "closure":
                    # closure may run zero or more times from here on
                    st = st | self.apply(self.summary(rv["n"]), st)
                for o in rv.get("o", []):
                    if mir.is_fnconst(o):
                        st = st | self.apply(self.summary(o["fn"]), st)
            t = bb["t"]
            if t["k"] == "call":
                for o in t["args"]:
                    if mir.is_fnconst(o) and o["fn"] not in self.identity:
                        st = st | self.apply(self.summary(o["fn"]), st)
                st = self.apply(self.call_effect(t), st)
                if ret_opt and t["dest"]["l"] == 0 and not t["dest"]["p"] and t["callee"].endswith("FromResidual::from_residual"):
                    st = frozenset()
            elif t["k"] == "ret":
                rets[b] = st
            for s_ in S[b]:
                new = IN[s_] | st
                if new != IN[s_]:
                    IN[s_] = new
                    work.append(s_)
        ex = frozenset().union(*rets.values()) if rets else frozenset()
        return ex, rets, IN

    def dirty_witness(self, fn):
        """For reporting: the calls in fn that can turn the state Dirty and are not followed by a cleaner
        on some path to a return. Returns list of (line, callee)."""
        out = []
        ex, rets, IN = self.run(fn, frozenset(C))
        for bi, t in mir.calls(fn):
            eff = self.call_effect(t)
            if D in eff[0]:
                out.append((t["ln"], t["callee"] or "<indirect>"))
        for bi, si, s in mir.stmts(fn):
            rv = s["r"]
            if rv["k"] == "agg" and rv.get("ak") == "closure" and D in self.summary(rv["n"])[0]:
                out.append((s["ln"], rv["n"]))
        return out
