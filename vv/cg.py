"""Call graph over the fact database: resolved static calls, trait calls resolved by rustc, class-hierarchy
fan-out for workspace traits (virtual / generic receivers), closures as may-run callees at their construction
site, fn items passed as values as may-call edges."""
from . import mir

WORKSPACE = ("rosomaxa::", "vrp_core::", "vrp_pragmatic::", "vrp_scientific::", "vrp_cli::")


def is_ws(path):
    p = path.lstrip("<")
    return p.startswith(WORKSPACE)


def call_targets(F, t, cha=True):
    """fn ids possibly invoked by call terminator t (only ids with or without bodies; caller filters)."""
    if not t["callee"]:
        return []
    if t["res"]:
        return [t["res"]]
    c = t["callee"]
    if t["how"] in ("virtual", "trait-generic", "trait", "trait-other") and cha and is_ws(c) and c in F.cha:
        out = list(F.cha[c])
        if c in F.fns and c not in out:
            out.append(c)
        return out
    return [c]


def edges(F, fid, cha=True):
    """list of (kind, bi, target_id, term|None): kind in call|closure|fnval"""
    fn = F.fns.get(fid)
    if fn is None:
        return []
    key = "_edges" if cha else "_edges_nocha"
    e = fn.get(key)
    if e is not None:
        return e
    e = []
    for bi, bb in enumerate(fn["bbs"]):
        for s in bb["s"]:
            r = s["r"]
            if r["k"] == "agg" and r.get("ak") == "closure":
                e.append(("closure", bi, r["n"], None))
            for o in r.get("o", []):
                if mir.is_fnconst(o):
                    e.append(("fnval", bi, o["fn"], None))
        t = bb["t"]
        if t["k"] == "call":
            for tg in call_targets(F, t, cha):
                e.append(("call", bi, tg, t))
            for o in t["args"]:
                if mir.is_fnconst(o):
                    # a fn item passed as a value (e.g. `.map(check_x)`), incl. trait methods
                    tgts = [o["fn"]]
                    if o["fn"] in F.cha and is_ws(o["fn"]):
                        tgts = list(F.cha[o["fn"]]) + [o["fn"]]
                    for g in tgts:
                        e.append(("fnval", bi, g, None))
    # promoted bodies belong to the function
    fn[key] = e
    return e


def callees(F, fid, cha=True):
    return {tg for _, _, tg, _ in edges(F, fid, cha)}


def reach(F, roots, stop=None, cha=True, edge_filter=None):
    """Reachable fn ids from roots; returns dict id -> parent id (None for roots) for witness paths."""
    parent = {}
    st = []
    for r in roots:
        if r not in parent:
            parent[r] = None
            st.append(r)
    while st:
        x = st.pop()
        for kind, bi, tg, t in edges(F, x, cha):
            if tg in parent:
                continue
            if stop and stop(tg):
                continue
            if edge_filter and not edge_filter(x, kind, bi, tg, t):
                continue
            parent[tg] = x
            st.append(tg)
    return parent


def witness(parent, x):
    path = []
    while x is not None:
        path.append(x)
        x = parent.get(x)
    return list(reversed(path))


def callers_index(F, cha=True):
    key = "_callers" if cha else "_callers_nocha"
    idx = getattr(F, key, None)
    if idx is not None:
        return idx
    idx = {}
    for fid in F.fns:
        for kind, bi, tg, t in edges(F, fid, cha):
            idx.setdefault(tg, []).append((fid, kind, bi, t))
    setattr(F, key, idx)
    return idx


def callers(F, target, cha=True):
    return callers_index(F, cha).get(target, [])


def call_sites(F, fid, callee_pred):
    """(bi, term) of calls in fid whose generic callee path or resolved path satisfies callee_pred"""
    fn = F.fns[fid]
    out = []
    for bi, t in mir.calls(fn):
        if callee_pred(t["callee"]) or (t["res"] and callee_pred(t["res"])):
            out.append((bi, t))
    return out
