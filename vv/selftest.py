"""Canary self-test (thorough tier) — placeholder until canaries are registered."""


def run(prop, seed):
    return 0
