"""Canary self-test (thorough tier): every canary mutant of the property (selftest/*.diff, one broken instance each, still
compiling) is applied to a scratch copy of /repo's current tree; the rule must fire and name that instance. A canary that
does not fire means the CHECKER is broken (exit non-zero, no VIOLATION line for the property).
Canaries are independent, so they run in VV_SELFTEST_JOBS (default 4) worker processes, each with its own scratch copy."""
import importlib
import json
import multiprocessing
import os
import shutil
import subprocess

from . import extract, facts as factsmod, report

VERIF = report.VERIF


def _copy_tree(src, dst):
    os.makedirs(dst, exist_ok=True)
    subprocess.run(["rsync", "-a", "--delete", "--exclude", "target", "--exclude", ".git", src.rstrip("/") + "/", dst.rstrip("/") + "/"], check=True)


def _one(args):
    """evaluate one canary in its own scratch copy; returns (name, status, detail dict)"""
    prop, name, want, seed, scratch = args
    try:
        _copy_tree(extract.REPO, scratch)
        pr = subprocess.run(["patch", "-p1", "-s", "-i", os.path.join(VERIF, "selftest", name)], cwd=scratch, stdout=subprocess.PIPE, stderr=subprocess.STDOUT, text=True)
        if pr.returncode != 0:
            # the canary no longer applies to the current tree (the anchor moved): report, but this is not a checker failure
            return name, "not-applicable", {"detail": pr.stdout[-300:]}
        try:
            fdir, h, info = extract.ensure_facts(repo=scratch, log=open(os.devnull, "w"))
        except extract.ExtractionError as e:
            return name, "not-compiling", {"detail": str(e)[-300:]}
        F = factsmod.Facts.load(fdir)
        F.repo = scratch
        mod = importlib.import_module(f"vv.rules.{prop.lower()}")
        ctx = report.Ctx(F, prop, "quick", seed)
        saved = extract.REPO
        extract.REPO = scratch
        try:
            mod.run(ctx)
            from .rules import common
            ctx.run(f"{prop}-Q0", "exact lints over the property's anchor files", common.anchored_lints(prop), floor=1)
        finally:
            extract.REPO = saved
        ctx.finish_floors()
        got = [f"{f.rule} | {f.instance}" for f in ctx.findings]
        shutil.rmtree(os.path.join(extract.CACHE, h), ignore_errors=True)
        try:
            os.unlink(os.path.join(extract.CACHE, h + ".lock"))
        except OSError:
            pass
        if any(want in g for g in got):
            return name, "fired", {"expected": want}
        return name, "MISSED", {"expected": want, "got": got[:5]}
    except Exception as e:  # a crash of the machinery on a canary is a checker failure, not a pass
        return name, "MISSED", {"expected": want, "got": [f"crash: {type(e).__name__}: {e}"[:300]]}
    finally:
        shutil.rmtree(scratch, ignore_errors=True)


def run(prop, seed=0, out=print):
    exp_path = os.path.join(VERIF, "selftest", "expect.json")
    if not os.path.exists(exp_path):
        return 0
    exp = {k: v for k, v in json.load(open(exp_path)).items() if isinstance(v, dict) and v.get("property") == prop}
    if not exp:
        out(f"[selftest] {prop}: no canaries registered")
        return 0
    base = os.environ.get("VERIF_SCRATCH", f"/var/tmp/vrp-verif-{os.getpid()}")
    try:
        jobs = max(1, int(os.environ.get("VV_SELFTEST_JOBS", "4")))
    except ValueError:
        jobs = 4
    tasks = [(prop, name, exp[name]["expect"], seed, f"{base}-{i}") for i, name in enumerate(sorted(exp))]
    rc = 0
    results = []
    try:
        if jobs == 1 or len(tasks) == 1:
            outs = [_one(t) for t in tasks]
        else:
            with multiprocessing.get_context("fork").Pool(min(jobs, len(tasks))) as pool:
                outs = pool.map(_one, tasks, chunksize=1)
    finally:
        for t in tasks:
            shutil.rmtree(t[4], ignore_errors=True)
    for name, status, d in outs:
        rec = {"canary": name, "status": status}
        rec.update(d)
        results.append(rec)
        if status == "fired":
            out(f"[selftest] {prop}: canary {name} fired ({d['expected']})")
        elif status == "not-applicable":
            out(f"[selftest] {prop}: canary {name} does not apply to the current tree (skipped)")
        elif status == "not-compiling":
            out(f"[selftest] {prop}: canary {name} does not compile on the current tree (skipped)")
        else:
            rc = 3
            out(f"SELFTEST-FAILED property={prop} canary={name}: expected `{d.get('expected')}`, checker reported {d.get('got', [])[:3]}")
    # append the self-test outcome to the evidence file written by the property run
    ev_path = os.path.join(os.environ.get("VV_EVIDENCE_DIR") or os.path.join(VERIF, "evidence"), f"{prop}.json")
    try:
        ev = json.load(open(ev_path))
        ev["coverage"]["selftest"] = results
        ev["coverage"]["evaluations"] = ev["coverage"].get("evaluations", 0) + len(results)
        json.dump(ev, open(ev_path, "w"), indent=1)
    except Exception:
        pass
    return rc
