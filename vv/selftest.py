"""Canary self-test (thorough tier): every canary mutant of the property (selftest/*.diff, one broken instance each, still
compiling) is applied to a scratch copy of /repo's current tree; the rule must fire and name that instance. A canary that
does not fire means the CHECKER is broken (exit non-zero, no VIOLATION line for the property)."""
import importlib
import json
import os
import shutil
import subprocess
import sys

from . import extract, facts as factsmod, report

VERIF = report.VERIF


def _copy_tree(src, dst):
    os.makedirs(dst, exist_ok=True)
    subprocess.run(["rsync", "-a", "--delete", "--exclude", "target", "--exclude", ".git", src.rstrip("/") + "/", dst.rstrip("/") + "/"], check=True)


def run(prop, seed=0, out=print):
    exp_path = os.path.join(VERIF, "selftest", "expect.json")
    if not os.path.exists(exp_path):
        return 0
    exp = {k: v for k, v in json.load(open(exp_path)).items() if isinstance(v, dict) and v.get("property") == prop}
    if not exp:
        out(f"[selftest] {prop}: no canaries registered")
        return 0
    scratch = os.environ.get("VERIF_SCRATCH", f"/var/tmp/vrp-verif-{os.getpid()}")
    rc = 0
    results = []
    try:
        for name in sorted(exp):
            want = exp[name]["expect"]
            _copy_tree(extract.REPO, scratch)
            pr = subprocess.run(["patch", "-p1", "-s", "-i", os.path.join(VERIF, "selftest", name)], cwd=scratch, stdout=subprocess.PIPE, stderr=subprocess.STDOUT, text=True)
            if pr.returncode != 0:
                # the canary no longer applies to the current tree (the anchor moved): report, but this is not a checker failure
                results.append({"canary": name, "status": "not-applicable", "detail": pr.stdout[-300:]})
                out(f"[selftest] {prop}: canary {name} does not apply to the current tree (skipped)")
                continue
            try:
                fdir, h, info = extract.ensure_facts(repo=scratch, log=open(os.devnull, "w"))
            except extract.ExtractionError as e:
                results.append({"canary": name, "status": "not-compiling", "detail": str(e)[-300:]})
                out(f"[selftest] {prop}: canary {name} does not compile on the current tree (skipped)")
                continue
            F = factsmod.Facts.load(fdir)
            F.repo = scratch
            mod = importlib.import_module(f"vv.rules.{prop.lower()}")
            ctx = report.Ctx(F, prop, "quick", seed)
            saved = extract.REPO
            extract.REPO = scratch
            try:
                mod.run(ctx)
                from .rules import common
                ctx.run(f"{prop}-Q0", "exact lints over the property's anchor files", common.anchored_lints(prop), floor=1)
            finally:
                extract.REPO = saved
            ctx.finish_floors()
            got = [f"{f.rule} | {f.instance}" for f in ctx.findings]
            if any(want in g for g in got):
                results.append({"canary": name, "status": "fired", "expected": want})
                out(f"[selftest] {prop}: canary {name} fired ({want})")
            else:
                rc = 3
                results.append({"canary": name, "status": "MISSED", "expected": want, "got": got[:5]})
                out(f"SELFTEST-FAILED property={prop} canary={name}: expected `{want}`, checker reported {got[:3]}")
            shutil.rmtree(os.path.join(extract.CACHE, h), ignore_errors=True)
            try:
                os.unlink(os.path.join(extract.CACHE, h + ".lock"))
            except OSError:
                pass
    finally:
        shutil.rmtree(scratch, ignore_errors=True)
    # append the self-test outcome to the evidence file written by the property run
    ev_path = os.path.join(VERIF, "evidence", f"{prop}.json")
    try:
        ev = json.load(open(ev_path))
        ev["coverage"]["selftest"] = results
        ev["coverage"]["evaluations"] = ev["coverage"].get("evaluations", 0) + len(results)
        json.dump(ev, open(ev_path, "w"), indent=1)
    except Exception:
        pass
    return rc
