"""Fact database: loads the driver's JSONL files and builds indexes (functions, ADTs, impls, CHA)."""
import collections
import json
import os
import pickle
import re

FLOORS = {"rosomaxa": 560, "vrp_core": 2150, "vrp_scientific": 105, "vrp_pragmatic": 1700, "vrp_cli": 690}


class Facts:
    def __init__(self):
        self.fns = {}          # id -> fn record (incl. closures and promoted bodies)
        self.adts = {}         # id -> adt record
        self.impls = []        # trait impl records
        self.traits = {}       # id -> trait record
        self.statics = {}
        self.crate_of = {}     # fn id -> crate file stem
        self.attrs = []        # attrscan records
        self.body_counts = collections.Counter()
        self.cha = collections.defaultdict(list)      # trait method -> [impl method ids]
        self.impls_of = collections.defaultdict(list)  # trait id -> [impl records]
        self.children = collections.defaultdict(list)  # root fn id -> [closure ids]
        self.short = collections.defaultdict(list)     # last path segment(s) -> ids

    # ---- loading -------------------------------------------------------------------------------
    @staticmethod
    def load(facts_dir):
        # the parse cache is tied to the version of this module (a pickle written by older code is ignored, not trusted)
        import hashlib
        with open(os.path.abspath(__file__), "rb") as _fh:
            _ver = hashlib.sha1(_fh.read()).hexdigest()[:10]
        pk = os.path.join(facts_dir, f"facts-{_ver}.pkl")
        if os.path.exists(pk):
            try:
                with open(pk, "rb") as fh:
                    return pickle.load(fh)
            except Exception:
                pass
        F = Facts()
        for fn in sorted(os.listdir(facts_dir)):
            if not fn.endswith(".jsonl"):
                continue
            stem = fn[:-6]
            path = os.path.join(facts_dir, fn)
            if stem == "attrs":
                for line in open(path):
                    if line.strip():
                        F.attrs.append(json.loads(line))
                continue
            for line in open(path):
                r = json.loads(line)
                t = r["t"]
                if t == "fn":
                    r["crate"] = stem
                    # bins re-declare nothing from libs; ids are crate qualified so no clash is expected
                    if r["id"] in F.fns:
                        r["id"] = r["id"] + "#dup"
                    F.fns[r["id"]] = r
                    if "::promoted[" not in r["id"]:
                        F.body_counts[stem.replace("-bin", "")] += 1
                elif t == "adt":
                    r["crate"] = stem
                    F.adts[r["id"]] = r
                elif t == "impl":
                    r["crate"] = stem
                    F.impls.append(r)
                elif t == "trait":
                    F.traits[r["id"]] = r
                elif t == "static":
                    F.statics[r["id"]] = r
        F._index()
        try:
            with open(pk + ".tmp%d" % os.getpid(), "wb") as fh:
                pickle.dump(F, fh, protocol=pickle.HIGHEST_PROTOCOL)
            os.replace(pk + ".tmp%d" % os.getpid(), pk)
        except Exception:
            pass
        return F

    def _index(self):
        for im in self.impls:
            self.impls_of[im["trait"]].append(im)
            for tm, imeth in im["m"]:
                self.cha[tm].append(imeth)
            for tm in im.get("dflt", []):
                # default body runs for this impl
                if tm not in self.cha[tm]:
                    self.cha[tm].append(tm)
        for i, r in self.fns.items():
            if r["kind"] == "Closure" and "::promoted[" not in i:
                self.children[r["parent"]].append(i)
            elif "::promoted[" in i:
                pass
        for i in self.fns:
            segs = strip_generics(i).split("::")
            self.short[segs[-1]].append(i)

    # ---- lookup --------------------------------------------------------------------------------
    def fn(self, fid):
        return self.fns.get(fid)

    def find(self, pattern, kind=None):
        """All fn ids whose generic-stripped id ends with `pattern` (segment aligned). Closures excluded."""
        out = []
        last = pattern.split("::")[-1]
        for i in self.short.get(strip_generics(last), []):
            r = self.fns[i]
            if r["kind"] == "Closure" or "::promoted[" in i:
                continue
            s = strip_generics(i)
            if s == pattern or s.endswith("::" + pattern) or s.endswith(" " + pattern) or s.endswith(">::" + pattern):
                out.append(i)
        return sorted(out)

    def find1(self, pattern):
        r = self.find(pattern)
        if len(r) != 1:
            raise AnchorError(f"anchor `{pattern}` resolves to {len(r)} functions: {r[:5]}")
        return r[0]

    def family(self, root):
        """root fn id + all closures (transitively) defined inside it."""
        return [root] + sorted(self.children.get(root, []))

    def root_of(self, fid):
        r = self.fns.get(fid)
        if r is None:
            return fid
        if "::promoted[" in fid:
            fid = fid.split("::promoted[")[0]
            r = self.fns.get(fid)
            if r is None:
                return fid
        return r["parent"] if r["kind"] == "Closure" else fid

    def trait_impl_methods(self, trait_method):
        """impl method ids (with bodies in the workspace) for a trait method path."""
        return sorted(m for m in self.cha.get(trait_method, []) if m in self.fns)

    def impl_selfs(self, trait):
        return sorted(im["self"] for im in self.impls_of.get(trait, []))

    def adt(self, suffix):
        hits = [a for a in self.adts if a == suffix or a.endswith("::" + suffix)]
        if len(hits) != 1:
            raise AnchorError(f"ADT anchor `{suffix}` resolves to {len(hits)}: {hits[:5]}")
        return self.adts[hits[0]]

    def loc(self, fid, ln=None):
        r = self.fns.get(fid)
        if not r:
            return "?"
        f = r["span"].rsplit(":", 1)[0]
        f = f.replace("/repo/", "")
        return f"{f}:{ln if ln else r['span'].rsplit(':', 1)[1]}"


class AnchorError(Exception):
    pass


_GEN = re.compile(r"::<[^<>]*(?:<[^<>]*(?:<[^<>]*>[^<>]*)*>[^<>]*)*>")


def strip_generics(s):
    """Greedy::<O, S>::new -> Greedy::new ; keeps <T as Trait>:: qualified-self prefixes."""
    prev = None
    while prev != s:
        prev = s
        s = _GEN.sub("", s)
    return s


def tyname(t):
    """last path segment of the head type constructor, refs stripped: '&mut a::b::C<X>' -> 'C'"""
    t = t.strip()
    while True:
        if t.startswith("&"):
            t = t[1:].lstrip()
            if t.startswith("'"):
                t = t.split(" ", 1)[1] if " " in t else t
            if t.startswith("mut "):
                t = t[4:]
            continue
        break
    head = t.split("<", 1)[0]
    return head.split("::")[-1]
