"""Type-level facts: field privacy, interior mutability, type reachability through ADT fields."""
import re

from .cg import WORKSPACE

INTERIOR = re.compile(
    r"(?<![A-Za-z0-9_])(Cell|RefCell|Mutex|RwLock|UnsafeCell|OnceCell|OnceLock|LazyLock|LazyCell|Atomic[A-Z][A-Za-z0-9]*|Condvar|Sender|Receiver|SyncSender|ThreadLocal)(?![A-Za-z0-9_])")
PATH = re.compile(r"[A-Za-z_][A-Za-z0-9_]*(?:::[A-Za-z_][A-Za-z0-9_]*)+")

POSITIVE_CONTROLS = [
    "alloc::sync::Arc<std::sync::poison::mutex::Mutex<u8>>",
    "core::cell::RefCell<alloc::vec::Vec<f64>>",
    "core::sync::atomic::AtomicUsize",
    "std::sync::poison::rwlock::RwLock<std::collections::hash::map::HashMap<u8, u8>>",
]
NEGATIVE_CONTROLS = ["alloc::sync::Arc<vrp_core::models::problem::fleet::Actor>", "vrp_core::models::solution::route::Activity", "ExcellentCellar"]


def controls_ok():
    return all(INTERIOR.search(p) for p in POSITIVE_CONTROLS) and not any(INTERIOR.search(n) for n in NEGATIVE_CONTROLS)


def interior_in(ty):
    m = INTERIOR.search(ty)
    return m.group(1) if m else None


def paths_in(ty):
    return set(PATH.findall(ty))


def reachable_types(F, roots):
    """ADT ids reachable from root ADT ids through field types; dyn workspace traits fan out to all workspace
    implementors. Returns (workspace adt ids, external type paths, witness parent map)."""
    seen = {}
    ext = set()
    st = []
    for r in roots:
        seen[r] = None
        st.append(r)
    trait_ids = set(F.traits)
    while st:
        a = st.pop()
        ad = F.adts.get(a)
        if ad is None:
            continue
        for v in ad["v"]:
            for f in v["f"]:
                for p in paths_in(f["ty"]):
                    if p in F.adts:
                        if p not in seen:
                            seen[p] = (a, f["n"])
                            st.append(p)
                    elif p in trait_ids:
                        for im in F.impls_of.get(p, []):
                            for q in paths_in(im["self"]):
                                if q in F.adts and q not in seen:
                                    seen[q] = (a, f["n"] + f" (dyn {p.split('::')[-1]})")
                                    st.append(q)
                    elif not p.startswith(WORKSPACE):
                        ext.add(p)
    return seen, ext


def witness(seen, a):
    path = [a.split("::")[-1]]
    while seen.get(a):
        a, f = seen[a]
        path.append(f"{a.split('::')[-1]}.{f}")
    return list(reversed(path))
