"""debug helper: python3 -m vv.show <fn-suffix> [--facts dir] — pretty prints MIR facts of matching functions"""
import sys

from . import extract, facts, mir


def pl(p):
    s = f"_{p['l']}"
    for e in p["p"]:
        if e == "*":
            s = f"(*{s})"
        elif isinstance(e, list) and e[0] == "f":
            s = f"{s}.{e[2]}"
        elif isinstance(e, list) and e[0] == "d":
            s = f"({s} as {e[1]})"
        elif isinstance(e, list) and e[0] == "i":
            s = f"{s}[_{e[1]}]"
        elif isinstance(e, list) and e[0] == "ci":
            s = f"{s}[{e[1]}]"
        else:
            s = f"{s}.?"
    if p.get("mv"):
        s = "move " + s
    return s


def op(o):
    if "l" in o:
        return pl(o)
    if "fn" in o:
        return "fn:" + o["fn"]
    return f"const {o.get('c')}"


def rv(r):
    k = r["k"]
    os_ = ", ".join(op(o) for o in r.get("o", []))
    if k == "use":
        return os_
    if k == "ref":
        return ("&mut " if r["mut"] else "&") + os_
    if k == "agg":
        return f"{r['ak']}:{r['n']}({os_})"
    if k == "bin":
        return f"{r['op']}({os_})"
    if k == "un":
        return f"{r['op']}({os_})"
    if k == "cast":
        return f"{os_} as {r['ty']}"
    if k == "discr":
        return f"discriminant({os_})"
    return f"{k}({os_}) {r.get('t', '')}"


def show(fn):
    print(f"fn {fn['id']}  [{fn['kind']}] {fn['span']} vis={fn['vis']} argc={fn['argc']}")
    for i, t in enumerate(fn["locals"]):
        nm = fn["names"].get(str(i), "")
        print(f"    let _{i}: {t}; {('// ' + nm) if nm else ''}")
    if fn.get("upvars"):
        print("    upvars:", fn["upvars"])
    for bi, bb in enumerate(fn["bbs"]):
        print(f"  bb{bi}:")
        for s in bb["s"]:
            print(f"      {pl(s['d'])} = {rv(s['r'])};   // L{s['ln']}{' x' if s['x'] else ''}")
        t = bb["t"]
        k = t["k"]
        if k == "call":
            c = t["callee"] or ("(" + pl(t["fp"]) + ")" if t.get("fp") else "?")
            print(f"      {pl(t['dest'])} = {c}<{', '.join(t['ga'])}>({', '.join(op(o) for o in t['args'])}) -> bb{t['tgt']}  [{t['how']}{' => ' + t['res'] if t['res'] else ''}] // L{t['ln']}")
        elif k == "switch":
            print(f"      switch {op(t['o'])} {[(v, 'bb%d' % b) for v, b in t['tg']]} else bb{t['else']}")
        elif k in ("goto", "drop"):
            print(f"      {k} -> bb{t['tgt']}" + (f" ({pl(t['o'])})" if k == "drop" else ""))
        elif k == "assert":
            print(f"      assert({op(t['o'])} == {t['exp']}) {t['m']} -> bb{t['tgt']}")
        else:
            print(f"      {k}")


def main():
    args = sys.argv[1:]
    fdir = None
    if "--facts" in args:
        i = args.index("--facts")
        fdir = args[i + 1]
        del args[i:i + 2]
    if fdir is None:
        fdir, _, _ = extract.ensure_facts()
    F = facts.Facts.load(fdir)
    for pat in args:
        hits = [i for i in F.fns if pat in i]
        for h in hits[:12]:
            show(F.fns[h])
            print()


if __name__ == "__main__":
    main()
