"""Shared helpers for rules."""
from . import cg, mir


def closure_site(F, root, cid):
    """block index in `root` where closure `cid` (possibly nested) is (transitively) constructed, or None"""
    # find the chain cid -> parent closure ... -> root
    target = cid
    for _ in range(12):
        holder = None
        for fid in F.family(root):
            fn = F.fns[fid]
            for bi, si, s in mir.stmts(fn):
                r = s["r"]
                if r["k"] == "agg" and r.get("ak") == "closure" and r["n"] == target:
                    holder = (fid, bi)
                    break
            if holder:
                break
        if holder is None:
            return None
        if holder[0] == root:
            return holder[1]
        target = holder[0]
    return None


def family_call_sites(F, root, pred):
    """All calls in root and its closures satisfying pred(term). Returns list of (fid, bi, term, root_block)
    where root_block is the block of `root` at which the call may execute (closure construction site)."""
    out = []
    for fid in F.family(root):
        fn = F.fns[fid]
        for bi, t in mir.calls(fn):
            if pred(t):
                rb = bi if fid == root else closure_site(F, root, fid)
                out.append((fid, bi, t, rb))
    return out


def callee_is(t, *names):
    c = t["callee"]
    r = t["res"]
    return c in names or (r and r in names)


def callee_ends(t, *suffixes):
    c = t["callee"]
    r = t["res"] or ""
    return any(c.endswith(s) or r.endswith(s) for s in suffixes)


def must_pass(fn, start_blocks, through_blocks, to_blocks=None):
    """True iff every path from any start block (after it) to a block in to_blocks (default: return blocks)
    enters a block in through_blocks. A start block that is itself in through_blocks counts only if
    the through-call comes after... (callers pass successors when needed)."""
    if to_blocks is None:
        to_blocks = mir.ret_blocks(fn)
    through = set(through_blocks)
    starts = []
    for b in start_blocks:
        starts.extend(mir.succs(fn)[b])
    r = mir.reach(fn, starts, blocked=through)
    return not (set(to_blocks) & r)


def dominated_by_blocks(fn, target_block, through_blocks):
    """True iff every path entry -> target_block enters a block of through_blocks first."""
    through = set(through_blocks) - {target_block}
    r = mir.reach(fn, [0], blocked=through)
    return target_block not in r


def reads_field(F, fids, adt_suffix, field):
    """does any function in fids read/write a place projecting through field `field` of ADT *adt_suffix"""
    for fid in fids:
        fn = F.fns.get(fid)
        if not fn:
            continue
        for p in all_places(fn):
            for a, f in mir.proj_fields(p):
                if f == field and a.endswith(adt_suffix):
                    return True
    return False


def all_places(fn):
    for bi, si, s in mir.stmts(fn):
        yield s["d"]
        for o in s["r"].get("o", []):
            if mir.is_place(o):
                yield o
    for bi, bb in enumerate(fn["bbs"]):
        t = bb["t"]
        if t["k"] == "call":
            yield t["dest"]
            for o in t["args"]:
                if mir.is_place(o):
                    yield o
        elif t["k"] in ("switch", "assert"):
            if mir.is_place(t["o"]):
                yield t["o"]
        elif t["k"] == "drop":
            yield t["o"]


def short_fn(fid):
    """compact printable name: drops crate/module prefix of inherent paths, keeps Type::method / <Type as Trait>::m"""
    from .facts import strip_generics
    s = strip_generics(fid)
    if s.startswith("<") and " as " in s:
        a, b = s[1:].split(" as ", 1)
        tr, rest = b.split(">::", 1)
        return f"<{a.split('::')[-1]} as {tr.split('::')[-1]}>::{rest}"
    parts = s.split("::")
    # keep the last two non-closure segments + closure suffixes
    i = len(parts) - 1
    tail = []
    while i >= 0 and parts[i].startswith("{"):
        tail.insert(0, parts[i])
        i -= 1
    head = parts[max(0, i - 1): i + 1]
    return "::".join(head + tail)
