"""C06 — insertion evaluation agrees with brute-force simulation: the soundness gate (structural clauses)."""
from .. import cg, mir, util
from ..facts import AnchorError
from . import c01, c02, c05

EVAL_MOD = c01.EVAL_MOD
LEG = EVAL_MOD + "::analyze_insertion_in_route_leg"
VIOL = "vrp_core::models::goal::ConstraintViolation"


def e1_exhaustive_scan(F, r):
    fn = F.fns.get(LEG)
    if fn is None:
        raise AnchorError(LEG)
    breaks = []
    conts = []
    for bi, si, s in mir.stmts(fn):
        rv = s["r"]
        if s["d"]["l"] == 0 and not s["d"]["p"] and rv["k"] == "agg" and rv.get("n", "").startswith("core::ops::control_flow::ControlFlow#"):
            (breaks if rv["n"].endswith("#Break") else conts).append((bi, s))
    if not conts:
        r.fail("leg analysis: Continue", "the leg analysis never continues to the next leg", F.loc(LEG))
    # gates: true edge of a switch on `violation.stopped`; or the leg-shape fallback (slice pattern mismatch)
    stop_edges = []
    for sb, bb in enumerate(fn["bbs"]):
        tt = bb["t"]
        if tt["k"] != "switch" or not mir.is_place(tt["o"]):
            continue
        roots = mir.trace(fn, tt["o"], through_calls=())
        if any(p[-1:] == ("stopped",) for k, v, p in roots):
            stop_edges.append((sb, tt["else"]))
    if not stop_edges:
        r.fail("leg analysis: stop flag", "no branch on violation.stopped: early termination of the leg scan is not tied to a `stopped` violation", F.loc(LEG))
        return
    entry_breaks = 0
    for bi, s in breaks:
        via_stop = bi not in mir.reach(fn, [0], blocked_edges=stop_edges)
        # the shape fallback returns before any place/time-window iteration: it is not inside a loop
        loops = mir.natural_loops(fn)
        in_loop = any(bi in body for body in loops.values())
        if via_stop:
            r.ok("leg analysis: Break", "scan aborted only on a `stopped` violation")
        elif not in_loop:
            entry_breaks += 1
            r.ok("leg analysis: Break (leg shape)", "malformed leg: nothing to scan")
        else:
            r.fail("leg analysis: Break", "the scan over places/time windows/legs can be aborted without a `stopped` violation: feasible positions behind it are never tried (exhaustive mode reports failure although a position exists)", F.loc(LEG, s["ln"]))
    # a non-stopped violation continues with the next time window / place: the false edge of the stop test leads back into the loop, not to a return
    for sb, tgt in stop_edges:
        tt = fn["bbs"][sb]["t"]
        false_t = [tb for v, tb in tt["tg"] if v == 0]
        if false_t:
            loops = mir.natural_loops(fn)
            hdrs = set(loops)
            reach_f = mir.reach(fn, false_t, blocked=[sb])
            if hdrs & reach_f:
                r.ok("leg analysis: non-stopped violation", "continues with the next time window / place")
            else:
                r.fail("leg analysis: non-stopped violation", "a non-stopped violation leaves the scan instead of continuing", F.loc(LEG))
    # exhaustive arm of sample_best: legs().skip(skip).try_fold(init, |acc, leg| map_fn(leg, acc)) — nothing else limits the legs
    sb_ = F.find1("LegSelection::sample_best")
    sfn = F.fns[sb_]
    gsd = F.find1("LegSelection::get_sample_data")
    calls = [bi for bi, t in mir.calls(sfn) if (t["res"] or t["callee"]) == gsd]
    if len(calls) != 1:
        raise AnchorError("sample_best: get_sample_data call")
    none_edge = mir.variant_edge(mir.option_edges(sfn, calls[0]), 0)
    if none_edge is None:
        raise AnchorError("sample_best: match")
    arm = mir.reach(sfn, [none_edge[1]], blocked=[none_edge[0]])
    names = [sfn["bbs"][b]["t"]["callee"].split("::")[-1] for b in sorted(arm) if sfn["bbs"][b]["t"]["k"] == "call" and "Iterator" in sfn["bbs"][b]["t"]["callee"]]
    limiting = [n for n in names if n in ("take", "take_while", "step_by", "filter", "skip_while", "nth", "find", "rev")]
    if "try_fold" in names and not limiting:
        r.ok("sample_best: exhaustive arm", f"legs().{'.'.join(names)}: every leg from `skip` on is folded")
    else:
        r.fail("sample_best: exhaustive arm", f"the exhaustive leg scan is limited by {limiting or 'a missing try_fold'}: not every leg is evaluated", F.loc(sb_))


def run(ctx):
    ctx.explanation = (
        "Soundness gate of the insertion evaluator: a reported success was evaluated by the complete constraint set on exactly that move on activity and "
        "route level (C01-G1/G2/G3), the multi-job shadow route is refreshed between sub-insertions (C05-I1), and in exhaustive mode the scan over "
        "legs/places/time windows is aborted only by a `stopped` violation while every leg from the skip index on is folded (E1). The time-window constraint "
        "is evaluated over all orderings of the values it compares (W1): a position is admitted iff no arrival is after its latest time and the shift covers the "
        "windows, and the scan-aborting `fail` verdict is only raised on facts that do not involve the arrival at the target (completeness of the exhaustive scan "
        "w.r.t. time windows); can_fit is exactly `load <= capacity` per dimension and is asked the right way round (O3/O4).")
    ctx.not_decided = ("completeness (`fails only if no feasible position exists`) rests on the semantic correctness of each feature's `stopped` flag and of the O(1) "
                       "summaries — value-level; equality with an independent simulation.")
    ctx.run("C01-G1", "activity-level gate", c01.g1_activity_gate, floor=1)
    ctx.run("C01-G2", "route-level gate", c01.g2_route_gate, floor=2)
    ctx.run("C01-G3", "success construction", c01.g3_success_construction, floor=12)
    ctx.run("C05-I1", "shadow insertion followed by accept_route_state", c05.i1_insert_then_accept, floor=2)
    ctx.run("C06-E1", "exhaustive scan: aborted only on `stopped`; every leg folded", e1_exhaustive_scan, floor=4)
    ctx.run("C01-W1", "time windows: admitted iff no arrival after its latest time; the scan is aborted (fail) only on target-independent facts", c01.w1_time_window_law, floor=1)
    ctx.run("C01-C1", "capacity: demand parts vs their load summaries; violation iff some load does not fit; abort only for static delivery", c01.c1_capacity_law, floor=5)
    ctx.run("C05-R1", "schedule recurrence of the forward pass", c05.r1_schedule_recurrence, floor=1)
    ctx.run("C01-D1", "routing legs are queried in travel direction (prev -> target -> next)", c01.d1_leg_direction, floor=4)
    ctx.run("C05-R4", "capacity summaries recurrence (feeds the capacity gate)", c05.r4_capacity_recurrence, floor=1)
    ctx.run("C05-R3", "activity time formulas (estimate_departure / estimate_arrival)", c05.r3_activity_time_formulas, floor=2)
    ctx.run("C05-R2", "latest-arrival recurrence of the backward pass (feeds the time-window gate)", c05.r2_latest_arrival_recurrence, floor=1)
    ctx.run("C01-O3", "can_fit(capacity, load) iff load <= capacity in every dimension", c01.o3_can_fit_law, floor=7)
    ctx.run("C01-O4", "can_fit asked of the capacity about the load", c01.o4_can_fit_roles, floor=8)
    ctx.run("C02-O1", "leg search honours the start index (sub-jobs left to right)", c02.o1_subjob_order, floor=3)
