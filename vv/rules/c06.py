"""C06 — insertion evaluation agrees with brute-force simulation: the soundness gate (structural clauses)."""
from .. import cg, mir, util
from ..facts import AnchorError
from . import c01, c02, c05

EVAL_MOD = c01.EVAL_MOD
LEG = EVAL_MOD + "::analyze_insertion_in_route_leg"
VIOL = "vrp_core::models::goal::ConstraintViolation"


def e1_exhaustive_scan(F, r):
    fn = F.fns.get(LEG)
    if fn is None:
        raise AnchorError(LEG)
    breaks = []
    conts = []
    for bi, si, s in mir.stmts(fn):
        rv = s["r"]
        if s["d"]["l"] == 0 and not s["d"]["p"] and rv["k"] == "agg" and rv.get("n", "").startswith("core::ops::control_flow::ControlFlow#"):
            (breaks if rv["n"].endswith("#Break") else conts).append((bi, s))
    if not conts:
        r.fail("leg analysis: Continue", "the leg analysis never continues to the next leg", F.loc(LEG))
    # gates: true edge of a switch on `violation.stopped`; or the leg-shape fallback (slice pattern mismatch)
    stop_edges = []
    for sb, bb in enumerate(fn["bbs"]):
        tt = bb["t"]
        if tt["k"] != "switch" or not mir.is_place(tt["o"]):
            continue
        roots = mir.trace(fn, tt["o"], through_calls=())
        if any(p[-1:] == ("stopped",) for k, v, p in roots):
            stop_edges.append((sb, tt["else"]))
    if not stop_edges:
        r.fail("leg analysis: stop flag", "no branch on violation.stopped: early termination of the leg scan is not tied to a `stopped` violation", F.loc(LEG))
        return
    entry_breaks = 0
    for bi, s in breaks:
        via_stop = bi not in mir.reach(fn, [0], blocked_edges=stop_edges)
        # the shape fallback returns before any place/time-window iteration: it is not inside a loop
        loops = mir.natural_loops(fn)
        in_loop = any(bi in body for body in loops.values())
        if via_stop:
            r.ok("leg analysis: Break", "scan aborted only on a `stopped` violation")
        elif not in_loop:
            entry_breaks += 1
            r.ok("leg analysis: Break (leg shape)", "malformed leg: nothing to scan")
        else:
            r.fail("leg analysis: Break", "the scan over places/time windows/legs can be aborted without a `stopped` violation: feasible positions behind it are never tried (exhaustive mode reports failure although a position exists)", F.loc(LEG, s["ln"]))
    # a non-stopped violation continues with the next time window / place: the false edge of the stop test leads back into the loop, not to a return
    for sb, tgt in stop_edges:
        tt = fn["bbs"][sb]["t"]
        false_t = [tb for v, tb in tt["tg"] if v == 0]
        if false_t:
            loops = mir.natural_loops(fn)
            hdrs = set(loops)
            reach_f = mir.reach(fn, false_t, blocked=[sb])
            if hdrs & reach_f:
                r.ok("leg analysis: non-stopped violation", "continues with the next time window / place")
            else:
                r.fail("leg analysis: non-stopped violation", "a non-stopped violation leaves the scan instead of continuing", F.loc(LEG))
    # exhaustive arm of sample_best: legs().skip(skip).try_fold(init, |acc, leg| map_fn(leg, acc)) — nothing else limits the legs
    sb_ = F.find1("LegSelection::sample_best")
    sfn = F.fns[sb_]
    gsd = F.find1("LegSelection::get_sample_data")
    calls = [bi for bi, t in mir.calls(sfn) if (t["res"] or t["callee"]) == gsd]
    if len(calls) != 1:
        raise AnchorError("sample_best: get_sample_data call")
    none_edge = mir.variant_edge(mir.option_edges(sfn, calls[0]), 0)
    if none_edge is None:
        raise AnchorError("sample_best: match")
    arm = mir.reach(sfn, [none_edge[1]], blocked=[none_edge[0]])
    names = [sfn["bbs"][b]["t"]["callee"].split("::")[-1] for b in sorted(arm) if sfn["bbs"][b]["t"]["k"] == "call" and "Iterator" in sfn["bbs"][b]["t"]["callee"]]
    limiting = [n for n in names if n in ("take", "take_while", "step_by", "filter", "skip_while", "nth", "find", "rev")]
    loop_form = False
    if "try_fold" not in names and "next" in names:
        loops = mir.natural_loops(sfn)
        bodies = loops.values() if isinstance(loops, dict) else loops
        nxt = [b for b in arm if sfn["bbs"][b]["t"]["k"] == "call" and sfn["bbs"][b]["t"]["callee"].endswith("Iterator::next")]
        mapc = [b for b in arm if sfn["bbs"][b]["t"]["k"] == "call" and sfn["bbs"][b]["t"]["callee"].split("::")[-1] in ("call_mut", "call", "call_once")]
        loop_form = any(any(b in body for b in nxt) and any(b in body for b in mapc) for body in bodies)
    if "try_fold" in names and not limiting:
        r.ok("sample_best: exhaustive arm", f"legs().{'.'.join(names)}: every leg from `skip` on is folded")
    elif loop_form and not limiting:
        r.ok("sample_best: exhaustive arm", "explicit loop: every leg from `skip` on is handed to the leg analysis (loop over next() calling the map function)")
    else:
        r.fail("sample_best: exhaustive arm", f"the exhaustive leg scan is limited by {limiting or 'a missing try_fold'}: not every leg is evaluated", F.loc(sb_))


MC = "vrp_core::construction::heuristics::evaluators::MultiContext"


def p1_promote_law(F, r):
    """multi-job search keeps the cheaper of two candidate placements: MultiContext::promote returns the operand with the smaller cost, an operand with a cost beats one
    without, of two failures the one carrying the violation; it aborts (Break) iff the kept violation is a stopping one"""
    from .. import ordeval as oe
    pr = MC + "::promote"
    if pr not in F.fns or MC not in F.adts:
        raise AnchorError(pr)

    def mc(tag, cost, viol):
        v = oe.NONE if viol is None else oe.some(("agg", "vrp_core::models::goal::ConstraintViolation#ConstraintViolation", {"code": oe.sym(tag + "_code"), "stopped": ("bool", viol)}))
        return ("agg", MC + "#MultiContext", {"violation": v, "start_index": oe.sym(tag + "_si"), "next_index": oe.sym(tag + "_ni"),
                                             "cost": (oe.some(oe.sym(tag + "_cost")) if cost else oe.NONE), "activities": oe.sym(tag + "_acts")})
    helpers = {i for i, f in F.fns.items() if i.startswith(MC + "::") and f["kind"] != "Closure" and "::promoted[" not in i and i != pr}     # e.g. an extracted select_best
    for lc in (0, 1):
        for rc in (0, 1):
            for lv in (None, False, True):
                for rv in (None, False, True):
                    if (lc and lv is not None) or (rc and rv is not None):
                        continue       # a candidate with a cost carries no violation
                    it = oe.Interp(F, pr, {1: mc("l", lc, lv), 2: mc("r", rc, rv)}, fresh=True, enum_results=True, inline=helpers)
                    inst0 = f"promote [left cost={'Some' if lc else 'None'}{'' if lv is None else ',viol'+('!' if lv else '')}; right cost={'Some' if rc else 'None'}{'' if rv is None else ',viol'+('!' if rv else '')}]"
                    try:
                        paths = it.explore()
                    except oe.Undecided as e:
                        r.fail(inst0, f"not evaluable: {e}", F.loc(pr))
                        continue
                    for p in paths:
                        rel = [a[2] for a in p.assumptions if len(a) == 3 and isinstance(a[2], str) and a[0] != "switch" and a[2] in "LEG"]
                        if not (p.ret and p.ret[0] == "cf" and p.ret[2] and p.ret[2][0] == "agg"):
                            r.fail(inst0, f"unrecognised result {str(p.ret)[:80]}", F.loc(pr))
                            continue
                        kept = p.ret[2][2]
                        acts = kept.get("activities")
                        side = "left" if acts == oe.sym("l_acts") else ("right" if acts == oe.sym("r_acts") else "?")
                        consistent = (kept.get("cost") == (oe.some(oe.sym("l_cost")) if lc else oe.NONE)) if side == "left" else ((kept.get("cost") == (oe.some(oe.sym("r_cost")) if rc else oe.NONE)) if side == "right" else False)
                        inst = inst0 + (f" left{'<=>'['LEG'.index(rel[0])]}right" if rel else "")
                        if not consistent:
                            r.fail(inst, "the promoted candidate mixes fields of both operands (cost of one, activities of the other)", F.loc(pr))
                            continue
                        if lc and rc:
                            want = {"L": ("left",), "G": ("right",), "E": ("left", "right")}.get(rel[0] if rel else "?", ())
                        elif lc:
                            want = ("left",)
                        elif rc:
                            want = ("right",)
                        elif lv is not None and rv is None:
                            want = ("left",)
                        elif rv is not None and lv is None:
                            want = ("right",)
                        else:
                            want = ("left", "right")
                        if side not in want:
                            r.fail(inst, f"keeps the {side} candidate, expected {' or '.join(want)}: the cheaper (or the only priced / the violating) candidate must survive", F.loc(pr))
                            continue
                        kv = lv if side == "left" else rv
                        should_break = kv is True
                        if (p.ret[1] == "Break") != should_break:
                            r.fail(inst, f"{p.ret[1]} although the kept candidate's violation is {'a stopping one' if should_break else 'absent / not stopping'}", F.loc(pr))
                        else:
                            r.ok(inst, f"keeps {side}; {p.ret[1]}")


def s1_stale_routes_are_evaluated(F, r):
    """completeness: the `this job already failed here` shortcut of eval_job_insertion_in_route may skip the evaluation only for an UNMODIFIED route (is_stale() == false);
    from the `stale` edge every path to a return passes the route-level goal evaluation — a job that failed before is tried again on every tour that changed since"""
    fid = F.find1("evaluators::eval_job_insertion_in_route")
    fn = F.fns[fid]
    st = [bi for bi, t in mir.calls(fn) if t["callee"].endswith("RouteContext::is_stale")]
    ev = [bi for bi, t in mir.calls(fn) if t["callee"].endswith("::evaluate") and "goal" in t["callee"].lower()]
    if not ev:
        raise AnchorError("eval_job_insertion_in_route: no goal evaluation")
    rets = set(mir.ret_blocks(fn))
    if not st:
        # no staleness shortcut: every return must pass the evaluation
        if rets & mir.reach(fn, [0], blocked=ev):
            r.fail("eval_job_insertion_in_route: shortcut", "a return is reachable without the route-level evaluation although the route's staleness is not consulted", F.loc(fid))
        else:
            r.ok("eval_job_insertion_in_route: shortcut", "no shortcut: every return passes the goal evaluation")
        return
    # every return that skips the evaluation lies behind the FALSE edge of a switch on the staleness flag (tested directly, or as a component of the matched tuple)
    false_edges = []
    for sb, bb in enumerate(fn["bbs"]):
        tt = bb["t"]
        if tt["k"] != "switch" or not mir.is_place(tt["o"]):
            continue
        e_ = mir.expr(fn, tt["o"])
        if any(k == "call" and v in st for k, v, p_ in mir.trace(fn, tt["o"])) or (e_[0][0] == "call" and e_[0][1].endswith("RouteContext::is_stale") and not e_[1]):
            zero = [tb for v, tb in tt["tg"] if v == 0]
            if zero:
                false_edges.append((sb, zero[0]))
    if not false_edges:
        if rets & mir.reach(fn, [0], blocked=ev):
            r.fail("eval_job_insertion_in_route: shortcut", "a return skips the route-level evaluation and the staleness flag is never branched on: a job that failed earlier is not evaluated "
                   "against a tour that has changed since", F.loc(fid))
        else:
            r.ok("eval_job_insertion_in_route: shortcut", "no shortcut: every return passes the goal evaluation")
        return
    if rets & mir.reach(fn, [0], blocked=ev, blocked_edges=false_edges):
        r.fail("eval_job_insertion_in_route: shortcut", "a return is reachable without the route-level goal evaluation and without the route being found UNMODIFIED (is_stale() == false): a job "
               "that failed earlier is not evaluated against a tour that has changed since, so exhaustive insertion reports failure although a feasible position exists", F.loc(fid))
    else:
        r.ok("eval_job_insertion_in_route: shortcut", "the evaluation is skipped only for an unmodified route; a stale route is always evaluated")


def run(ctx):
    ctx.explanation = (
        "Soundness gate of the insertion evaluator: a reported success was evaluated by the complete constraint set on exactly that move on activity and "
        "route level (C01-G1/G2/G3), the multi-job shadow route is refreshed between sub-insertions (C05-I1), and in exhaustive mode the scan over "
        "legs/places/time windows is aborted only by a `stopped` violation while every leg from the skip index on is folded (E1). The time-window constraint "
        "is evaluated over all orderings of the values it compares (W1): a position is admitted iff no arrival is after its latest time and the shift covers the "
        "windows, and the scan-aborting `fail` verdict is only raised on facts that do not involve the arrival at the target (completeness of the exhaustive scan "
        "w.r.t. time windows); can_fit is exactly `load <= capacity` per dimension and is asked the right way round (O3/O4).")
    ctx.explanation += ' The `already failed` shortcut of eval_job_insertion_in_route skips the evaluation only behind the false edge of is_stale() (S1: a stale route is always evaluated).'
    ctx.not_decided = ("completeness (`fails only if no feasible position exists`) rests on the semantic correctness of each feature's `stopped` flag and of the O(1) "
                       "summaries — value-level; equality with an independent simulation.")
    ctx.run("C01-G1", "activity-level gate", c01.g1_activity_gate, floor=1)
    ctx.run("C01-G2", "route-level gate", c01.g2_route_gate, floor=2)
    ctx.run("C01-G3", "success construction", c01.g3_success_construction, floor=12)
    ctx.run("C05-I1", "shadow insertion followed by accept_route_state", c05.i1_insert_then_accept, floor=2)
    ctx.run("C06-S1", "the `already failed` shortcut skips the evaluation only for unmodified routes", s1_stale_routes_are_evaluated, floor=1)
    ctx.run("C06-E1", "exhaustive scan: aborted only on `stopped`; every leg folded", e1_exhaustive_scan, floor=4)
    ctx.run("C06-P1", "multi-job search keeps the cheaper candidate (MultiContext::promote law, finite evaluation)", p1_promote_law, floor=15)
    ctx.run("C01-W1", "time windows: admitted iff no arrival after its latest time; the scan is aborted (fail) only on target-independent facts", c01.w1_time_window_law, floor=1)
    ctx.run("C01-C1", "capacity: demand parts vs their load summaries; violation iff some load does not fit; abort only for static delivery", c01.c1_capacity_law, floor=5)
    ctx.run("C05-R1", "schedule recurrence of the forward pass", c05.r1_schedule_recurrence, floor=1)
    ctx.run("C01-D1", "routing legs are queried in travel direction (prev -> target -> next)", c01.d1_leg_direction, floor=4)
    ctx.run("C05-R4", "capacity summaries recurrence (feeds the capacity gate)", c05.r4_capacity_recurrence, floor=1)
    ctx.run("C05-R3", "activity time formulas (estimate_departure / estimate_arrival)", c05.r3_activity_time_formulas, floor=2)
    ctx.run("C05-R2", "latest-arrival recurrence of the backward pass (feeds the time-window gate)", c05.r2_latest_arrival_recurrence, floor=1)
    ctx.run("C01-O3", "can_fit(capacity, load) iff load <= capacity in every dimension", c01.o3_can_fit_law, floor=4)
    ctx.run("C01-O4", "can_fit asked of the capacity about the load", c01.o4_can_fit_roles, floor=8)
    ctx.run("C02-O1", "leg search honours the start index (sub-jobs left to right)", c02.o1_subjob_order, floor=3)
