"""C11 — documents survive round trips: serde symmetry of the document models (narrow structural clauses)."""
import re

from .. import mir, util
from ..facts import AnchorError

MODEL_FILES = ("vrp-pragmatic/src/format/problem/model.rs", "vrp-pragmatic/src/format/solution/model.rs", "vrp-pragmatic/src/format/mod.rs")
FORBIDDEN = ("skip", "skip_serializing", "skip_deserializing", "serialize_with", "deserialize_with", "with", "flatten", "from", "into", "try_from", "other", "getter", "remote")
NUM = {"f64", "f32", "Float", "i8", "i16", "i32", "i64", "u8", "u16", "u32", "u64", "usize", "isize", "Timestamp", "Duration", "Distance", "Cost"}


ROOTS = ("Problem", "Matrix", "Solution")


def _types(F):
    """document types: reachable from Problem / Matrix / Solution through field types (within the model files)"""
    allt = {}
    for a in F.attrs:
        if a["t"] == "type" and a["file"] in MODEL_FILES:
            allt[a["name"]] = a
    missing = [x for x in ROOTS if x not in allt]
    if missing:
        raise AnchorError(f"document root types not found: {missing}")
    seen = set()
    st = list(ROOTS)
    while st:
        n = st.pop()
        if n in seen or n not in allt:
            continue
        seen.add(n)
        t = allt[n]
        tys = [f["ty"] for f in t["fields"]] + [f["ty"] for v in t["variants"] for f in v["fields"]]
        for ty in tys:
            for ident in re.findall(r"[A-Za-z_][A-Za-z0-9_]*", ty):
                if ident in allt and ident not in seen:
                    st.append(ident)
    return {n: allt[n] for n in seen}


def _attr_name(a):
    return re.split(r"[=(\s]", a.strip(), 1)[0]


def _rename_sides(a):
    """rename (serialize = "x", deserialize = "y") -> {'serialize': 'x', 'deserialize': 'y'} ; rename = "x" -> {'both': 'x'}"""
    m = re.match(r'rename\s*=\s*"([^"]*)"', a)
    if m:
        return {"both": m.group(1)}
    out = {}
    for side, val in re.findall(r'(serialize|deserialize)\s*=\s*"([^"]*)"', a):
        out[side] = val
    return out


def s1_symmetry(F, r):
    ts = _types(F)
    if len(ts) < 40:
        raise AnchorError(f"only {len(ts)} model types scanned")
    n_skip = 0
    for name, t in sorted(ts.items()):
        d = set(t["derives"])
        ser, de = "Serialize" in d, "Deserialize" in d
        if not ser and not de:
            continue  # helper type that is not part of a document
        if ser != de:
            r.fail(f"{name}: derives", f"type derives only {'Serialize' if ser else 'Deserialize'}: documents containing it cannot make a round trip", f"{t['file']}:{t['line']}")
        else:
            r.ok(f"{name}: derives", "Serialize + Deserialize")

        def check(where, attrs, ty=None):
            nonlocal n_skip
            for a in attrs:
                nm = _attr_name(a)
                inst = f"{name}{where}: {nm}"
                if nm in FORBIDDEN:
                    r.fail(inst, f"one-sided or shape-changing serde attribute `{a}`: written and parsed documents differ", f"{t['file']}:{t['line']}")
                elif nm == "rename":
                    sides = _rename_sides(a)
                    if "both" in sides or (sides.get("serialize") is not None and sides.get("serialize") == sides.get("deserialize")):
                        r.ok(inst, a.replace(" ", ""))
                    else:
                        r.fail(inst, f"asymmetric rename `{a}`: the name written is not the name parsed", f"{t['file']}:{t['line']}")
                elif nm == "skip_serializing_if":
                    n_skip += 1
                    tyc = (ty or "").replace(" ", "")
                    if '"Option::is_none"' in a.replace(" ", "") and tyc.startswith("Option<"):
                        r.ok(inst, "Option field omitted when None, parsed back as None")
                    else:
                        r.fail(inst, f"`{a}` on a field of type `{ty}`: an omitted value is not restored on parsing (only Option::is_none on Option fields is symmetric)", f"{t['file']}:{t['line']}")
                elif nm in ("default", "alias", "rename_all", "tag", "untagged", "deny_unknown_fields", "content"):
                    r.skip()
                else:
                    r.fail(inst, f"unclassified serde attribute `{a}`", f"{t['file']}:{t['line']}")
        check("", t["serde"])
        for f in t["fields"]:
            check(f".{f['name']}", f["serde"], f["ty"])
        for v in t["variants"]:
            check(f"::{v['name']}", v["serde"])
            for f in v["fields"]:
                check(f"::{v['name']}.{f['name']}", f["serde"], f["ty"])
    if n_skip < 40:
        r.fail("skip_serializing_if count", f"only {n_skip} skip_serializing_if attributes seen (expected >= 40): scan incomplete")


def _kind(ty, ts, depth=0):
    """JSON kinds a value of this Rust type can serialise to: set of 'string','number','bool','null','object:<name>', ('array', frozenset(kinds))"""
    t = ty.replace(" ", "")
    if t.startswith("Option<") and t.endswith(">"):
        return _kind(t[7:-1], ts, depth) | {"null"}
    if t.startswith("Vec<") and t.endswith(">"):
        return {("array", frozenset(_kind(t[4:-1], ts, depth + 1)))}
    if t.startswith("(") and t.endswith(")"):
        return {("array", frozenset({"any"}))}
    if t in ("String", "&str", "str"):
        return {"string"}
    if t in NUM:
        return {"number"}
    if t == "bool":
        return {"bool"}
    if t.startswith("HashMap<") or t.startswith("BTreeMap<"):
        return {"object:map"}
    tt = ts.get(t)
    if tt is None or depth > 6:
        return {"any"}
    if tt["kind"] == "struct":
        return {"object:" + t}
    if "untagged" in tt["serde"]:
        out = set()
        for v in tt["variants"]:
            if v["shape"] == "named":
                out.add("object:" + t + "::" + v["name"])
            elif v["shape"] == "tuple" and len(v["fields"]) == 1:
                out |= _kind(v["fields"][0]["ty"], ts, depth + 1)
            else:
                out.add("any")
        return out
    if any(a.startswith("tag") for a in tt["serde"]):
        return {"object:" + t}
    if all(v["shape"] == "unit" for v in tt["variants"]):
        return {"string"}
    return {"object:" + t}


def _compatible(ka, kb):
    if "any" in ka or "any" in kb:
        return True
    for a in ka:
        for b in kb:
            if a == b:
                return True
            if isinstance(a, tuple) and isinstance(b, tuple):
                if not a[1] or not b[1] or _compatible(set(a[1]), set(b[1])):
                    return True
            if isinstance(a, str) and isinstance(b, str) and a.startswith("object:") and b.startswith("object:"):
                return True  # objects: decided on field level by the caller when both are known structs
    return False


def _fields_of_variant(v, ts):
    """(field name -> (type, required, always_written)) for a struct-like view of the variant"""
    if v["shape"] == "named":
        fs = v["fields"]
    elif v["shape"] == "tuple" and len(v["fields"]) == 1:
        inner = ts.get(v["fields"][0]["ty"].replace(" ", ""))
        if inner is None or inner["kind"] != "struct":
            return None
        fs = inner["fields"]
    else:
        return None
    out = {}
    for f in fs:
        ty = f["ty"].replace(" ", "")
        opt = ty.startswith("Option<")
        has_default = any(_attr_name(a) == "default" for a in f["serde"])
        skipped = any(_attr_name(a) == "skip_serializing_if" for a in f["serde"])
        nm = f["name"]
        for a in f["serde"]:
            if _attr_name(a) == "rename":
                s = _rename_sides(a)
                nm = s.get("both") or s.get("serialize") or nm
        out[nm] = (f["ty"], not opt and not has_default, not skipped)
    return out


def s2_untagged(F, r):
    ts = _types(F)
    n = 0
    for name, t in sorted(ts.items()):
        if t["kind"] != "enum":
            continue
        if "untagged" in t["serde"]:
            vs = t["variants"]
            for i in range(len(vs)):
                for j in range(i + 1, len(vs)):
                    A, B = vs[i], vs[j]
                    n += 1
                    inst = f"{name}: {B['name']} vs earlier {A['name']}"
                    fa, fb = _fields_of_variant(A, ts), _fields_of_variant(B, ts)
                    if fa is not None and fb is not None:
                        req = [f for f, (ty, required, _) in fa.items() if required]
                        why = None
                        for f in req:
                            if f not in fb or not fb[f][2]:
                                why = f"required field `{f}` of {A['name']} is absent from {B['name']}"
                                break
                            if not _compatible(_kind(fa[f][0], ts), _kind(fb[f][0], ts) - {"null"}):
                                why = f"field `{f}` has disjoint JSON kinds"
                                break
                        if why:
                            r.ok(inst, why)
                        else:
                            r.fail(inst, f"a {B['name']} value serialises to JSON that the earlier untagged variant {A['name']} accepts "
                                         f"(all its required fields {req} are present with compatible kinds): the document changes variant on re-reading",
                                   f"{t['file']}:{t['line']}")
                    else:
                        ka = set().union(*[_kind(f["ty"], ts) for f in A["fields"]]) if A["fields"] else {"null"}
                        kb = set().union(*[_kind(f["ty"], ts) for f in B["fields"]]) if B["fields"] else {"null"}
                        if not _compatible(ka, kb):
                            r.ok(inst, "disjoint JSON kinds")
                        else:
                            r.fail(inst, f"untagged variants {A['name']} and {B['name']} serialise to compatible JSON kinds: not distinguishable on re-reading", f"{t['file']}:{t['line']}")
        elif any(a.startswith("tag") for a in t["serde"]):
            names = []
            ra = [a for a in t["serde"] if a.startswith("rename_all")]
            for v in t["variants"]:
                nm = v["name"]
                for a in v["serde"]:
                    if _attr_name(a) == "rename":
                        s = _rename_sides(a)
                        nm = s.get("both") or s.get("serialize") or nm
                names.append(nm.lower().replace("-", "").replace("_", ""))
            n += 1
            if len(set(names)) == len(names):
                r.ok(f"{name}: tags", f"{len(names)} unique variant tags")
            else:
                r.fail(f"{name}: tags", "two variants serialise with the same tag", f"{t['file']}:{t['line']}")
    if n < 8:
        raise AnchorError(f"only {n} enum obligations")


def s4_csv_liveness(F, r):
    recs = {a: ad for a, ad in F.adts.items() if a.startswith("vrp_cli::extensions::import::csv") and a.split("::")[-1].startswith("Csv")}
    if len(recs) < 2:
        raise AnchorError(f"CSV records: {len(recs)}")
    for a, ad in sorted(recs.items()):
        reads = set()
        for fid, fn in F.fns.items():
            if not fid.lstrip("<").startswith("vrp_cli::extensions::import"):
                continue
            if fn["impl_trait"].endswith("Deserialize") or "_::" in fid or fn["impl_trait"].endswith("fmt::Debug"):
                continue
            for p in util.all_places(fn):
                for ad_, f in mir.proj_fields(p):
                    if ad_ == a:
                        reads.add(f)
        for f in ad["v"][0]["f"]:
            inst = f"{a.split('::')[-1]}.{f['n']}"
            if f["n"] in reads:
                r.ok(inst, "column consumed when the problem is built")
            else:
                r.fail(inst, "CSV column is parsed but never used when the problem is built: imported problem does not carry the table's data", ad["span"])


DROPPING_TYPES = ("adapters::filter::", "adapters::filter_map::", "adapters::skip::", "adapters::take::", "adapters::skip_while::", "adapters::take_while::",
                  "adapters::step_by::", "adapters::map_while::")
CONSUMERS = ("try_for_each", "try_fold", "for_each", "fold", "map", "flat_map", "collect", "next")   # `next`: the walk written as a `for` loop


def i1_reader_visits_everything(F, r):
    """re-reading a solution: every tour, every stop of a tour and every activity of a stop is visited (no skip / take / filter on these walks)"""
    root = "vrp_pragmatic::format::solution::initial_reader::read_init_solution"
    if root not in F.fns:
        raise AnchorError(root)
    seen = {}
    for g in F.family(root):
        fn = F.fns[g]
        for bi, t in mir.calls(fn):
            last = t["callee"].split("::")[-1]
            if last not in CONSUMERS or not t["callee"].startswith("core::iter::traits::iterator::Iterator::") or not t["ga"]:
                continue
            ty = t["ga"][0]
            for what in ("Tour", "Stop", "Activity"):
                if f"solution::model::{what}>" in ty or f"solution::model::{what}," in ty:
                    bad = [d.split("::")[1] for d in DROPPING_TYPES if d in ty]
                    key = f"read_init_solution: walk over {what.lower()}s"
                    if bad:
                        r.fail(key, f"the walk over the {what.lower()}s of the document drops elements ({', '.join(bad)}): activities that the writer put there (e.g. a job served at the "
                               "depot inside the departure stop) silently vanish from the re-read solution", F.loc(g, t["ln"]))
                        seen[what] = "bad"
                    elif seen.get(what) != "bad":
                        seen[what] = "ok"
    for what in ("Tour", "Stop", "Activity"):
        if what not in seen:
            r.fail(f"read_init_solution: walk over {what.lower()}s", f"no walk over the {what.lower()}s of the solution document was found", F.loc(root))
        elif seen[what] == "ok":
            r.ok(f"read_init_solution: walk over {what.lower()}s", "complete (no element-dropping adapter)")


ADJACENT_GROUPING = ("chunk_by", "chunk_by_mut", "group_by", "dedup", "dedup_by", "dedup_by_key", "chunks", "windows")


def i2_csv_grouping(F, r):
    """CSV import: the rows of one job are collected by id, wherever they stand in the table (no adjacency-based grouping)"""
    n = 0
    keyed = 0
    for fid, fn in sorted(F.fns.items()):
        if "::promoted[" in fid or not F.fns.get(F.root_of(fid), fn)["module"].startswith("vrp_cli::extensions::import"):
            continue
        for bi, t in mir.calls(fn):
            n += 1
            last = t["callee"].split("::")[-1]
            if last in ADJACENT_GROUPING and ("slice" in t["callee"] or "Vec" in t["callee"] or "itertools" in t["callee"].lower()):
                r.fail(f"{util.short_fn(F.root_of(fid))}: {last}", f"`{last}` groups only ADJACENT rows: a job whose rows are not contiguous in the table is imported as several jobs with the same id "
                       "(the problem no longer carries the tables' data)", F.loc(fid, t["ln"]))
            if last == "entry" and "HashMap" in t["callee"] or last == "entry" and "BTreeMap" in t["callee"]:
                keyed += 1
    if n < 50:
        raise AnchorError(f"only {n} calls found in the CSV import module")
    if keyed:
        r.ok("csv import: grouping", f"rows are grouped through a keyed map ({keyed} entry() site(s)); no adjacency-based grouping")
    else:
        r.ok("csv import: grouping", "no adjacency-based grouping")


def b1_break_ids_consecutive(F, r):
    """optional breaks of a shift become jobs `{vehicle}_break_{shift}_{k}`; the re-reader probes k = 1, 2, ... and stops at the first id it does not find, so the ids must be
    CONSECUTIVE over the optional breaks: the counter is paired with the breaks AFTER the required ones are filtered out (decided on the iterator types of the zip)"""
    root = "vrp_pragmatic::format::problem::job_reader::read_optional_breaks"
    if root not in F.fns:
        raise AnchorError(root)
    n = 0
    for g in F.family(root):
        fn = F.fns[g]
        for bi, t in mir.calls(fn):
            last = t["callee"].split("::")[-1]
            if last not in ("zip", "enumerate") or not t["callee"].startswith("core::iter::traits::iterator::Iterator::") or not t["ga"]:
                continue
            tys = " | ".join(t["ga"])
            if "model::VehicleBreak" not in tys:
                continue
            n += 1
            filtered = "adapters::filter_map::" in tys or "adapters::filter::" in tys
            if filtered:
                r.ok("read_optional_breaks: break numbering", "optional breaks are numbered after the required ones are filtered out (ids _1, _2, ... without gaps)")
            else:
                r.fail("read_optional_breaks: break numbering", "the break counter runs over ALL breaks of the shift (numbering before the optional filter): a required break listed before an "
                       "optional one leaves a gap in the ids, and the initial-solution reader — which probes _1, _2, ... and stops at the first missing id — cannot match the break of a "
                       "solution the solver wrote", F.loc(g, t["ln"]))
    if n == 0:
        r.ok("read_optional_breaks: break numbering", "not decided: the optional breaks are not numbered by zip / enumerate over the break list")


def t1_matcher_inclusive_windows(F, r):
    """re-reading a solution: an activity is matched to a job place (and its tag) when its interval TOUCHES the place's window — the solver may serve a job exactly at the
    end of its window, and the writer emits the tag of that place. Every window test of the activity matcher is the inclusive `intersects`, never `intersects_exclusive`."""
    mod = "vrp_pragmatic::format::solution::activity_matcher"
    n = 0
    for fid, fn in sorted(F.fns.items()):
        if "::promoted[" in fid or F.fns.get(F.root_of(fid), fn)["module"] != mod:
            continue
        for bi, t in mir.calls(fn):
            last = t["callee"].split("::")[-1]
            if last not in ("intersects", "intersects_exclusive") or "TimeWindow" not in t["callee"] and "TimeSpan" not in t["callee"] and "TimeOffset" not in t["callee"]:
                continue
            n += 1
            inst = f"{util.short_fn(F.root_of(fid))}: window test"
            if last == "intersects_exclusive":
                r.fail(inst, "the activity matcher tests a place window with `intersects_exclusive`: an activity served exactly at the end (or start) of its window no longer matches its "
                       "place / tag, so a solution the solver wrote cannot be read back (`cannot match job`)", F.loc(fid, t["ln"]))
            else:
                r.ok(inst, "inclusive")
    if n < 3:
        raise AnchorError(f"only {n} window tests found in the activity matcher (4 counted on the pinned tree)")


def m1_place_chosen_by_location_and_time(F, r):
    """re-reading a solution: a job may offer several places at ONE location with different windows; the place an activity belongs to is the one whose location matches AND
    whose window the activity's interval touches — both tests sit in the predicate that selects the place (a location-only `find` commits to the first place and then fails)"""
    root = "vrp_pragmatic::format::solution::activity_matcher::match_place"
    if root not in F.fns:
        raise AnchorError(root)
    n = 0
    for g in F.family(root):
        fn = F.fns[g]
        for bi, t in mir.calls(fn):
            if t["callee"].split("::")[-1] not in ("find", "position", "find_map", "filter") or not t["callee"].startswith("core::iter::traits::iterator::Iterator::") or not t["ga"]:
                continue
            if "jobs::Place" not in t["ga"][0] or len(t["ga"]) < 2:
                continue
            import re as _re
            m_ = _re.search(r"\{closure@[^:}]+:(\d+):(\d+)", t["ga"][-1])
            cl = [c for c in F.family(root) if m_ and F.fns[c]["kind"] == "Closure" and F.loc(c).endswith(":" + m_.group(1))]
            if not cl:
                continue
            n += 1
            bodies = [h for c in cl for h in F.fns if (h == c or h.startswith(c + "::")) and "::promoted[" not in h]      # the predicate and the closures nested in it
            calls = {tt["callee"].split("::")[-1] for h in bodies for _, tt in mir.calls(F.fns[h])}
            eqs = any(tt["callee"] in ("core::cmp::PartialEq::eq", "core::cmp::PartialEq::ne") for h in bodies for _, tt in mir.calls(F.fns[h])) or \
                any(st["r"]["k"] == "bin" and st["r"].get("op") in ("Eq", "Ne") for h in bodies for _, _, st in mir.stmts(F.fns[h]))
            if "intersects" in calls and eqs:
                r.ok("match_place: place predicate", "a place is selected by its location and by a window the activity touches")
            else:
                r.fail("match_place: place predicate", "the place of an activity is selected by " + ("location only" if eqs else "time only") + ": with alternative places at one location "
                       "the first one is taken, its windows do not fit, and a solution the solver wrote cannot be read back (`cannot match job`)", F.loc(g, t["ln"]))
    if n == 0:
        r.ok("match_place: place predicate", "not decided: no find / position over the job's places with a closure predicate")


def run(ctx):
    ctx.explanation = (
        "serde symmetry of the pragmatic document models (syn AST scan joined with type facts): every document type derives both Serialize and Deserialize, "
        "carries no one-sided attribute, renames agree on both sides, skip_serializing_if is only Option::is_none on Option fields (S1); for every untagged "
        "enum no later variant serialises to JSON an earlier variant accepts (required-field / JSON-kind argument), tagged enums have unique tags (S2); "
        "every column of the CSV import records is consumed (S4).")
    ctx.explanation += ' Optional-break job ids are consecutive (B1: counter zipped with the breaks after the optional filter, decided on iterator types); every window test of the activity matcher is inclusive (T1).'
    ctx.explanation += ' The place of an activity is selected by location AND a touching window in one predicate (M1).'
    ctx.not_decided = "float text round trip, activity matching when a solution is re-read as initial solution, faithfulness of CSV values."
    ctx.assumptions += ["serde derive semantics for the listed attributes (trusted)", "types outside the three model files serialise opaquely (kind `any`)"]
    ctx.run("C11-S1", "document types: both derives, no one-sided attributes, symmetric renames, skip only for None options", s1_symmetry, floor=90)
    ctx.run("C11-S2", "untagged variants distinguishable on re-reading; tagged variants unique", s2_untagged, floor=8)
    ctx.run("C11-I1", "initial-solution reader visits every tour / stop / activity of the document", i1_reader_visits_everything, floor=3)
    ctx.run("C11-B1", "optional break job ids are consecutive (the re-reader stops at the first missing id)", b1_break_ids_consecutive, floor=1)
    ctx.run("C11-M1", "activity matcher: a place is selected by location AND time in one predicate", m1_place_chosen_by_location_and_time, floor=1)
    ctx.run("C11-T1", "activity matcher: place windows are tested inclusively (a job served at the end of its window is matched)", t1_matcher_inclusive_windows, floor=3)
    ctx.run("C11-I2", "CSV import groups rows by id, not by adjacency", i2_csv_grouping, floor=1)
    ctx.run("C11-S4", "CSV import records: every column consumed", s4_csv_liveness, floor=10)
