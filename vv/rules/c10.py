"""C10 — problem validation is total and matches its documented rules (structural clauses)."""
import os
import re

from .. import cg, extract, mir, util
from ..facts import AnchorError

VAL = "vrp_pragmatic::validation"
VCTX_VALIDATE = VAL + "::ValidationContext::<'a>::validate"
FERR = "core::result::Result<(), vrp_pragmatic::format::FormatError>"
MERR = "core::result::Result<(), vrp_pragmatic::format::MultiFormatError>"
MAP = "vrp_pragmatic::format::problem::problem_reader::map_to_problem"
CODE = re.compile(r'^"?(E\d{4})"?$')


def _const_codes(fn):
    out = []
    for bi, si, s in mir.stmts(fn):
        for o in s["r"].get("o", []):
            if mir.is_const(o):
                m = CODE.match(str(o["c"]))
                if m:
                    out.append((m.group(1), s["ln"]))
    for bi, t in mir.calls(fn):
        for o in t["args"]:
            if mir.is_const(o):
                m = CODE.match(str(o["c"]))
                if m:
                    out.append((m.group(1), t["ln"]))
    return out


def v1_validate_first(F, r):
    fn = F.fns.get(MAP)
    if fn is None:
        raise AnchorError(MAP)
    V = [bi for bi, t in mir.calls(fn) if t["callee"] == VCTX_VALIDATE]
    if not V:
        r.fail("map_to_problem: validate", "the reader no longer validates the problem before mapping it", F.loc(MAP))
        return
    # the `?` on the validation result
    cont = None
    for bi, t in mir.calls(fn):
        if t["callee"].endswith("Try::branch") and any(k == "call" and v in V for k, v, p in mir.trace(fn, t["args"][0], through_calls=())):
            cont = mir.variant_edge(mir.option_edges(fn, bi), 0)
    if cont is None:
        r.fail("map_to_problem: validate?", "validation result is not propagated with `?` (errors ignored, mapping continues)", F.loc(MAP))
        return
    n = 0
    for bi, t in mir.calls(fn):
        tg = t["res"] or t["callee"]
        tf = F.fns.get(tg)
        if tf is None or bi in V:
            continue
        mod = tf["module"] if tf["kind"] != "Closure" else F.fns[F.root_of(tg)]["module"]
        if not mod.startswith("vrp_pragmatic::format::problem") and not mod.startswith("vrp_pragmatic::format::coord_index"):
            continue
        if tg.endswith("ValidationContext::<'a>::new"):
            continue
        n += 1
        inst = f"map_to_problem -> {util.short_fn(tg)}"
        if bi not in mir.reach(fn, [0], blocked_edges=[cont]):
            r.ok(inst, "dominated by the Ok edge of validate()?")
        else:
            r.fail(inst, "a reader runs on input that has not passed validation (its unwrap/expect/index operations assume validated data): malformed-but-well-formed JSON can panic instead of yielding error codes", F.loc(MAP, t["ln"]))
    if n < 3:
        raise AnchorError(f"only {n} reader calls found in map_to_problem")


def _validation_fns(F):
    return {i: f for i, f in F.fns.items() if f["kind"] != "Closure" and f["module"].startswith(VAL) and "::promoted[" not in i}


def v2_rules_wired(F, r):
    if VCTX_VALIDATE not in F.fns:
        raise AnchorError(VCTX_VALIDATE)
    par = cg.reach(F, [VCTX_VALIDATE], cha=False)
    fns = _validation_fns(F)
    n = 0
    for i, f in sorted(fns.items()):
        ret = f["locals"][0]
        if ret not in (FERR, MERR):
            continue
        if i == VCTX_VALIDATE:
            continue
        n += 1
        name = util.short_fn(i)
        if i in par:
            r.ok(name, "reachable from ValidationContext::validate")
        else:
            r.fail(name, "validation rule is not wired: it is unreachable from ValidationContext::validate (dropped from its aggregator list?), so the documented rule is never checked", F.loc(i))
    if n < 40:
        raise AnchorError(f"only {n} validation rule functions found")
    # aggregator shape: each validate_* hands an array of rule results to combine_error_results
    for i, f in sorted(fns.items()):
        if f["locals"][0] != MERR or i == VCTX_VALIDATE:
            continue
        fam = F.family(i)
        ok = False
        for g in fam:
            for _, t in mir.calls(F.fns[g]):
                if t["callee"].endswith("combine_error_results"):
                    ok = True
        if ok:
            r.ok(f"{util.short_fn(i)}: aggregator", "combine_error_results(&[..])")
        else:
            r.fail(f"{util.short_fn(i)}: aggregator", "module validator no longer aggregates with combine_error_results (first error only / errors lost)", F.loc(i))


def v3_code_tables(F, r):
    docs = os.path.join(extract.REPO, extract.DOCS)
    if not os.path.exists(docs):
        raise AnchorError("docs error index not found")
    doc_codes = set()
    for line in open(docs, encoding="utf-8"):
        m = re.match(r"^#{3,4}\s+(E\d{4})\s*$", line)
        if m:
            doc_codes.add(m.group(1))
    code_codes = {}
    for i, f in F.fns.items():
        if not i.lstrip("<").startswith(("vrp_pragmatic::", "vrp_cli::")):
            continue
        for c, ln in _const_codes(f):
            code_codes.setdefault(c, (i, ln))
    for i, f in sorted(_validation_fns(F).items()):
        m = re.search(r"::check_e(\d{4})_", i)
        if not m:
            continue
        want = "E" + m.group(1)
        got = {c for fid in F.family(i) for c, _ in _const_codes(F.fns[fid])}
        name = util.short_fn(i)
        if got == {want}:
            r.ok(name, f"emits {want}")
        elif not got:
            r.fail(name, "rule function emits no error code", F.loc(i))
        else:
            r.fail(name, f"rule function named for {want} emits {sorted(got)}: reported code does not name the rule that is broken", F.loc(i))
    for c in sorted(set(code_codes) - doc_codes):
        i, ln = code_codes[c]
        r.fail(f"code {c}", "error code emitted by the code is not documented in docs/.../errors/index.md", F.loc(i, ln))
    for c in sorted(doc_codes - set(code_codes)):
        r.fail(f"code {c}", "documented error code is never emitted by the code (rule removed or renumbered)", extract.DOCS)
    r.ok("code tables", f"{len(code_codes)} codes in code == {len(doc_codes)} documented headings")


def _dropped_results(F, fids, r, what):
    n = 0
    for fid in fids:
        fn = F.fns[fid]
        for bi, t in mir.calls(fn):
            d = t["dest"]
            if d["p"]:
                continue
            ty = fn["locals"][d["l"]]
            if not ty.startswith("core::result::Result<"):
                continue
            if d["l"] == 0:
                n += 1
                continue
            n += 1
            uses = mir.uses_of_local(fn, d["l"])
            if len(uses) == 1 and uses[0][0][0] == "t":
                ut = fn["bbs"][uses[0][0][1]]["t"]
                if ut["k"] == "call" and ut["callee"].split("::")[-1] in ("ok", "err", "is_ok", "is_err", "unwrap_or_default", "unwrap_or") and not ut["dest"]["p"] \
                        and ut["dest"]["l"] != 0 and not mir.uses_of_local(fn, ut["dest"]["l"]):
                    uses = []
            if not uses:
                r.fail(f"{util.short_fn(fid)}: {t['callee'].split('::')[-1]}", f"a Result produced in {what} is dropped without being inspected (`let _ =`, missing `?`): the error it carries is lost", F.loc(fid, t["ln"]))
    return n


def v4_no_dropped_results(F, r):
    fids = [i for i, f in F.fns.items() if (f["module"] if f["kind"] != "Closure" else F.fns.get(F.root_of(i), f)["module"]).startswith(VAL) and "::promoted[" not in i]
    n = _dropped_results(F, fids, r, "validation")
    r.ok("validation results", f"{n} Result-producing calls in validation, none dropped")


def run(ctx):
    ctx.explanation = (
        "Structural clauses of `validation is total and matches its documented rules`: validation dominates (through the Ok edge of `?`) every reader "
        "call in map_to_problem; every rule function (return type Result<(), FormatError|MultiFormatError> in validation::*) is reachable from "
        "ValidationContext::validate and module validators aggregate with combine_error_results; the code literal of each check_eNNNN equals its name "
        "and the set of codes in the code equals the set of documented headings; no Result in validation is dropped.")
    ctx.not_decided = ("that each rule's predicate matches its documentation (e.g. any/all slips), exactness of codes == violated rules, and input-derived panics in "
                       "readers for fields no rule covers (C10-P1 of the design is not armed in this revision; candidate inputs are listed in DESIGN.md §6).")
    ctx.assumptions += ["docs headings `### E....`/`#### E....` are the documented rule table"]
    ctx.run("C10-V1", "validate()? dominates every reader / goal-assembly call in map_to_problem", v1_validate_first, floor=4)
    ctx.run("C10-V2", "every validation rule function is reachable from ValidationContext::validate; module validators aggregate all results", v2_rules_wired, floor=45)
    ctx.run("C10-V3", "code literal == rule name; codes in code == codes in docs", v3_code_tables, floor=38)
    ctx.run("C10-V4", "no Result produced in validation is dropped", v4_no_dropped_results, floor=1)
