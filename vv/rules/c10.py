"""C10 — problem validation is total and matches its documented rules (structural clauses)."""
import os
import re

from .. import cg, extract, mir, util
from ..facts import AnchorError

VAL = "vrp_pragmatic::validation"
VCTX_VALIDATE = VAL + "::ValidationContext::<'a>::validate"
FERR = "core::result::Result<(), vrp_pragmatic::format::FormatError>"
MERR = "core::result::Result<(), vrp_pragmatic::format::MultiFormatError>"
MAP = "vrp_pragmatic::format::problem::problem_reader::map_to_problem"
CODE = re.compile(r'^"?(E\d{4})"?$')


def _const_codes(fn):
    out = []
    for bi, si, s in mir.stmts(fn):
        for o in s["r"].get("o", []):
            if mir.is_const(o):
                m = CODE.match(str(o["c"]))
                if m:
                    out.append((m.group(1), s["ln"]))
    for bi, t in mir.calls(fn):
        for o in t["args"]:
            if mir.is_const(o):
                m = CODE.match(str(o["c"]))
                if m:
                    out.append((m.group(1), t["ln"]))
    return out


def v1_validate_first(F, r):
    fn = F.fns.get(MAP)
    if fn is None:
        raise AnchorError(MAP)
    V = [bi for bi, t in mir.calls(fn) if t["callee"] == VCTX_VALIDATE]
    if not V:
        r.fail("map_to_problem: validate", "the reader no longer validates the problem before mapping it", F.loc(MAP))
        return
    # the `?` on the validation result
    cont = None
    for bi, t in mir.calls(fn):
        if t["callee"].endswith("Try::branch") and any(k == "call" and v in V for k, v, p in mir.trace(fn, t["args"][0], through_calls=())):
            cont = mir.variant_edge(mir.option_edges(fn, bi), 0)
    if cont is None:
        r.fail("map_to_problem: validate?", "validation result is not propagated with `?` (errors ignored, mapping continues)", F.loc(MAP))
        return
    n = 0
    for bi, t in mir.calls(fn):
        tg = t["res"] or t["callee"]
        tf = F.fns.get(tg)
        if tf is None or bi in V:
            continue
        mod = tf["module"] if tf["kind"] != "Closure" else F.fns[F.root_of(tg)]["module"]
        if not mod.startswith("vrp_pragmatic::format::problem") and not mod.startswith("vrp_pragmatic::format::coord_index"):
            continue
        if tg.endswith("ValidationContext::<'a>::new"):
            continue
        n += 1
        inst = f"map_to_problem -> {util.short_fn(tg)}"
        if bi not in mir.reach(fn, [0], blocked_edges=[cont]):
            r.ok(inst, "dominated by the Ok edge of validate()?")
        else:
            r.fail(inst, "a reader runs on input that has not passed validation (its unwrap/expect/index operations assume validated data): malformed-but-well-formed JSON can panic instead of yielding error codes", F.loc(MAP, t["ln"]))
    if n < 3:
        raise AnchorError(f"only {n} reader calls found in map_to_problem")


def _validation_fns(F):
    return {i: f for i, f in F.fns.items() if f["kind"] != "Closure" and f["module"].startswith(VAL) and "::promoted[" not in i}


def v2_rules_wired(F, r):
    if VCTX_VALIDATE not in F.fns:
        raise AnchorError(VCTX_VALIDATE)
    par = cg.reach(F, [VCTX_VALIDATE], cha=False)
    fns = _validation_fns(F)
    n = 0
    for i, f in sorted(fns.items()):
        ret = f["locals"][0]
        if ret not in (FERR, MERR):
            continue
        if i == VCTX_VALIDATE:
            continue
        n += 1
        name = util.short_fn(i)
        if i in par:
            r.ok(name, "reachable from ValidationContext::validate")
        else:
            r.fail(name, "validation rule is not wired: it is unreachable from ValidationContext::validate (dropped from its aggregator list?), so the documented rule is never checked", F.loc(i))
    if n < 40:
        raise AnchorError(f"only {n} validation rule functions found")
    # aggregator shape: each validate_* hands an array of rule results to combine_error_results
    for i, f in sorted(fns.items()):
        if f["locals"][0] != MERR or i == VCTX_VALIDATE:
            continue
        fam = F.family(i)
        ok = False
        for g in fam:
            for _, t in mir.calls(F.fns[g]):
                if t["callee"].endswith("combine_error_results"):
                    ok = True
        if ok:
            r.ok(f"{util.short_fn(i)}: aggregator", "combine_error_results(&[..])")
        else:
            r.fail(f"{util.short_fn(i)}: aggregator", "module validator no longer aggregates with combine_error_results (first error only / errors lost)", F.loc(i))


def v3_code_tables(F, r):
    docs = os.path.join(extract.REPO, extract.DOCS)
    if not os.path.exists(docs):
        raise AnchorError("docs error index not found")
    doc_codes = set()
    for line in open(docs, encoding="utf-8"):
        m = re.match(r"^#{3,4}\s+(E\d{4})\s*$", line)
        if m:
            doc_codes.add(m.group(1))
    code_codes = {}
    for i, f in F.fns.items():
        if not i.lstrip("<").startswith(("vrp_pragmatic::", "vrp_cli::")):
            continue
        for c, ln in _const_codes(f):
            code_codes.setdefault(c, (i, ln))
    for i, f in sorted(_validation_fns(F).items()):
        m = re.search(r"::check_e(\d{4})_", i)
        if not m:
            continue
        want = "E" + m.group(1)
        fam = list(F.family(i))
        # private helpers of the same module that only build the error (an extracted `create_e1308_error(action)`) belong to the rule
        mod = f["module"]
        for g in list(fam):
            for _, t in mir.calls(F.fns[g]):
                tg = t.get("res") or t["callee"]
                if tg in F.fns and F.fns[tg]["module"] == mod and F.fns[tg]["kind"] != "Closure" and not re.search(r"::check_e\d{4}_", tg) and tg not in fam \
                        and "FormatError" in (F.fns[tg]["locals"][0] or ""):
                    fam += F.family(tg)
        got = {c for fid in fam for c, _ in _const_codes(F.fns[fid])}
        name = util.short_fn(i)
        if got == {want}:
            r.ok(name, f"emits {want}")
        elif not got:
            r.fail(name, "rule function emits no error code", F.loc(i))
        else:
            r.fail(name, f"rule function named for {want} emits {sorted(got)}: reported code does not name the rule that is broken", F.loc(i))
    for c in sorted(set(code_codes) - doc_codes):
        i, ln = code_codes[c]
        r.fail(f"code {c}", "error code emitted by the code is not documented in docs/.../errors/index.md", F.loc(i, ln))
    for c in sorted(doc_codes - set(code_codes)):
        r.fail(f"code {c}", "documented error code is never emitted by the code (rule removed or renumbered)", extract.DOCS)
    r.ok("code tables", f"{len(code_codes)} codes in code == {len(doc_codes)} documented headings")


def _dropped_results(F, fids, r, what):
    n = 0
    for fid in fids:
        fn = F.fns[fid]
        for bi, t in mir.calls(fn):
            d = t["dest"]
            if d["p"]:
                continue
            ty = fn["locals"][d["l"]]
            if not ty.startswith("core::result::Result<"):
                continue
            if d["l"] == 0:
                n += 1
                continue
            n += 1
            uses = mir.uses_of_local(fn, d["l"])
            if len(uses) == 1 and uses[0][0][0] == "t":
                ut = fn["bbs"][uses[0][0][1]]["t"]
                if ut["k"] == "call" and ut["callee"].split("::")[-1] in ("ok", "err", "is_ok", "is_err", "unwrap_or_default", "unwrap_or") and not ut["dest"]["p"] \
                        and ut["dest"]["l"] != 0 and not mir.uses_of_local(fn, ut["dest"]["l"]):
                    uses = []
            if not uses:
                r.fail(f"{util.short_fn(fid)}: {t['callee'].split('::')[-1]}", f"a Result produced in {what} is dropped without being inspected (`let _ =`, missing `?`): the error it carries is lost", F.loc(fid, t["ln"]))
    return n


def v4_no_dropped_results(F, r):
    fids = [i for i, f in F.fns.items() if (f["module"] if f["kind"] != "Closure" else F.fns.get(F.root_of(i), f)["module"]).startswith(VAL) and "::promoted[" not in i]
    n = _dropped_results(F, fids, r, "validation")
    r.ok("validation results", f"{n} Result-producing calls in validation, none dropped")


# ---- P1 input-derived panics (narrow) -----------------------------------------------------------
MODEL = "vrp_pragmatic::format::problem::model::"
READER_MODS = ("vrp_pragmatic::format::problem", "vrp_pragmatic::format::coord_index", "vrp_pragmatic::utils::approx_transportation")
# direct panicking operations on model-derived values that were confirmed guarded by reading (function level, with the guard)
P1_DIRECT_GUARDED = {
    ("fleet_reader::create_approx_matrices", "expect", ("MatrixProfile.speed",)): "position() over the speed list built from the same profiles; NaN cannot come from JSON",
    ("fleet_reader::create_approx_matrices", "index", ("MatrixProfile.speed",)): "index obtained from position() over the same list",
    ("fleet_reader::read_fleet", "unwrap", ("ShiftEnd.location",)): "CoordIndex was built from the same problem's locations",
    ("fleet_reader::read_fleet", "unwrap", ("ShiftStart.location", "VehicleShift.start", "VehicleType.shifts")): "CoordIndex was built from the same problem's locations",
    ("fleet_reader::read_fleet", "unwrap", ("VehicleProfile.matrix", "VehicleType.profile")): "validation rule E1505 (profile exists)",
    ("job_reader::read_locks", "unwrap", ("Plan.relations", "Problem.plan")): "early return when relations are absent/empty",
    ("job_reader::read_optional_breaks", "unwrap", ("VehicleOptionalBreakTime.TimeOffset::0",)): "match arm `offsets.len() != 2` precedes it",
    ("job_reader::read_required_jobs", "unwrap", ("Job.deliveries", "Job.pickups", "Job.replacements", "Job.services")): "validation rule E1105 (empty jobs) / local is_some checks",
    ("relations::check_e1207_no_incomplete_relation", "unwrap", ("Job.id",)): "the frequency map is built from the same ids",
}


def _model_fields_backward(F, fn, op, depth=0):
    """(ADT.field) names of pragmatic model fields in the intra-procedural backward slice of op, plus closure-parameter provenance"""
    fields = set()
    stack = [op]
    seen = set()
    params = set()
    while stack:
        o = stack.pop()
        if not mir.is_place(o):
            continue
        for a, f in mir.proj_fields(o):
            if a.startswith(MODEL):
                fields.add(a.split("::")[-1] + "." + f)
        if o["l"] in seen:
            continue
        seen.add(o["l"])
        if 1 <= o["l"] <= fn["argc"] and o["l"] not in mir.defs(fn):
            params.add(o["l"])
        for d in mir.defs(fn).get(o["l"], []):
            if d[0] == "s":
                stack.extend(d[3]["r"].get("o", []))
            else:
                stack.extend(d[2]["args"])
    if fn["kind"] == "Closure" and params - {1} and depth < 3:
        fields |= _closure_param_fields(F, fn, depth)
    return fields


def _closure_param_fields(F, cfn, depth):
    """model fields flowing into the parameters of a closure: taken from the other arguments of the call that consumes the closure"""
    parent = None
    for fid in [cfn["parent"]] + F.children.get(cfn["parent"], []):
        pf = F.fns.get(fid)
        if pf is None:
            continue
        for bi, si, s in mir.stmts(pf):
            if s["r"]["k"] == "agg" and s["r"].get("ak") == "closure" and s["r"]["n"] == cfn["id"]:
                parent = (pf, s["d"]["l"])
    if parent is None:
        return set()
    pf, cl = parent
    flow = mir.forward(pf, [cl])
    out = set()
    for bi, t in mir.calls(pf):
        if any(mir.is_place(a) and a["l"] in flow for a in t["args"]):
            for a in t["args"]:
                if mir.is_place(a) and a["l"] in flow:
                    continue
                out |= _model_fields_backward(F, pf, a, depth + 1)
    return out


def _panic_summaries(F):
    """workspace functions that panic depending on a parameter: {fn id: set(param index)} (unwrap/expect/assert on values derived from it; 2 levels)"""
    S = {}
    cand = [i for i, f in F.fns.items() if f["kind"] != "Closure" and "::promoted[" not in i and i.lstrip("<").startswith(("vrp_pragmatic::", "vrp_core::models::", "vrp_core::construction::features"))]
    for rnd in range(2):
        for fid in cand:
            fn = F.fns[fid]
            out = set(S.get(fid, ()))
            for g in F.family(fid):
                gfn = F.fns[g]
                for bi, t in mir.calls(gfn):
                    last = t["callee"].split("::")[-1]
                    ops = []
                    if last in ("unwrap", "expect") and ("Option" in t["callee"] or "Result" in t["callee"]) and t["args"]:
                        ops = [t["args"][0]]
                    tg = t["res"] or t["callee"]
                    if tg in S and tg != fid:
                        ops += [t["args"][n - 1] for n in S[tg] if n - 1 < len(t["args"])]
                    for o in ops:
                        leaves, _ = mir.deep_leaves(gfn, o)
                        for k, v, p in leaves:
                            if k == "arg" and g == fid:
                                out.add(v)
                            elif k == "arg" and g != fid and v != 1:
                                # closure parameter: attribute to every parameter of the root that feeds the consuming call (approximation: all non-self params)
                                out |= {i for i in range(1, fn["argc"] + 1)}
                # assert!(cond) : a panic block control-dependent on a comparison of a parameter-derived value
                if g == fid:
                    pan = [bi for bi, t in mir.calls(gfn) if t["callee"].startswith("core::panicking::") and not t["x"] is False or t["callee"].startswith("core::panicking::assert_failed")]
                    pan = [bi for bi, t in mir.calls(gfn) if t["callee"].startswith("core::panicking::")]
                    if pan:
                        for sb, bb in enumerate(gfn["bbs"]):
                            tt = bb["t"]
                            if tt["k"] == "switch" and mir.is_place(tt["o"]) and any(pb in mir.reach(gfn, [x for x in mir.succs(gfn)[sb]]) for pb in pan):
                                leaves, _ = mir.deep_leaves(gfn, tt["o"])
                                for k, v, p in leaves:
                                    if k == "arg":
                                        out.add(v)
            if out:
                S[fid] = out
    return S


def p1_input_panics(F, r):
    valreads = set()
    for fid, fn in F.fns.items():
        root = F.root_of(fid)
        if F.fns.get(root, fn)["module"].startswith(VAL):
            for p in util.all_places(fn):
                for a, f in mir.proj_fields(p):
                    if a.startswith(MODEL):
                        valreads.add(a.split("::")[-1] + "." + f)
    if len(valreads) < 40:
        raise AnchorError(f"validation reads only {len(valreads)} model fields")
    S = _panic_summaries(F)
    named = {k: v for k, v in S.items() if k.split("::")[-1] in ("parse_time", "parse_time_window", "new", "get_approx_transportation", "parse_times")}
    n_direct = n_callee = 0
    seen_rows = set()
    for fid, fn in F.fns.items():
        if "::promoted[" in fid:
            continue
        root = F.root_of(fid)
        mod = F.fns.get(root, fn)["module"]
        in_reader = mod.startswith(READER_MODS)
        in_val = mod.startswith(VAL)
        if not (in_reader or in_val):
            continue
        for bi, t in mir.calls(fn):
            last = t["callee"].split("::")[-1]
            kind = None
            if last in ("unwrap", "expect") and ("Option" in t["callee"] or "Result" in t["callee"]):
                kind = last
            elif t["callee"].endswith("Index::index") or t["callee"].endswith("IndexMut::index_mut"):
                kind = "index"
            if kind and t["args"]:
                fields = set()
                for a in t["args"][:2 if kind == "index" else 1]:
                    # direct rows: intra-procedural slice only (no closure provenance) to keep the confirmed table exact
                    fields |= _model_fields_backward(F, fn, a, depth=9)
                if fields:
                    row = (util.short_fn(root), kind, tuple(sorted(fields)))
                    if row in seen_rows:
                        continue
                    seen_rows.add(row)
                    n_direct += 1
                    inst = f"{row[0]}: {kind} on {','.join(row[2])}"
                    # rows are confirmed per MODULE: the same operation on the same input fields moved into a helper of the same module keeps its row
                    same_mod = [v for k, v in P1_DIRECT_GUARDED.items() if k[1] == row[1] and k[2] == row[2] and k[0].split("::")[0] == row[0].split("::")[0]]
                    if row in P1_DIRECT_GUARDED:
                        r.ok(inst, "guarded: " + P1_DIRECT_GUARDED[row])
                    elif same_mod:
                        r.ok(inst, "guarded (row of the same module, operation moved into a helper): " + same_mod[0])
                    else:
                        r.fail(inst, f"a value read from the input document ({', '.join(row[2])}) reaches a panicking `{kind}` without a confirmed guard: a well-formed document with an "
                                     f"unexpected value crashes the reader instead of yielding an error code", F.loc(fid, t["ln"]))
            tg = t["res"] or t["callee"]
            if in_reader and tg in S and not tg.startswith("vrp_pragmatic::format::problem::job_reader") and tg.split("::")[-1] in ("parse_time", "parse_time_window", "parse_times", "get_approx_transportation"):
                for n in S[tg]:
                    if n - 1 >= len(t["args"]):
                        continue
                    fields = _model_fields_backward(F, fn, t["args"][n - 1])
                    want_ty = "f64" if tg.endswith("get_approx_transportation") else "String"
                    for f in sorted(fields):
                        ad_ = F.adts.get(MODEL + f.split(".")[0])
                        fty = ""
                        if ad_:
                            for v_ in ad_["v"]:
                                for ff in v_["f"]:
                                    if ff["n"] == f.split(".")[1].split("::")[-1]:
                                        fty = ff["ty"]
                        if want_ty not in fty:
                            continue  # provenance over-approximation: only fields of the parsed type can be the parser's input
                        row = (util.short_fn(root), tg.split("::")[-1], f)
                        if row in seen_rows:
                            continue
                        seen_rows.add(row)
                        n_callee += 1
                        inst = f"{row[0]}: {row[1]}({f})"
                        if f in valreads or f.split(".")[0] in ("VehicleType", "VehicleShift", "Problem", "Fleet", "Plan") and f.split(".")[1] in ("shifts", "start", "end", "fleet", "plan", "vehicles", "profiles", "jobs"):
                            r.ok(inst, "the field is read by a validation rule (or is a container on the access path)")
                        else:
                            r.fail(inst, f"input field `{f}` is passed to the panicking `{row[1]}` but no validation rule ever reads it: a malformed value crashes the reader instead of yielding an error code", F.loc(fid, t["ln"]))
    if n_direct < 8 or n_callee < 3:
        raise AnchorError(f"only {n_direct} direct and {n_callee} callee rows found")


# rules with a documented / obviously intended precondition that lets them accept early (one row per rule, with the reason)
EARLY_OK = {
    "check_e1607_jobs_with_value_but_no_objective": "no objectives property at all => default objectives include the value objective (documented in E1607's text: `remove objectives property`)",
}


def e1_single_accept_exit(F, r):
    """a validation rule accepts at exactly one place, after all its error conditions were looked at (33 of 38 rules on the pinned tree; 4 only delegate; 1 reasoned
    exception): an additional early `return Ok(())` is a condition under which the documented rule is silently skipped"""
    n = 0
    for fid, fn in sorted(F.fns.items()):
        if fn["kind"] == "Closure" or "::promoted[" in fid or not fn["module"].startswith("vrp_pragmatic::validation") or not fid.split("::")[-1].startswith("check_e"):
            continue
        oks = [(bi, st.get("ln")) for bi, si, st in mir.stmts(fn) if st["r"]["k"] == "agg" and st["r"].get("n", "").endswith("Result#Ok") and not st["d"]["p"] and st["d"]["l"] == 0]
        errs = [bi for bi, si, st in mir.stmts(fn) if st["r"]["k"] == "agg" and st["r"].get("n", "").endswith("Result#Err")]
        n += 1
        name = fid.split("::")[-1]
        if len(oks) > 1:
            # exits that are part of the rule's shape rather than a skipped rule: (b) the main verdict — `if fine { return Ok(()) } Err(..)`: the sibling edge of the guarding
            # switch runs straight into an error; (c) nothing to check — the `None` edge of an Option the rule's subject is taken from (`let Some(matrix) = .. else { return Ok(()) }`)
            P = mir.preds(fn)
            S = mir.succs(fn)
            err_set = set(errs)

            def guarding_switch(b):
                cur, hops = b, 0
                while hops < 8:
                    ps = [q for q in P[cur] if q != cur]
                    if len(ps) != 1:
                        return None, None
                    q = ps[0]
                    if fn["bbs"][q]["t"]["k"] == "switch":
                        return q, cur
                    cur, hops = q, hops + 1
                return None, None

            def straight_to_err(b):
                cur, hops = b, 0
                while hops < 40:
                    if cur in err_set:
                        return True
                    if fn["bbs"][cur]["t"]["k"] == "switch" or len(S[cur]) != 1:
                        return False
                    cur, hops = S[cur][0], hops + 1
                return False
            suspicious = []
            for b, ln in oks:
                sb, via = guarding_switch(b)
                if sb is None:
                    continue
                tt = fn["bbs"][sb]["t"]
                edges = [tb for _, tb in tt["tg"]] + [tt["else"]]
                if any(e != via and straight_to_err(e) for e in edges):
                    continue            # (b)
                dd = [d for d in mir.defs(fn).get(tt["o"].get("l"), []) if d[0] == "s"] if mir.is_place(tt["o"]) else []
                if len(dd) == 1 and dd[0][3]["r"]["k"] == "discr" and mir.is_place(dd[0][3]["r"]["o"][0]):
                    oty = fn["locals"][dd[0][3]["r"]["o"][0]["l"]] or ""
                    none_edge = [tb for v, tb in tt["tg"] if v == 0]
                    if oty.startswith("core::option::Option<") and not dd[0][3]["r"]["o"][0]["p"] and ((none_edge and none_edge[0] == via) or (not none_edge and tt["else"] == via)):
                        continue        # (c)
                suspicious.append((b, ln))
            if len(oks) - len(suspicious) >= 1 and len(suspicious) == 0:
                r.ok(name, f"{len(oks)} accepting exits, all part of the rule's own verdict (main verdict / nothing-to-check on a missing Option)")
                continue
            oks = suspicious + [x for x in oks if x not in suspicious][:1]
        if len(oks) <= 1:
            r.ok(name, "single accepting exit")
        elif name in EARLY_OK and len(oks) == 2:
            r.ok(name, "table: " + EARLY_OK[name])
        else:
            early = sorted(oks, key=lambda x: (x[1] or 0))[0]
            r.fail(name, f"the rule has {len(oks)} accepting exits: an early `Ok(())` skips the rest of the rule (its {len(errs)} error condition(s)) under a condition the documented rule does "
                   "not mention — inputs the rule should reject pass validation", F.loc(fid, early[1]))
    if n < 35:
        raise AnchorError(f"only {n} validation rule functions found")


def r1_relation_shift(F, r):
    """relation rules: whenever a relation rule looks at the shifts of the relation's vehicle it selects the shift by the relation's own shift index"""
    n = 0
    for fid, fn in sorted(F.fns.items()):
        if fn["kind"] == "Closure" or "::promoted[" in fid or not fn["module"].startswith("vrp_pragmatic::validation::relations"):
            continue
        reads_shifts = reads_idx = False
        where = None
        for g in F.family(fid):
            for p in util.all_places(F.fns[g]):
                for adt, f in mir.proj_fields(p):
                    if f == "shifts" and adt.endswith("VehicleType"):
                        reads_shifts = True
                        where = g
                    if f == "shift_index" and adt.endswith("Relation"):
                        reads_idx = True
        if not reads_shifts:
            continue
        n += 1
        if reads_idx:
            r.ok(util.short_fn(fid), "shift selected by relation.shift_index")
        else:
            r.fail(util.short_fn(fid), "the rule inspects the vehicle's shifts without the relation's shift index (first shift only?): relations of any other shift are validated against the "
                   "wrong shift's breaks / reloads / places", F.loc(where))
    if n < 2:
        raise AnchorError(f"only {n} relation rules read vehicle shifts")


def p2_confirmed_guards(F, r):
    """two input-derived panics that sit OUTSIDE the reach of validation's error codes are kept away by one guard each (confirmed by reading, frozen here):
    (a) `create_approx_matrices` asserts that every location is a coordinate and runs BEFORE validation — it may only be reached when the problem has no index
        locations (`false` edge of `CoordIndex::has_indices`);
    (b) the reader's `parse_time_window` asserts `len == 2`; the validation helper `get_time_window_from_vec` must answer `None` (=> E1103 / E1303 / E1304) unless the
        array has exactly two entries, i.e. `get_time_window` is reached only on the `len == 2` edge."""
    # (a)
    root = "vrp_pragmatic::format::problem::problem_reader::map_to_problem_with_approx"
    fn = F.fns.get(root)
    if fn is None:
        raise AnchorError(root)
    appr = [bi for bi, t in mir.calls(fn) if t["callee"].endswith("create_approx_matrices")]
    if not appr:
        r.ok("map_to_problem_with_approx: approximation guard", "create_approx_matrices is not called here any more")
    else:
        gates = []
        for bi, t in mir.calls(fn):
            if t["callee"].endswith("CoordIndex::has_indices"):
                be = mir.bool_edges(fn, bi)
                if be:
                    gates.append(be[False])     # (switch block, target of the `no index locations` edge): with it blocked the approximation must be unreachable
        reach = mir.reach(fn, [0], blocked_edges=gates) if gates else set(range(len(fn["bbs"])))
        if gates and all(b not in reach for b in appr):
            r.ok("map_to_problem_with_approx: approximation guard", "create_approx_matrices only when has_indices() is false")
        else:
            r.fail("map_to_problem_with_approx: approximation guard", "create_approx_matrices (asserts `approximation requires coordinates`, runs before validation) is reachable for a problem "
                   "that has index locations: a well-formed document mixing index and coordinate locations crashes instead of yielding E1502/E1503", F.loc(root, fn["bbs"][appr[0]]["t"]["ln"]))
    # (b)
    g = "vrp_pragmatic::validation::common::get_time_window_from_vec"
    gfn = F.fns.get(g)
    if gfn is None:
        raise AnchorError(g)
    tw_calls = [(h, bi) for h in F.family(g) for bi, t in mir.calls(F.fns[h]) if t["callee"].endswith("validation::common::get_time_window")]
    if not tw_calls:
        raise AnchorError("get_time_window_from_vec no longer calls get_time_window")
    eq2 = []
    for bi, si, st in mir.stmts(gfn):
        rv = st["r"]
        # `tw.len() == 2` through a call, or the length test of a slice pattern `[start, end]` (MIR: PtrMetadata / Len of the parameter)
        if rv["k"] == "bin" and rv["op"] in ("Eq", "Ne") and rv.get("ty") == "usize" and any(mir.expr(gfn, o)[0][0] == "const" and str(mir.expr(gfn, o)[0][1]).startswith("2_") for o in rv["o"]) and \
                any(mir.is_place(o) and any(k == "arg" and v == 1 for k, v, p_ in mir.deep_leaves(gfn, o)[0]) for o in rv["o"]):
            sw = gfn["bbs"][bi]["t"]
            if sw["k"] == "switch":
                zero = [tb for v, tb in sw["tg"] if v == 0]
                unequal_edge = (zero[0] if zero else None) if rv["op"] == "Eq" else sw["else"]
                if unequal_edge is not None:
                    eq2.append((bi, unequal_edge))
    in_parent = [bi for h, bi in tw_calls if h == g]
    ok = bool(eq2) and len(in_parent) == len(tw_calls) and all(b not in mir.reach(gfn, [e for _, e in eq2]) for b in in_parent)
    if ok:
        r.ok("get_time_window_from_vec: exactly two dates", "a window is produced only on the `len == 2` edge")
    else:
        r.fail("get_time_window_from_vec: exactly two dates", "a time-window array with one or three dates is no longer answered with None: validation (E1103 / E1303 / E1304) accepts it and "
               "the reader's parse_time_window asserts `len == 2` — a crash instead of an error code", F.loc(g))


SHORT_CIRCUIT = ("try_fold", "try_for_each", "find", "find_map", "position", "any", "all", "take_while", "map_while", "take", "nth", "next", "last")


def v5_aggregator_reports_all(F, r):
    """every rule group reports ALL the codes its rules produced: `combine_error_results` walks the whole slice of results — no short-circuiting adapter and no
    `collect::<Result<..>>()` (which stops at the first `Err`): a document breaking two rules of one group must yield both codes"""
    fid = "vrp_pragmatic::utils::collections::combine_error_results"
    if fid not in F.fns:
        raise AnchorError(fid)
    bad = None
    for g in F.family(fid):
        fn = F.fns[g]
        for bi, t in mir.calls(fn):
            c = t["callee"]
            last = c.split("::")[-1]
            if c.startswith("core::iter::traits::iterator::Iterator::") and last in SHORT_CIRCUIT:
                bad = (g, t, f"`{last}` stops at the first hit")
            if c.endswith("Iterator::collect") and not t["dest"]["p"] and (fn["locals"][t["dest"]["l"]] or "").startswith(("core::result::Result<", "core::option::Option<")):
                bad = (g, t, "`collect` into a Result stops at the first `Err`")
    if bad:
        r.fail("combine_error_results", f"the aggregation short-circuits ({bad[2]}): a rule group reports only its first failing rule — the reported codes are not the full set of "
               "documented rules the input breaks", F.loc(bad[0], bad[1]["ln"]))
    else:
        r.ok("combine_error_results", "all results are walked; every error is kept")


def run(ctx):
    ctx.explanation = (
        "Structural clauses of `validation is total and matches its documented rules`: validation dominates (through the Ok edge of `?`) every reader "
        "call in map_to_problem; every rule function (return type Result<(), FormatError|MultiFormatError> in validation::*) is reachable from "
        "ValidationContext::validate and module validators aggregate with combine_error_results; the code literal of each check_eNNNN equals its name "
        "and the set of codes in the code equals the set of documented headings; no Result in validation is dropped.")
    ctx.explanation += ' Two confirmed guard rows (P2): create_approx_matrices only behind the false edge of has_indices; get_time_window_from_vec yields a window only on the len == 2 edge.'
    ctx.explanation += ' The error aggregator walks all results of a rule group (V5: no short-circuiting adapter, no collect into a Result).'
    ctx.not_decided = ("that each rule's predicate matches its documentation (e.g. any/all slips), exactness of codes == violated rules; panics that are reached through "
                       "constructors' assertions, generated ids or collection mutation (Fleet::new, MultiDimLoad::new, job index lookups) — P1 is narrow.")
    ctx.assumptions += ["docs headings `### E....`/`#### E....` are the documented rule table"]
    ctx.run("C10-V1", "validate()? dominates every reader / goal-assembly call in map_to_problem", v1_validate_first, floor=4)
    ctx.run("C10-V2", "every validation rule function is reachable from ValidationContext::validate; module validators aggregate all results", v2_rules_wired, floor=38)
    ctx.run("C10-V3", "code literal == rule name; codes in code == codes in docs", v3_code_tables, floor=30)
    ctx.run("C10-P1", "input-derived panics (narrow): direct unwrap/expect/index on document values are confirmed guarded; fields fed to panicking parsers are read by validation", p1_input_panics, floor=10)
    ctx.run("C10-P2", "confirmed guards of two input-derived panics outside validation's reach (approximation before validation; two-date windows)", p2_confirmed_guards, floor=2)
    ctx.run("C10-E1", "every validation rule has a single accepting exit (reasoned exceptions)", e1_single_accept_exit, floor=35)
    ctx.run("C10-R1", "relation rules select the vehicle shift by the relation's shift index", r1_relation_shift, floor=2)
    ctx.run("C10-V4", "no Result produced in validation is dropped", v4_no_dropped_results, floor=1)
    ctx.run("C10-V5", "the error aggregator keeps every error of a rule group (no short-circuit)", v5_aggregator_reports_all, floor=1)
