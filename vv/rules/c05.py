"""C05 — cached tour state equals recomputation: the cache-coherence protocol (structural clauses)."""
import collections

from .. import cg, kv, mir, typestate, util
from ..facts import AnchorError, strip_generics, tyname

CTX = "vrp_core::construction::heuristics::context::"
RC = CTX + "RouteContext"
RCACHE = CTX + "RouteCache"
MARK = RC + "::mark_stale"
FS = "vrp_core::models::goal::FeatureState"
FS_INS = FS + "::accept_insertion"
FS_ROUTE = FS + "::accept_route_state"
FS_SOL = FS + "::accept_solution_state"
GOAL_ROUTE = "vrp_core::models::goal::GoalContext::accept_route_state"
GOAL_SOL = "vrp_core::models::goal::GoalContext::accept_solution_state"
GOAL_INS = "vrp_core::models::goal::GoalContext::accept_insertion"
ARS = "vrp_core::construction::enablers::feature_combinator::accept_route_state_with_states"
ASS = "vrp_core::construction::enablers::feature_combinator::accept_solution_state_with_states"
MULTITRIP = "vrp_core::construction::enablers::multi_trip::MultiTrip"
COMBINATORS = ("CombinedFeatureState",)

# C05-S2: who may clear the stale bit; reasons are part of the table
CLEAR_ALLOWED = {
    ARS: "the protocol's own per-route refresh (position verified below)",
    ASS: "the protocol's own solution-level refresh (position verified below)",
    "<vrp_core::solver::processing::reschedule_reserved_time::RescheduleReservedTime as rosomaxa::evolution::HeuristicSolutionProcessing>::post_process":
        "documented exception: runs once on the final solution, rewrites schedules itself and must not be overwritten by accept_*",
}


def s1_unforgeable(F, r):
    adt = F.adts.get(RC)
    if adt is None:
        raise AnchorError("ADT RouteContext not found")
    for f in adt["v"][0]["f"]:
        if f["vis"].startswith("in:"):
            r.ok(f"field RouteContext.{f['n']} private", f["vis"])
        else:
            r.fail(f"field RouteContext.{f['n']}", f"field is `{f['vis']}`: &mut access to the route/state/cache would bypass the stale bit", adt["span"])
    cache = F.adts.get(RCACHE)
    if cache is None:
        raise AnchorError("ADT RouteCache not found")
    # functions that hand out / write the guarded fields
    for fid, fn in F.fns.items():
        touching = []
        for bi, si, s in mir.stmts(fn):
            rv = s["r"]
            if rv["k"] in ("ref", "raw") and (rv.get("mut") or rv["k"] == "raw"):
                pf = mir.proj_fields(rv["o"][0])
                if pf and pf[0][0] == RC and pf[0][1] in ("route", "state") and len(pf) >= 1:
                    touching.append((bi, s["ln"], f"&mut self.{pf[0][1]}"))
            d = s["d"]
            pf = mir.proj_fields(d)
            if pf and pf[0][0] == RC and pf[0][1] in ("route", "state"):
                touching.append((bi, s["ln"], f"store into self.{'.'.join(p[1] for p in pf)}"))
        if not touching:
            continue
        marks = [bi for bi, t in mir.calls(fn)
                 if t["callee"] == MARK and mir.is_const(t["args"][1]) and t["args"][1]["c"] == "true"]
        for bi, si, s in mir.stmts(fn):
            pf = mir.proj_fields(s["d"])
            if pf and pf[-1] == (RCACHE, "is_stale") and s["r"]["k"] == "use" and mir.is_const(s["r"]["o"][0]) and s["r"]["o"][0]["c"] == "true":
                marks.append(bi)
        # every path entry -> Return passes a mark (the &mut escapes through the return value)
        reach_ret = mir.reach(fn, [0], blocked=marks)
        bad = [b for b in mir.ret_blocks(fn) if b in reach_ret]
        name = util.short_fn(fid)
        if bad:
            r.fail(name, f"{touching[0][2]} without mark_stale(true) on every path to return: mutable access escapes with a clean stale bit",
                   F.loc(fid, touching[0][1]))
        else:
            r.ok(name, f"{len(touching)} mutable accesses, all paths marked stale")
    # constructions of the cache start stale or copy the bit
    for fid, fn in F.fns.items():
        for bi, si, s in mir.stmts(fn):
            rv = s["r"]
            if rv["k"] == "agg" and rv.get("n") == RCACHE + "#RouteCache":
                op = rv["o"][0]
                roots = mir.trace(fn, op)
                good = all((k == "const" and v == "true") or (k == "arg" and p[-2:] == ("cache", "is_stale")) for k, v, p in roots)
                name = "RouteCache{..} in " + util.short_fn(fid)
                if good:
                    r.ok(name, "starts stale or copies the source bit")
                else:
                    r.fail(name, f"new RouteContext starts with is_stale from {sorted(roots)}: a fresh/copy context could claim a valid cache", F.loc(fid, s["ln"]))


def s2_who_may_clear(F, r):
    seen_allowed = set()
    for fid, fn in F.fns.items():
        root = F.root_of(fid)
        for bi, t in mir.calls(fn):
            if t["callee"] != MARK:
                continue
            a = t["args"][1]
            if mir.is_const(a) and a["c"] == "true":
                continue
            name = util.short_fn(root)
            if root in CLEAR_ALLOWED:
                seen_allowed.add(root)
                r.ok(f"clear in {name}", CLEAR_ALLOWED[root], F.loc(fid, t["ln"]))
            else:
                r.fail(f"clear in {name}", "unauthorised mark_stale(false)/non-constant: cache declared valid outside the refresh protocol", F.loc(fid, t["ln"]))
        for bi, si, s in mir.stmts(fn):
            pf = mir.proj_fields(s["d"])
            if pf and pf[-1] == (RCACHE, "is_stale") and fid != MARK:
                r.fail(f"is_stale store in {util.short_fn(root)}", "direct write of the stale bit outside mark_stale", F.loc(fid, s["ln"]))
    # position of the clear in the two protocol functions
    fn = F.fns.get(ARS)
    if fn is None:
        raise AnchorError(ARS)
    mark_b = [bi for bi, t in mir.calls(fn) if t["callee"] == MARK]
    clear_b = [bi for bi, t in mir.calls(fn) if t["callee"] == CTX + "RouteState::clear"]
    loop_b = []
    for bi, t in mir.calls(fn):
        if any(_closure_reaches(F, fn, o, FS_ROUTE) for o in t["args"]):
            loop_b.append(bi)
    if not mark_b:
        r.fail("accept_route_state_with_states", "no longer clears the stale bit: every later refresh recomputes or (worse) callers clear elsewhere", fn["span"])
    for mb in mark_b:
        ok1 = clear_b and util.dominated_by_blocks(fn, mb, clear_b)
        ok2 = loop_b and util.dominated_by_blocks(fn, mb, loop_b)
        if ok1 and ok2:
            r.ok("accept_route_state_with_states: clear after state.clear() and the loop over all states")
        else:
            r.fail("accept_route_state_with_states", "mark_stale(false) reachable without passing RouteState::clear and the loop over all FeatureState::accept_route_state", F.loc(ARS, fn["bbs"][mb]["t"]["ln"]))
    fn = F.fns.get(ASS)
    if fn is None:
        raise AnchorError(ASS)
    fold_b = [bi for bi, t in mir.calls(fn) if any(_closure_reaches(F, fn, o, FS_SOL) for o in t["args"])]
    clr_sites = [rb for (cfid, bi, t, rb) in util.family_call_sites(F, ASS, lambda t: t["callee"] == MARK)]
    if not clr_sites:
        r.fail("accept_solution_state_with_states", "no longer clears stale bits", fn["span"])
    for rb in clr_sites:
        # the closure is created before the for_each call; find the call consuming it: first call block at/after rb
        if fold_b and rb is not None and util.dominated_by_blocks(fn, rb, fold_b):
            r.ok("accept_solution_state_with_states: bits cleared only after the loop over all accept_solution_state")
        else:
            r.fail("accept_solution_state_with_states", "stale bits cleared on a path that has not run every FeatureState::accept_solution_state", fn["span"])
    for root in CLEAR_ALLOWED:
        if root not in seen_allowed:
            r.skip()


def _closure_reaches(F, fn, operand, target_trait_method):
    """operand is (or moves) a closure constructed in fn whose body (transitively within workspace) calls target"""
    if not mir.is_place(operand):
        return False
    for k, v, p in mir.trace(fn, operand):
        if k == "agg":
            bi, si = v
            rv = fn["bbs"][bi]["s"][si]["r"]
            if rv.get("ak") == "closure":
                par = cg.reach(F, [rv["n"]], cha=False)
                for g in par:
                    g_fn = F.fns.get(g)
                    if not g_fn:
                        continue
                    for _, t in mir.calls(g_fn):
                        if t["callee"] == target_trait_method:
                            return True
    return False


# ---- K rules ------------------------------------------------------------------------------------

def feature_states(F):
    """list of (label, {ins,route,sol: method id}, edge_filter)"""
    out = []
    mt_impls = [im["self"] for im in F.impls_of.get(MULTITRIP, [])]
    for im in F.impls_of.get(FS, []):
        if not im["self"].startswith("vrp_"):
            continue
        label = tyname(im["self"])
        if label in COMBINATORS:
            continue
        ms = {tm.split("::")[-1]: m for tm, m in im["m"]}
        meths = {"ins": ms.get("accept_insertion"), "route": ms.get("accept_route_state"), "sol": ms.get("accept_solution_state")}
        if label == "MultiTripState" and mt_impls:
            for mt in mt_impls:
                def flt(x, kind, bi, tg, t, mt=mt):
                    if t is not None and t["callee"].startswith(MULTITRIP + "::"):
                        tf = F.fns.get(tg)
                        return tf is not None and tf["impl_self"] == mt
                    return True
                out.append((f"MultiTripState[{tyname(mt)}]", meths, flt))
        else:
            out.append((label, meths, None))
    return out


def wsets(F, meths, flt):
    res = {}
    for k, m in meths.items():
        if m is None:
            res[k] = ([], {})
            continue
        ops, par = kv.reach_ops(F, m, edge_filter=flt)
        res[k] = (ops, par)
    return res


def _deep_leaves(F, fn, op):
    return mir.deep_leaves(fn, op, stop_calls={RC + "::route": "route"})


def actor_only(F, op_rec, par, method_ids):
    """Is the value stored by KV op `op_rec` computed from the route's actor only (no tour, no other state)?"""
    fid = op_rec.fid
    fn = F.fns[fid]
    t = fn["bbs"][op_rec.bi]["t"]
    if len(t["args"]) < 2:
        return False, "no value operand"
    return _actor_only_value(F, fid, t["args"][1], par, method_ids, 0)


def _actor_only_value(F, fid, operand, par, method_ids, depth):
    fn = F.fns[fid]
    leaves, crossed = _deep_leaves(F, fn, operand)
    for c in crossed:
        if c.startswith("vrp_core::models::solution::tour::Tour::"):
            return False, f"value depends on {c}"
        if c in kv.PRIMS or (c.startswith("<" + CTX + "RouteState as ")):
            return False, f"value depends on another cached slot via {util.short_fn(c)}"
    for k, v, p in leaves:
        if k == "route":
            if not p or p[0] != "actor":
                return False, f"value reads route.{'.'.join(p) or '*'}"
        elif k == "arg":
            if v == 1 and fn["kind"] != "Closure":
                continue  # self: configuration of the feature
            if fn["kind"] == "Closure" and v == 1:
                continue  # captured environment (configuration)
            if fid in method_ids:
                # a raw parameter of the callback other than through route(): unknown dependence
                return False, f"value depends on callback parameter {v} not through route().actor"
            if depth > 3:
                return False, "wrapper chain too deep"
            # wrapper: look at every caller in the reachable set
            found = False
            for (cfid, kind, bi, ct) in cg.callers(F, fid):
                if cfid not in par or ct is None:
                    continue
                found = True
                if v - 1 >= len(ct["args"]):
                    return False, "caller arity"
                ok, why = _actor_only_value(F, cfid, ct["args"][v - 1], par, method_ids, depth + 1)
                if not ok:
                    return False, why
            if not found:
                return False, "no caller found for wrapper parameter"
        elif k in ("const", "fn"):
            continue
        elif k == "local":
            return False, "value from an untracked local"
    return True, "derives from route().actor and feature configuration only"


def k_rules(F, ctx):
    feats = feature_states(F)
    if len(feats) < 10:
        raise AnchorError(f"only {len(feats)} FeatureState impls found")
    W = {}
    for label, meths, flt in feats:
        W[label] = wsets(F, meths, flt)

    def slots(ops, store="route", op="set"):
        return {o.key for o in ops if o.store == store and o.op == op}

    # slots read by code reachable from any FeatureConstraint::evaluate
    cons_reads = set()
    for m in F.trait_impl_methods("vrp_core::models::goal::FeatureConstraint::evaluate"):
        ops, _ = kv.reach_ops(F, m)
        cons_reads |= {o.key for o in ops if o.store == "route" and o.op == "get"}

    def k4(F_, r):
        for label, meths, flt in feats:
            w = W[label]
            wr, wi, ws = slots(w["route"][0]), slots(w["ins"][0]), slots(w["sol"][0])
            need = wr | wi
            if not need:
                r.skip()
                continue
            for slot in sorted(need):
                inst = f"{label}:{kv.short(slot)}"
                if slot in ws:
                    r.ok(inst, "refreshed in accept_solution_state")
                    continue
                # actor-only exemption
                exempt = True
                why = ""
                for which in ("route", "ins"):
                    ops, par = w[which]
                    for o in ops:
                        if o.store == "route" and o.op == "set" and o.key == slot:
                            ok, why_ = actor_only(F, o, par, set(m for m in meths.values() if m))
                            if not ok:
                                exempt = False
                                why = why_
                if exempt:
                    r.ok(inst, "actor-only slot (value independent of the tour): exempt, see C05-K8")
                else:
                    m = meths["sol"]
                    r.fail(inst, f"RouteState slot written by accept_route_state/accept_insertion is not refreshed by accept_solution_state "
                                 f"({why}); accept_solution_state_with_states clears every stale bit afterwards, so after any tour mutation "
                                 f"followed only by a solution-level accept the cached value is stale yet declared valid",
                           F.loc(m) if m else None)

    def k5(F_, r):
        for label, meths, flt in feats:
            w = W[label]
            wr, wi = slots(w["route"][0]), slots(w["ins"][0])
            for slot in sorted(wr):
                inst = f"{label}:{kv.short(slot)}"
                if slot in wi:
                    r.ok(inst, "refreshed per insertion")
                    continue
                ok = True
                why = ""
                ops, par = w["route"]
                for o in ops:
                    if o.store == "route" and o.op == "set" and o.key == slot:
                        ok_, why = actor_only(F, o, par, set(m for m in meths.values() if m))
                        ok = ok and ok_
                if ok:
                    r.ok(inst, "actor-only slot: an insertion cannot change it")
                else:
                    r.fail(inst, f"slot written by accept_route_state is not refreshed by accept_insertion ({why}): stale after each single insertion",
                           F.loc(meths["ins"]) if meths["ins"] else None)

    def k5b(F_, r):
        """the per-insertion refresh runs on every path, or is guarded only by a job-dimension test the refresh code also reads / by the route's existence"""
        for label, meths, flt in feats:
            m = meths["ins"]
            if not m:
                continue
            fn = F.fns[m]
            w = W[label]
            for slot in sorted(slots(w["route"][0])):
                setters = {o.fid for o in w["ins"][0] if o.key == slot and o.op == "set"}
                if not setters:
                    continue
                blocks = []
                for bi, t in mir.calls(fn):
                    for g in cg.call_targets(F, t):
                        if setters & set(cg.reach(F, [g], edge_filter=flt)):
                            blocks.append(bi)
                for bi, si, st in mir.stmts(fn):
                    if st["r"]["k"] == "agg" and st["r"].get("ak") == "closure" and setters & set(cg.reach(F, [st["r"]["n"]], edge_filter=flt)):
                        blocks.append(bi)
                inst = f"{label}:{kv.short(slot)}"
                if not (set(mir.ret_blocks(fn)) & mir.reach(fn, [0], blocked=blocks)):
                    r.ok(inst, "refreshed on every path of accept_insertion")
                    continue
                # dimension keys read by the refresh code
                refresh_dims = set()
                for b in blocks:
                    t = fn["bbs"][b]["t"]
                    if t["k"] == "call":
                        for g in cg.call_targets(F, t):
                            ops_, _ = kv.reach_ops(F, g, edge_filter=flt)
                            refresh_dims |= {o.key for o in ops_ if o.store == "dimens" and o.op == "get"}
                bad = None
                for sb, bb in enumerate(fn["bbs"]):
                    tt = bb["t"]
                    if tt["k"] != "switch" or not mir.is_place(tt["o"]):
                        continue
                    rs = [bool(set(blocks) & mir.reach(fn, [x])) for x in mir.succs(fn)[sb]]
                    if not (any(rs) and not all(rs)):
                        continue
                    leaves, crossed = mir.deep_leaves(fn, tt["o"])
                    guard_dims = set()
                    for c in crossed:
                        for c2 in [c] + list(F.cha.get(c, [])):
                            if c2 in F.fns:
                                guard_dims |= {o.key for o in kv.ops_in(F, [c2]) if o.store == "dimens" and o.op == "get"}
                    route_exists = any(c.split("::")[-1] in ("get_mut", "get") and ("Vec" in c or "slice" in c) for c in crossed)
                    if guard_dims and guard_dims <= refresh_dims:
                        continue
                    if route_exists and not guard_dims:
                        continue
                    bad = (bb["t"].get("ln"), sorted(c.split("::")[-1] for c in crossed)[:4])
                if bad:
                    r.fail(inst, f"accept_insertion refreshes the slot only under a condition ({bad[1]}) that is not a test of a job dimension the refresh itself depends on: "
                                 "an insertion that does not satisfy it still shifts activity indices / changes the tour, leaving the cached value stale until the next solution-level accept", F.loc(m, bad[0]))
                else:
                    r.ok(inst, "conditional refresh guarded by a job-dimension test the refresh depends on (or by the route's existence)")

    def k6(F_, r):
        for label, meths, flt in feats:
            w = W[label]
            allw = slots(w["route"][0], "solution") | slots(w["ins"][0], "solution") | slots(w["sol"][0], "solution")
            for slot in sorted(allw):
                inst = f"{label}:{kv.short(slot)}"
                if slot in slots(w["sol"][0], "solution"):
                    r.ok(inst, "written from accept_solution_state")
                else:
                    r.fail(inst, "SolutionState slot never written from accept_solution_state: not recomputed at hand-over")

    def k7(F_, r):
        for label, meths, flt in feats:
            w = W[label]
            wr, wi, ws = slots(w["route"][0]), slots(w["ins"][0]), slots(w["sol"][0])
            for slot in sorted((wi | ws) - wr):
                if slot not in cons_reads:
                    r.skip()
                    continue
                inst = f"{label}:{kv.short(slot)}"
                par = w["sol"][1]
                filt = [g for g in par if g in F.fns and any(t["callee"] == RC + "::is_stale" for _, t in mir.calls(F.fns[g]))] if par else []
                if slot not in ws:
                    r.fail(inst, "slot read by a constraint is wiped by goal.accept_route_state (not rebuilt there) and not rebuilt in accept_solution_state")
                elif filt:
                    r.fail(inst, "slot is wiped by goal.accept_route_state (RouteState::clear) for routes that are then marked clean, "
                                 "but accept_solution_state rebuilds it only for stale routes", F.loc(filt[0]))
                else:
                    r.ok(inst, "rebuilt for all routes in accept_solution_state")

    def k8(F_, r):
        ctors = (RC + "::new", RC + "::new_with_state")
        for fid, fn in F.fns.items():
            if fid in ctors:
                continue
            sites = [bi for bi, t in mir.calls(fn) if t["callee"] in ctors]
            if not sites:
                continue
            acc = [bi for bi, t in mir.calls(fn) if t["callee"] == GOAL_ROUTE]
            name = util.short_fn(F.root_of(fid))
            if acc and util.must_pass(fn, sites, acc):
                r.ok(name, "new RouteContext receives goal.accept_route_state before leaving its constructor site")
            else:
                r.fail(name, "a RouteContext is built with an empty RouteState and enters the solution without goal.accept_route_state: "
                             "actor-only slots (exempt in K4) and every slot only refreshed per route are missing for these routes",
                       F.loc(fid, fn["bbs"][sites[0]]["t"]["ln"]))

    # ---- K9: a slot written on some paths only must be removed / rewritten on the others, or the guard is constant per route ----
    K9_TABLE = {
        ("<vrp_core::construction::features::capacity::CapacitatedMultiTrip<T> as vrp_core::construction::enablers::multi_trip::MultiTrip>::recalculate_states", "MaxVehicleLoadTourStateKey"):
            "guard is the vehicle's capacity dimension: constant per actor, and a route never changes its actor",
        ("<vrp_core::construction::features::recharge::RechargeableMultiTrip as vrp_core::construction::enablers::multi_trip::MultiTrip>::recalculate_states", "RechargeDistanceActivityStateKey"):
            "early return when the actor has no distance limit: constant per actor",
        ("<vrp_core::construction::features::tour_limits::TravelLimitState as vrp_core::models::goal::FeatureState>::accept_route_state", "LimitDurationTourStateKey"):
            "guard is the actor's duration-limit function: constant per actor",
        ("<vrp_core::construction::features::groups::GroupState as vrp_core::models::goal::FeatureState>::accept_insertion", "CurrentGroupsTourStateKey"):
            "per-insertion update guarded by the inserted job's group dimension (decided by C05-K5b); full rebuild at solution accept (K7)",
        ("<vrp_core::construction::features::hierarchical_areas::HierarchicalAreasState as vrp_core::models::goal::FeatureState>::accept_insertion", "MedoidIndexTourStateKey"):
            "per-insertion shortcut (decided by C05-K5b); accept_route_state rewrites unconditionally",
    }
    COMPAT = "<vrp_core::construction::features::compatibility::CompatibilityState as vrp_core::models::goal::FeatureState>::accept_route_state"

    def k9(F_, r):
        wr = {}
        for o in kv.ops(F):
            if o.store == "route" and o.op in ("set", "remove"):
                fn = F.fns[o.fid]
                if fn["impl_self"].endswith("RouteState") and fn["kind"] != "Closure":
                    wr[o.fid] = (kv.short(o.key), o.op)
        if len(wr) < 20:
            raise AnchorError(f"only {len(wr)} RouteState accessor wrappers found")
        by = collections.defaultdict(list)
        for fid, fn in F.fns.items():
            for bi, t in mir.calls(fn):
                tg = t["res"] or t["callee"]
                if tg in wr or t["callee"] in wr:
                    k, op = wr.get(tg) or wr[t["callee"]]
                    by[(fid, k)].append((bi, op, t["ln"]))
        n = 0
        for (fid, key), os_ in sorted(by.items()):
            if not any(o[1] == "set" for o in os_):
                continue
            fn = F.fns[fid]
            n += 1
            Wb = {o[0] for o in os_}
            seen = mir.reach(fn, [0], blocked=Wb)
            name = f"{util.short_fn(fid)}: {key}"
            if not (seen & set(mir.ret_blocks(fn))):
                r.ok(name, "written (set/remove) on every path to the return")
            elif (fid, key) in K9_TABLE:
                r.ok(name, "table: " + K9_TABLE[(fid, key)])
            elif fid == COMPAT:
                _k9_compat(r, fid, name, os_)
            else:
                r.fail(name, "this refresh writes the slot on some paths only and neither removes it on the others nor has a confirmed per-route-constant guard: "
                             "a value computed for an earlier tour content survives (stale cache read by the constraint)", F.loc(fid, os_[0][2]))
        if n < 15:
            raise AnchorError(f"only {n} slot refresh sites")

    def _k9_compat(r, fid, name, os_):
        """presence law, evaluated over new in {None, Some} x current in {None, Some}: afterwards the slot is present iff new is Some"""
        from .. import ordeval as oe
        for new in (0, 1):
            for cur in (0, 1):
                it = oe.Interp(F, fid, {1: oe.ref(oe.sym("self")), 2: oe.ref(oe.sym("route_ctx"))}, fresh=True, enum_results=True,
                               observe=("::set_current_compatibility", "::remove_current_compatibility"),
                               call_models={"compatibility::get_route_compatibility": (lambda i_, a, h, rl, new=new: oe.some(oe.sym("value")) if new else oe.NONE),
                                            "::get_current_compatibility": (lambda i_, a, h, rl, cur=cur: oe.some(oe.ref(oe.sym("old"))) if cur else oe.NONE)})
                try:
                    paths = it.explore()
                except oe.Undecided as e:
                    r.fail(f"{name} [new={'Some' if new else 'None'},current={'Some' if cur else 'None'}]", f"presence law not evaluable: {e}", F.loc(fid))
                    continue
                for p in paths:
                    sets = [c for c in p.calls if c[0].endswith("set_current_compatibility")]
                    rems = [c for c in p.calls if c[0].endswith("remove_current_compatibility")]
                    present = (cur == 1 and not rems) or bool(sets)
                    inst = f"{name} [new={'Some' if new else 'None'},current={'Some' if cur else 'None'}]"
                    if present == bool(new) and (not new or sets):
                        r.ok(inst, "slot present iff the tour has a compatibility value")
                    else:
                        r.fail(inst, "after the refresh the slot is " + ("still present although no job of the tour carries a compatibility value" if present else "missing")
                               + ": the stale tag keeps rejecting (or admitting) jobs", F.loc(fid))

    ctx.run("C05-K9", "a slot refreshed on some paths only is removed on the others (presence law) or its guard is constant per route (reasoned table)", k9, floor=15)
    ctx.run("C05-K10", "a solution context over another set of routes starts from an empty SolutionState", k10_fresh_solution_state, floor=5)
    ctx.run("C05-K11", "private functions that write cached state are called from somewhere (no dead refresh code)", k11_refresh_code_is_live, floor=2)
    ctx.run("C05-K4", "every RouteState slot a FeatureState writes per route/insertion is also refreshed by its accept_solution_state (actor-only slots exempt)", k4, floor=12)
    ctx.run("C05-K5", "every RouteState slot written by accept_route_state is refreshed by accept_insertion (actor-only exempt)", k5, floor=12)
    ctx.run("C05-K5b", "per-insertion refresh is unconditional or guarded only by a dimension test it depends on", k5b, floor=12)
    ctx.run("C05-K6", "every SolutionState slot written by a FeatureState is written from accept_solution_state", k6, floor=4)
    ctx.run("C05-K7", "slots not rebuilt by accept_route_state but read by a constraint are rebuilt for all routes at solution accept", k7, floor=1)
    ctx.run("C05-K8", "every RouteContext::new/new_with_state site passes goal.accept_route_state (side condition of the actor-only exemption)", k8, floor=3)


SU = "vrp_core::construction::enablers::schedule_update::"
TCD = "vrp_core::models::problem::costs::TransportCost::"


def _is_call(e, suffix):
    return e[0][0] == "call" and e[0][1].endswith(suffix)


def _mentions(e, pred, depth=0):
    """does the expression tree contain a node / path element satisfying pred?"""
    root, path = e
    if pred(root, path):
        return True
    if depth > 12:
        return False
    subs = []
    if root[0] == "call":
        subs = root[2]
    elif root[0] == "bin":
        subs = root[2:4]
    elif root[0] in ("un", "cast"):
        subs = [root[2]]
    elif root[0] == "agg":
        subs = root[2]
    elif root[0] == "discr":
        subs = [root[1]]
    return any(_mentions(x, pred, depth + 1) for x in subs)


def r1_schedule_recurrence(F, r):
    """forward schedule pass: arrival_i = departure_{i-1} + duration(loc_{i-1} -> loc_i, Departure(departure_{i-1})); departure_i = estimate_departure(act_i, arrival_i);
    the stored Schedule is (arrival_i, departure_i) and (loc_i, departure_i) is carried to the next activity. Decided on canonical expressions (temporaries, renames
    and tuple packing are transparent) for both the fold form (carried pair = closure parameter) and the loop form (carried pair = two re-assigned locals)."""
    root = F.find1("schedule_update::update_schedules")
    cls = [g for g in F.family(root) if any(t["callee"] == TCD + "duration" for _, t in mir.calls(F.fns[g]))]
    if not cls:
        raise AnchorError("update_schedules: the travel duration is no longer queried")
    g = cls[0]
    fn = F.fns[g]
    dur = [t for _, t in mir.calls(fn) if t["callee"] == TCD + "duration"]
    dep = [t for _, t in mir.calls(fn) if t["callee"].endswith("ActivityCost::estimate_departure")]
    new = [t for _, t in mir.calls(fn) if t["callee"].endswith("Schedule::new")]
    if len(cls) != 1 or len(dur) != 1 or len(dep) != 1 or len(new) != 1:
        r.ok("update_schedules: form", f"not decided: {len(cls)} bodies with {len(dur)} duration / {len(dep)} estimate_departure / {len(new)} Schedule::new calls — not the single-leg recurrence shape")
        return
    dur, dep, new = dur[0], dep[0], new[0]
    e_from, e_to, e_time = (mir.expr(fn, a) for a in dur["args"][2:5])
    act = lambda rt, pth: rt[0] == "call" and rt[1].endswith("Tour::get")

    def chk(inst, ok, good, bad, ln):
        if ok:
            r.ok("update_schedules: " + inst, good)
        else:
            r.fail("update_schedules: " + inst, bad, F.loc(g, ln))
    if not (e_time[0][0] == "agg" and e_time[0][1].endswith("TravelTime#Departure") and e_time[0][2]):
        chk("leg departure", False, "", "the travel duration is not queried at TravelTime::Departure(previous departure)", dur["ln"])
        return
    dep_prev, loc_prev = e_time[0][2][0], e_from
    fold_form = fn["kind"] == "Closure" and fn["argc"] >= 3 and fn["locals"][2].startswith("(")
    e_arr = mir.expr(fn, dep["args"][-1])
    e_dcall = (("call", dep["callee"], tuple(mir.expr(fn, a) for a in dep["args"])), ())
    if fold_form:
        carry = ("arg", 2)
        chk("leg origin", loc_prev == (carry, (".0",)), "duration is queried from the previous activity's location (carried)", "the travel duration is not queried FROM the location carried from the previous activity", dur["ln"])
        chk("leg departure", dep_prev == (carry, (".1",)), "... at the previous activity's departure (carried)", "the travel duration is not queried at the departure carried from the previous activity", dur["ln"])
        ret = mir.expr(fn, {"l": 0, "p": []})
        ok = ret[0][0] == "agg" and len(ret[0][2]) == 2 and ret[0][2][0] == e_to and _is_call(ret[0][2][1], "ActivityCost::estimate_departure")
        chk("carry", ok, "(current location, current departure) is carried to the next activity", "the pair carried to the next activity is not (current location, current DEPARTURE): "
            "the next leg starts at the wrong place or time (e.g. at the arrival, ignoring service and waiting)", fn["bbs"][mir.ret_blocks(fn)[0]]["t"].get("ln") if mir.ret_blocks(fn) else None)
    else:
        # loop form: the carried values are locals that are re-assigned inside the loop
        def carried_local(e):
            return e[0][1][1] if e[0][0] == "opaque" and isinstance(e[0][1], tuple) and e[0][1][0] in ("local", "mut") and not e[1] else None
        la, lb = carried_local(dep_prev), carried_local(loc_prev)
        if la is None or lb is None:
            r.ok("update_schedules: form", "not decided: the pass is neither a fold over a (location, departure) pair nor a loop over two re-assigned locals")
            return
        D = mir.defs(fn)

        def assigned(l):
            out = []
            for d in D.get(l, []):
                if d[0] == "s" and d[3]["r"]["k"] == "use":
                    out.append(mir.expr(fn, d[3]["r"]["o"][0]))
                elif d[0] == "c":
                    out.append((("call", d[2]["callee"], tuple(mir.expr(fn, a) for a in d[2]["args"])), ()))
            return out
        chk("leg origin", True, "duration is queried from the carried location variable", "", dur["ln"])
        chk("leg departure", True, "... at the carried departure variable", "", dur["ln"])
        va, vb = assigned(la), assigned(lb)
        ok = any(_is_call(x, "ActivityCost::estimate_departure") for x in va) and any(x == e_to for x in vb) \
            and not any(x == e_arr for x in va)
        chk("carry", ok, "the carried variables are re-assigned to (current location, current departure)", "the variables carried to the next activity are not re-assigned to (current location, "
            "current DEPARTURE): the next leg starts at the wrong place or time (e.g. at the arrival, ignoring service and waiting)", dep["ln"])
    chk("leg destination", _mentions(e_to, act) and e_to[1][-2:] == (".place", ".location"), "... to the current activity's location",
        "the travel duration is not queried TO the current activity's place.location", dur["ln"])
    is_arr = e_arr[0][0] == "bin" and e_arr[0][1] == "Add" and any(x == dep_prev for x in e_arr[0][2:4]) and any(_is_call(x, "TransportCost::duration") for x in e_arr[0][2:4])
    chk("arrival", is_arr, "arrival = previous departure + travel duration", "the arrival handed to estimate_departure is not `previous departure + travel duration` (same departure as the leg query)", dep["ln"])
    chk("departure subject", _mentions(mir.expr(fn, dep["args"][-2]), act), "departure estimated for the current activity", "estimate_departure is not asked about the current activity", dep["ln"])
    n0, n1 = mir.expr(fn, new["args"][0]), mir.expr(fn, new["args"][1])
    chk("stored schedule", n0 == e_arr and _is_call(n1, "ActivityCost::estimate_departure"), "Schedule::new(arrival, departure)",
        "the stored schedule is not (arrival, departure) of this activity (swapped or taken from another value)", new["ln"])
    # total duration / distance
    us = F.find1("schedule_update::update_statistics")
    ufn = F.fns[us]
    subs = [st for _, _, st in mir.stmts(ufn) if st["r"]["k"] == "bin" and st["r"]["op"] == "Sub"]
    good = False
    for st in subs:
        a, b = mir.expr(ufn, st["r"]["o"][0]), mir.expr(ufn, st["r"]["o"][1])
        if a[1][-2:] == (".schedule", ".departure") and b[1][-2:] == (".schedule", ".departure") and _mentions(a, lambda rt, pth: rt[0] == "call" and rt[1].endswith("Tour::end")) \
                and _mentions(b, lambda rt, pth: rt[0] == "call" and rt[1].endswith("Tour::start")):
            good = True
    chk("total duration", good, "end.departure - start.departure", "the tour's total duration is not `end.schedule.departure - start.schedule.departure`", ufn["bbs"][0]["s"][0].get("ln") if ufn["bbs"][0]["s"] else None)


def r2_latest_arrival_recurrence(F, r):
    """backward pass: latest_departure_i = latest_arrival_{i+1} - duration(loc_i -> loc_{i+1}, Arrival(latest_arrival_{i+1})); latest_arrival_i = estimate_arrival(act_i,
    latest_departure_i); future waiting_i = future waiting_{i+1} + max(tw.start_i - arrival_i, 0)"""
    root = F.find1("schedule_update::update_states")
    cls = [g for g in F.family(root) if any(t["callee"] == TCD + "duration" for _, t in mir.calls(F.fns[g]))]
    if not cls:
        raise AnchorError("update_states: the travel duration is no longer queried")
    g = cls[0]
    fn = F.fns[g]
    if len(cls) != 1 or fn["kind"] != "Closure" or fn["argc"] < 3 or not fn["locals"][2].startswith("("):
        r.ok("update_states: form", "not decided: the backward pass is not written as a fold over an (end time, location, waiting) triple")
        return
    acc, act = ("arg", 2), ("arg", 3)
    dur = [t for _, t in mir.calls(fn) if t["callee"] == TCD + "duration"]
    arr = [t for _, t in mir.calls(fn) if t["callee"].endswith("ActivityCost::estimate_arrival")]
    if len(dur) != 1 or len(arr) != 1:
        raise AnchorError(f"update_states closure: {len(dur)} duration, {len(arr)} estimate_arrival calls")
    dur, arr = dur[0], arr[0]
    e_from, e_to, e_time = (mir.expr(fn, a) for a in dur["args"][2:5])

    def chk(inst, ok, good, bad, ln):
        if ok:
            r.ok("update_states: " + inst, good)
        else:
            r.fail("update_states: " + inst, bad, F.loc(g, ln))
    chk("leg origin", e_from == (act, ("*", ".place", ".location")), "duration queried from this activity's location ...", "the backward leg is not queried FROM the current activity's location", dur["ln"])
    chk("leg destination", e_to == (acc, (".1",)), "... to the location of the following activity (carried)", "the backward leg is not queried TO the location carried from the following activity", dur["ln"])
    chk("leg time", e_time[0][0] == "agg" and e_time[0][1].endswith("TravelTime#Arrival") and e_time[0][2] and e_time[0][2][0] == (acc, (".0",)),
        "... arriving at the following activity's latest arrival (carried)", "the backward leg is not queried at TravelTime::Arrival(latest arrival of the following activity)", dur["ln"])
    e_dep = mir.expr(fn, arr["args"][-1])
    ok = e_dep[0][0] == "bin" and e_dep[0][1] == "Sub" and e_dep[0][2] == (acc, (".0",)) and _is_call(e_dep[0][3], "TransportCost::duration")
    chk("latest departure", ok, "latest departure = following latest arrival - travel duration", "the latest departure is not `latest arrival of the following activity - travel duration` "
        "(operands swapped or added): latest arrivals are too late and infeasible insertions pass the time-window gate", arr["ln"])
    chk("latest arrival subject", mir.expr(fn, arr["args"][-2])[0] == act, "estimate_arrival asked about this activity", "estimate_arrival is not asked about the current activity", arr["ln"])
    eqs = [st for _, _, st in mir.stmts(fn) if st["r"]["k"] == "bin" and st["r"]["op"] in ("Eq", "Ne")]
    unb = [st for st in eqs if any("MAX" in str(mir.expr(fn, o)[0][1]) for o in st["r"]["o"] if mir.expr(fn, o)[0][0] == "const")]
    if unb:
        st = unb[0]
        others = [mir.expr(fn, o) for o in st["r"]["o"] if not (mir.expr(fn, o)[0][0] == "const")]
        chk("unbounded shortcut", others == [(acc, (".0",))], "the window end is used directly only while the CARRIED latest time is unbounded (MAX)",
            "the `no limit yet` shortcut tests something other than the latest time carried from the following activity: with an open shift end the latest arrivals of "
            "earlier activities ignore the windows of later ones (infeasible insertions pass)", st.get("ln"))
    # whatever form the shortcut takes (a comparison here, a flag computed elsewhere): the branch that decides whether estimate_arrival is consulted must depend on the CARRIED triple
    arr_b = [bi for bi, t in mir.calls(fn) if t is arr][0]
    for sb, bb in enumerate(fn["bbs"]):
        tt = bb["t"]
        if tt["k"] != "switch" or not mir.dominates(fn, sb, arr_b) or sb == arr_b:
            continue
        edges = [tb for _, tb in tt["tg"]] + [tt["else"]]
        skipping = [e for e in edges if arr_b not in mir.reach(fn, [e])]
        if not skipping:
            continue
        leaves, _ = mir.deep_leaves(fn, tt["o"])
        # a per-ACTIVITY decision (the depot ends carry no job: `act.job.is_none()`) is not a shortcut over the recurrence; a decision that reads neither the carried
        # triple nor the activity is a per-route constant
        carried = any(k == "arg" and v in (2, 3) for k, v, p_ in leaves)
        if skipping and all(not set(mir.ret_blocks(fn)) & mir.reach(fn, [e]) for e in skipping):
            continue        # the skipping edge never returns (panic)
        chk("shortcut depends on the carried time", carried, "every decision to bypass estimate_arrival reads the carried (latest time, location, waiting) triple or the activity itself",
            "the decision to use the activity's own window end instead of the propagated latest arrival does not depend on what is carried from the following activities "
            "(a per-route constant such as `the shift has no end`): with an open shift end the latest arrivals of earlier activities ignore the windows of later ones", tt.get("ln") or arr["ln"])
    # waiting: pushes an Add(acc.2, max(Sub(tw.start, arrival), 0))
    ok = False
    for _, t in mir.calls(fn):
        if t["callee"].endswith("Vec::<T, A>::push") and len(t["args"]) == 2:
            e = mir.expr(fn, t["args"][1])
            if e[0][0] == "bin" and e[0][1] == "Add" and (acc, (".2",)) in e[0][2:4]:
                other = [x for x in e[0][2:4] if x != (acc, (".2",))]
                if other and _is_call(other[0], "<impl f64>::max"):
                    sub = [x for x in other[0][0][2] if x[0][0] == "bin"]
                    zero = [x for x in other[0][0][2] if x[0][0] == "const" and str(x[0][1]).startswith("0")]
                    if sub and zero and sub[0][0][1] == "Sub" and sub[0][0][2] == (act, ("*", ".place", ".time", ".start")) and sub[0][0][3] == (act, ("*", ".schedule", ".arrival")):
                        ok = True
    chk("future waiting", ok, "waiting = following waiting + max(tw.start - arrival, 0)", "the future waiting time is not `carried waiting + max(window start - arrival, 0)`", fn["bbs"][0]["s"][0].get("ln") if fn["bbs"][0]["s"] else None)


def r3_activity_time_formulas(F, r):
    """SimpleActivityCost: departure = max(arrival, window start) + service duration; latest arrival = min(window end, departure - service duration)"""
    AC = "vrp_core::models::problem::costs::ActivityCost::"
    dep = [m for m in F.trait_impl_methods(AC + "estimate_departure") if "SimpleActivityCost" in m]
    arr = [m for m in F.trait_impl_methods(AC + "estimate_arrival") if "SimpleActivityCost" in m]
    if len(dep) != 1 or len(arr) != 1:
        raise AnchorError("SimpleActivityCost::estimate_departure / estimate_arrival")
    act = ("arg", 3)
    tw = lambda f: (act, ("*", ".place", ".time", f))
    dur = (act, ("*", ".place", ".duration"))
    t = (("arg", 4), ())
    fn = F.fns[dep[0]]
    e = mir.expr(fn, {"l": 0, "p": []})
    ok = e[0][0] == "bin" and e[0][1] == "Add" and dur in e[0][2:4]
    if ok:
        other = [x for x in e[0][2:4] if x != dur][0]
        ok = _is_call(other, "<impl f64>::max") and set(other[0][2]) == {t, tw(".start")}
    if ok:
        r.ok("SimpleActivityCost::estimate_departure", "max(arrival, window start) + service duration")
    else:
        r.fail("SimpleActivityCost::estimate_departure", "departure is not `max(arrival, time window start) + service duration`: service would start before the window opens, or the "
               "service time is not accounted", F.loc(dep[0]))
    fn = F.fns[arr[0]]
    e = mir.expr(fn, {"l": 0, "p": []})
    ok = _is_call(e, "<impl f64>::min") and len(e[0][2]) == 2 and tw(".end") in e[0][2]
    if ok:
        other = [x for x in e[0][2] if x != tw(".end")][0]
        ok = other[0][0] == "bin" and other[0][1] == "Sub" and other[0][2] == t and other[0][3] == dur
    if ok:
        r.ok("SimpleActivityCost::estimate_arrival", "min(window end, departure - service duration)")
    else:
        r.fail("SimpleActivityCost::estimate_arrival", "latest arrival is not `min(time window end, departure - service duration)`: latest arrivals are overestimated and late insertions pass "
               "the time-window gate", F.loc(arr[0]))


def r4_capacity_recurrence(F, r):
    """capacity summaries: current_i = current_{i-1} + change_i; max_past_i = max_load(max_past_{i-1}, current_i); max_future_i = max_load(max_future_{i+1}, current_i)"""
    cls = [g for g in F.fns if "CapacitatedMultiTrip" in g and "recalculate_states" in g and F.fns[g]["kind"] == "Closure"]
    fwd = [g for g in cls if any(t["callee"].endswith("::max_load") for _, t in mir.calls(F.fns[g])) and any(t["callee"].endswith("arith::Add::add") for _, t in mir.calls(F.fns[g]))
           and F.fns[g]["argc"] >= 3 and F.fns[g]["locals"][2].startswith("(")]
    if not cls:
        raise AnchorError("CapacitatedMultiTrip::recalculate_states closures")
    if len(fwd) != 1:
        r.ok("recalculate_states: form", "not decided: the forward load pass is not written as a fold over a (current, max) pair")
        return
    g = fwd[0]
    fn = F.fns[g]
    acc = ("arg", 2)
    add = [t for _, t in mir.calls(fn) if t["callee"].endswith("arith::Add::add")]
    mx = [t for _, t in mir.calls(fn) if t["callee"].endswith("::max_load")]
    if len(add) != 1 or len(mx) != 1:
        raise AnchorError(f"recalculate_states forward closure: {len(add)} additions, {len(mx)} max_load calls")
    e_cur = (("call", add[0]["callee"], tuple(mir.expr(fn, a) for a in add[0]["args"])), ())
    a0 = mir.expr(fn, add[0]["args"][0])

    def chk(inst, ok, good, bad, ln):
        if ok:
            r.ok("recalculate_states: " + inst, good)
        else:
            r.fail("recalculate_states: " + inst, bad, F.loc(g, ln))
    chk("current load", a0 == (acc, (".0",)) and _mentions(mir.expr(fn, add[0]["args"][1]), lambda rt, pth: rt[0] == "call" and (rt[1].endswith("::change") or rt[1].endswith("get_demand"))),
        "current = carried current + demand change of the activity", "the running load is not `carried load + demand change of this activity`", add[0]["ln"])
    margs = [mir.expr(fn, a) for a in mx[0]["args"]]
    chk("past maximum", (acc, (".1",)) in margs and e_cur in margs, "max_past = max_load(carried max, current)",
        "the running past maximum is not `max_load(carried maximum, current load)`: earlier load peaks are forgotten, so a static delivery that does not fit next to an earlier peak is admitted", mx[0]["ln"])
    ret = mir.expr(fn, {"l": 0, "p": []})
    e_max = (("call", mx[0]["callee"], tuple(margs)), ())
    chk("carry", ret[0][0] == "agg" and len(ret[0][2]) == 2 and ret[0][2][0] == e_cur and ret[0][2][1] == e_max, "(current, max) carried to the next activity",
        "the pair carried to the next activity is not (new current load, new past maximum)", mx[0]["ln"])
    # backward pass: max_future
    bwd = [g2 for g2 in cls if g2 != g and any(t["callee"].endswith("::max_load") for _, t in mir.calls(F.fns[g2])) and F.fns[g2]["argc"] >= 3 and not F.fns[g2]["locals"][2].startswith("(")]
    for g2 in bwd:
        f2 = F.fns[g2]
        m2 = [t for _, t in mir.calls(f2) if t["callee"].endswith("::max_load")][0]
        ma = [mir.expr(f2, a) for a in m2["args"]]
        idx = [x for x in ma if _is_call(x, "Index::index")]
        ok = (("arg", 2), ()) in ma and idx and (("arg", 3), ()) in idx[0][0][2]
        if ok:
            r.ok("recalculate_states: future maximum", "max_future = max_load(carried max, current load at the index)")
        else:
            r.fail("recalculate_states: future maximum", "the running future maximum is not `max_load(carried maximum, current load at this index)`", F.loc(g2, m2["ln"]))


HANDOVER = list(typestate.HANDOVER_TRAIT_METHODS) + ["vrp_core::solver::search::recreate::Recreate::run"]
T1_EXCEPTIONS = {
    "<vrp_core::solver::processing::vicinity_clustering::VicinityClustering as rosomaxa::evolution::HeuristicSolutionProcessing>::post_process":
        "output shaping after the search has ended: expands cluster jobs into original jobs on the final solution and writes schedules itself",
}


def t1_handover(F, r):
    ts = typestate.TS(F)
    for tm in HANDOVER:
        for m in F.trait_impl_methods(tm):
            if m == tm or not m.lstrip("<").startswith("vrp_core::"):
                continue
            fn = F.fns[m]
            ex, rets, IN = ts.run(fn, frozenset("C"))
            name = util.short_fn(m)
            if "D" in ex:
                if m in T1_EXCEPTIONS:
                    r.ok(name, "exception: " + T1_EXCEPTIONS[m])
                    continue
                w = ts.dirty_witness(fn)
                r.fail(name, "a solution with a possibly stale route cache can be handed over: some path mutates a route "
                             f"(e.g. {', '.join(util.short_fn(c) + '@' + str(l) for l, c in w[:3])}) and reaches return without goal.accept_*",
                       F.loc(m))
            else:
                r.ok(name, "returns Clean from a Clean entry on every path")


def i1_insert_then_accept(F, r):
    ins = ("vrp_core::models::solution::tour::Tour::insert_at", "vrp_core::models::solution::tour::Tour::insert_last")
    for root in (F.find1("ShadowContext::insert"), F.find1("insertions::apply_insertion_success")):
        fn = F.fns[root]
        sites = util.family_call_sites(F, root, lambda t: t["callee"] in ins)
        if not sites:
            r.fail(util.short_fn(root), "anchor no longer inserts into a tour (rule would be vacuous)", fn["span"])
            continue
        acc = [bi for bi, t in mir.calls(fn) if t["callee"] in (GOAL_ROUTE, GOAL_INS)]
        for cfid, bi, t, rb in sites:
            if rb is not None and acc and util.must_pass(fn, [rb], acc):
                r.ok(util.short_fn(root), "tour mutation followed by goal.accept_* on every path")
            else:
                r.fail(util.short_fn(root), "tour mutated and a path reaches return without goal.accept_route_state/accept_insertion: "
                                            "evaluation of the next sub-job / next insertion reads stale caches", F.loc(cfid, t["ln"]))


def k10_fresh_solution_state(F, r):
    """per-solution aggregates (SolutionState slots) are functions of the routes of THEIR solution: a SolutionContext assembled over another set of routes (partial contexts of
    the decomposition, contexts built from a problem / an existing solution) must start from an empty state — only `SolutionContext::deep_copy` (same routes) copies it"""
    n = 0
    for fid, fn in sorted(F.fns.items()):
        if "::promoted[" in fid:
            continue
        for bi, si, st in mir.stmts(fn):
            rv = st["r"]
            if rv["k"] != "agg" or not rv.get("n", "").endswith("heuristics::context::SolutionContext#SolutionContext") or "state" not in (rv.get("fs") or []):
                continue
            n += 1
            name = util.short_fn(F.root_of(fid))
            leaves, crossed = mir.deep_leaves(fn, rv["o"][rv["fs"].index("state")])
            copied = [(k, p) for k, v, p in leaves if k in ("arg", "local") and "state" in [str(x) for x in p]]
            fresh = not copied        # built by Default / a constructor / a helper: anything but a copy of another context's `state` field
            if F.root_of(fid).endswith("SolutionContext::deep_copy"):
                r.ok(f"{name}: state", "copy of the same routes: aggregates stay valid")
            elif fresh:
                r.ok(f"{name}: state", "starts from an empty SolutionState (aggregates are recomputed by accept_solution_state)")
            else:
                r.fail(f"{name}: state", "a solution context over a DIFFERENT set of routes is given a copy of another solution's SolutionState: its cached per-solution aggregates "
                       "(work balance, tour order violations, footprint ...) describe other tours, so fitness is no longer a function of the context's own tours", F.loc(fid, st.get("ln")))
    if n < 5:
        raise AnchorError(f"only {n} SolutionContext constructions found (6 counted on the pinned tree)")


def k11_refresh_code_is_live(F, r):
    """cache maintenance that is never called maintains nothing: every private function of the construction layer that WRITES a route / solution state slot has at least one
    caller (a slot whose only writer lost its last call site keeps whatever was cached before — the slot tables K1–K9 would still see `a writer exists`)"""
    n = 0
    for fid, fn in sorted(F.fns.items()):
        if fn["kind"] != "Fn" or "::promoted[" in fid or not fid.startswith("vrp_core::construction::"):
            continue
        if fn.get("vis", "") == "pub" or fn.get("impl_trait"):
            continue
        writes = [t for g in F.family(fid) for _, t in mir.calls(F.fns[g])
                  if t["callee"].split("::")[-1].startswith("set_") and ("RouteState" in t["callee"] or "SolutionState" in t["callee"] or "state" in " ".join(t.get("argtys", [])[:1]).lower())]
        if not writes:
            continue
        n += 1
        cs = [c for c in cg.callers(F, fid) if F.root_of(c[0]) != fid]
        name = util.short_fn(fid)
        if cs:
            r.ok(f"{name}: live", f"{len(cs)} call site(s)")
        else:
            r.fail(f"{name}: live", f"this function writes cached state ({writes[0]['callee'].split('::')[-1]}) but nothing calls it any more: the slot it maintains is never refreshed and keeps "
                   "stale values (or stays empty)", F.loc(fid))
    if n < 2:
        raise AnchorError(f"only {n} private state-writing functions found in vrp_core::construction (2 counted on the pinned tree)")


def run(ctx):
    F = ctx.F
    ctx.explanation = (
        "Static cache-coherence protocol analysis over MIR of all workspace crates: (S1) the stale bit cannot be bypassed "
        "(private fields; every &mut hand-out marks stale on all paths), (S2) only the two refresh helpers and one reasoned "
        "exception clear it and only after running every feature's refresh, (K4-K8) per FeatureState impl the TypeId-keyed "
        "slots written per route/insertion are also refreshed where stale bits get cleared, (T1) typestate: no hand-over "
        "function returns a solution with a possibly stale route, (I1) insert-then-accept pairing in the evaluator, (K9) a slot that a "
        "refresh sets on some paths only is removed on the others — must-write over the accessor wrappers, the compatibility tag's presence law evaluated over "
        "new x current in {None,Some}^2 — or its guard is constant per route (reasoned table).")
    ctx.explanation += ' Every SolutionContext built over another set of routes starts from an empty SolutionState (K10); every bypass of estimate_arrival in the backward pass reads the carried triple or the activity (R2).'
    ctx.not_decided = ("that incremental updates compute the same VALUES as recomputation (e.g. the documented approximation in "
                       "HierarchicalAreasState::accept_insertion); solution-level aggregates between two insertions.")
    ctx.assumptions += [
        "class-hierarchy resolution of dyn/generic calls to workspace traits; std-trait generic calls are not fanned out",
        "closures are may-run callees at their construction site; calls through stored Arc<dyn Fn> fields are not followed",
        "typestate is one bit per function (not per route object): can miss, cannot invent a Dirty exit",
        "same-named generic parameters inside one module denote the same binding",
    ]
    unknown, missing = kv.check_primitives(F)
    r0 = ctx.rule("C05-K0", "the any-map primitive table matches the functions that key maps by TypeId", floor=12)
    for u in sorted(unknown):
        r0.fail(util.short_fn(u), "function keys a map by TypeId::of but is not in the slot-primitive table: its slots are invisible to K rules", F.loc(u))
    for m in sorted(missing):
        r0.fail(util.short_fn(m), "slot primitive from the table no longer uses TypeId::of (renamed/rewritten?)")
    for p in sorted(set(kv.PRIMS) - missing):
        r0.ok(util.short_fn(p))
    ctx.run("C05-S1", "staleness is unforgeable: RouteContext fields private; every &mut hand-out marks stale; new contexts start stale / copy the bit", s1_unforgeable, floor=8)
    ctx.run("C05-S2", "the stale bit is cleared only by the refresh protocol (after all refreshes) and one reasoned exception", s2_who_may_clear, floor=4)
    try:
        k_rules(F, ctx)
    except AnchorError as e:
        ctx.rule("C05-K", "slot refresh rules").broken(str(e))
    from . import c01 as _c01
    ctx.run("C01-D1", "routing legs are queried in travel direction (the cached tour distance / duration feeds the fitness and the report)", _c01.d1_leg_direction, floor=4)
    ctx.run("C05-R1", "schedule recurrence: arrival/departure/carry of the forward pass and the total duration have their defining form (canonical expressions)", r1_schedule_recurrence, floor=1)
    ctx.run("C05-R2", "latest-arrival / waiting recurrence of the backward pass has its defining form (canonical expressions)", r2_latest_arrival_recurrence, floor=1)
    ctx.run("C05-R3", "activity time formulas: departure = max(arrival, tw.start) + duration; latest arrival = min(tw.end, departure - duration)", r3_activity_time_formulas, floor=2)
    ctx.run("C05-R4", "capacity summaries: running load, past maximum and future maximum have their defining recurrence (canonical expressions)", r4_capacity_recurrence, floor=1)
    ctx.run("C05-T1", "typestate: every hand-over function returns only solutions whose routes were accepted after the last mutation", t1_handover, floor=25)
    ctx.run("C05-I1", "tour insertion in evaluator/insertion code is followed by goal.accept_* on every path", i1_insert_then_accept, floor=2)
    ctx.extra["slots"] = {"route": len({o.key for o in kv.ops(F) if o.store == "route"}),
                          "solution": len({o.key for o in kv.ops(F) if o.store == "solution"}),
                          "call_sites": len(kv.ops(F))}
