"""C02 — every job is accounted for exactly once: conservation shape of job movements."""
import collections

from .. import cg, mir, util
from ..facts import AnchorError

SC = "vrp_core::construction::heuristics::context::SolutionContext"
TOUR = "vrp_core::models::solution::tour::Tour::"
REM = ("retain", "retain_mut", "drain", "remove", "clear", "truncate", "pop", "swap_remove", "take", "split_off", "remove_entry")
ARR = ("push", "extend", "insert", "append", "extend_from_slice", "entry")
PLACES = ("required", "ignored", "unassigned", "routes")

# functions whose removals are not paired inside the guard neighbourhood, with the reason where the jobs go (module/function level, never per line)
P1_TABLE = {
    "vrp_core::solver::search::local::exchange_inter_route::get_new_insertion_ctx": "works on a deep copy of the whole context; the removed seed job is re-inserted by the caller or the copy is discarded (documented NOTE in the function)",
    "vrp_core::solver::search::local::exchange_swap_star::try_exchange_jobs": "removal on a private deep copy of the route; the copy replaces the route only together with the re-evaluated insertion of the job (apply_insertion_with_route)",
    "vrp_core::models::solution::tour::Tour::remove_activity_at": "primitive: returns the removed job to its caller (callers are checked)",
    "vrp_core::construction::heuristics::context::SolutionContext::remove_empty_routes": "empty routes only: the predicate is tour.has_jobs()",
    "vrp_core::construction::heuristics::context::InsertionContext::restore": "calls remove_empty_routes (empty routes only)",
    "vrp_core::construction::probing::repair_solution::repair_solution_from_unknown": "jobs moved out of required/ignored/unassigned were inserted into tours by synchronize_jobs (callee of the same function)",
    "vrp_core::solver::search::local::exchange_swap_star::find_insertion_cost": "private deep copy of the route for cost probing, never stored back",
    "vrp_core::solver::search::local::exchange_swap_star::remove_job_with_copy": "returns a private deep copy used for cost probing",
    "vrp_core::solver::search::local::exchange_inter_route::find_best_insertion_pair": "private deep copy (test_route) for cost probing",
    "<vrp_core::solver::processing::unassignment_reason::UnassignmentReason as rosomaxa::evolution::HeuristicSolutionProcessing>::post_process": "rewrites the reasons of the same keys in place (drain + re-insert of every key)",
}


def _upvar_place(fn, proj):
    if fn["kind"] == "Closure" and proj and proj[0].isdigit():
        ups = fn.get("upvars", [])
        i = int(proj[0])
        if i < len(ups):
            nm = ups[i][0]
            for p in PLACES:
                if nm.endswith("__" + p) or nm == p:
                    return p
    return None


def effects(F):
    """root fn -> {'rem': {place: (fid, ln)}, 'arr': {...}}"""
    eff = getattr(F, "_c02_eff", None)
    if eff is not None:
        return eff
    eff = collections.defaultdict(lambda: {"rem": {}, "arr": {}})
    for fid, fn in F.fns.items():
        if "::promoted[" in fid or not fid.lstrip("<").startswith("vrp_"):
            continue
        root = F.root_of(fid)
        for bi, t in mir.calls(fn):
            c = t["callee"]
            last = c.split("::")[-1]
            if c in (TOUR + "remove", TOUR + "remove_activity_at"):
                eff[root]["rem"].setdefault("tour", (fid, t["ln"]))
            elif c in (TOUR + "insert_at", TOUR + "insert_last"):
                eff[root]["arr"].setdefault("tour", (fid, t["ln"]))
            elif c in (SC + "::keep_routes", SC + "::remove_empty_routes"):
                eff[root]["rem"].setdefault("routes", (fid, t["ln"]))
            elif t["args"] and t["argtys"] and t["argtys"][0].startswith("&mut") and (last in REM or last in ARR):
                ty = t["argtys"][0]
                if "::jobs::Job" not in ty and "RouteContext" not in ty:
                    continue
                for k, v, p in mir.trace(fn, t["args"][0]):
                    fld = [x for x in p if x in PLACES]
                    place = fld[-1] if fld else _upvar_place(fn, p)
                    if place:
                        eff[root]["rem" if last in REM else "arr"].setdefault(place, (fid, t["ln"]))
            elif c.endswith("mem::take") and t["args"]:
                for k, v, p in mir.trace(fn, t["args"][0]):
                    fld = [x for x in p if x in PLACES]
                    if fld:
                        eff[root]["rem"].setdefault(fld[-1], (fid, t["ln"]))
        for bi, si, s in mir.stmts(fn):
            pf = mir.proj_fields(s["d"])
            if pf and pf[-1][0] == SC and pf[-1][1] in PLACES:
                eff[root]["rem"].setdefault(pf[-1][1] + "=", (fid, s["ln"]))
                eff[root]["arr"].setdefault(pf[-1][1] + "=", (fid, s["ln"]))
    F._c02_eff = eff
    return eff


def _direct_callee_roots(F, root):
    out = set()
    for fid in F.family(root):
        for kind, bi, tg, t in cg.edges(F, fid, cha=False):
            if kind in ("call", "fnval") and tg in F.fns:
                out.add(F.root_of(tg))
    out.discard(root)
    return out


def _arrivals_near(F, eff, root):
    arr = set(eff[root]["arr"]) if root in eff else set()
    for c in _direct_callee_roots(F, root):
        if c in eff:
            arr |= set(eff[c]["arr"])
    return {a.rstrip("=") for a in arr}, {a for a in arr if a.endswith("=")}


def p1_pairing(F, r):
    eff = effects(F)
    n = 0
    for root in sorted(eff):
        e = eff[root]
        if not e["rem"]:
            continue
        n += 1
        name = util.short_fn(root)
        arr, reassign = _arrivals_near(F, eff, root)
        missing = []
        for place, (fid, ln) in sorted(e["rem"].items()):
            base = place.rstrip("=")
            if place.endswith("="):
                continue  # whole-field assignment is both removal and arrival: handled by its source
            if (arr - {base}) or (base + "=") in reassign:
                continue
            missing.append((place, fid, ln))
        if not missing:
            r.ok(name, f"removals {sorted(e['rem'])} paired with arrivals {sorted(arr)}")
            continue
        # jobs handed to the caller?
        fn = F.fns[root]
        ret = fn["locals"][0]
        handed = "::jobs::Job" in ret or "InsertionContext" in ret or "RouteContext" in ret
        ok_callers = False
        if handed:
            callers = {F.root_of(c[0]) for c in cg.callers(F, root)} - {root}
            if callers:
                ok_callers = True
                for c in callers:
                    carr, cre = _arrivals_near(F, eff, c)
                    if not carr and not cre:
                        ok_callers = False
        if ok_callers:
            r.ok(name, "removed jobs are returned to callers that place them")
        elif root in P1_TABLE:
            r.ok(name, "table: " + P1_TABLE[root])
        else:
            place, fid, ln = missing[0]
            r.fail(name, f"jobs are removed from `{place}` but neither this function, its direct callees nor its callers add them to another place "
                         f"(required / ignored / unassigned / a tour): the jobs vanish from the solution", F.loc(fid, ln))
    if n < 20:
        raise AnchorError(f"only {n} functions with job removals found")
    # the `empty routes only` row is checked, not trusted
    rer = SC + "::remove_empty_routes"
    if rer not in F.fns:
        # the helper was inlined: the predicate is the closure handed to keep_routes in InsertionContext::restore
        rer = "vrp_core::construction::heuristics::context::InsertionContext::restore"
        if rer not in F.fns:
            raise AnchorError(rer)
    ok = any(t["callee"] == TOUR + "has_jobs" for g in F.family(rer) for _, t in mir.calls(F.fns[g]))
    if ok:
        r.ok("remove_empty_routes predicate", "keeps routes with tour.has_jobs()")
    else:
        r.fail("remove_empty_routes predicate", "routes are dropped by a predicate other than tour.has_jobs(): jobs of dropped routes vanish", F.loc(rer))


def p3_final_report(F, r):
    conv = [i for i, f in F.fns.items() if f["trait_item"] == "core::convert::From::from" and f["impl_self"].endswith("models::domain::Solution") and "Option<" in f["locals"][1]]
    if len(conv) != 1:
        raise AnchorError(f"Solution::from((InsertionContext, Option<..>)): {len(conv)}")
    m = conv[0]
    fn = F.fns[m]
    found = False
    for bi, si, s in mir.stmts(fn):
        rv = s["r"]
        if rv["k"] == "agg" and rv.get("n", "").endswith("domain::Solution#Solution"):
            found = True
            ops = dict(zip(rv["fs"], rv["o"]))
            ul, uc = mir.deep_leaves(fn, ops["unassigned"])
            fields = {f for k, v, p in ul for f in p}
            # closures in the chain read the fields through the iterator sources
            if "unassigned" in fields and "required" in fields:
                r.ok("Solution::from: unassigned", "built from solution.unassigned chained with solution.required")
            else:
                r.fail("Solution::from: unassigned", f"the reported unassigned list is built from {sorted(fields & set(PLACES))} only: jobs still `required` (interrupted search) or already unassigned are not reported at all", F.loc(m, s["ln"]))
            rl, rc = mir.deep_leaves(fn, ops["routes"])
            rfields = {f for k, v, p in rl for f in p}
            limiting = [c.split("::")[-1] for c in rc if c.split("::")[-1] in ("filter", "take", "skip", "filter_map", "take_while", "step_by")]
            if "routes" in rfields and not limiting:
                r.ok("Solution::from: routes", "every route of the context is reported")
            else:
                r.fail("Solution::from: routes", f"reported routes are filtered ({limiting}) or not taken from solution.routes", F.loc(m, s["ln"]))
    if not found:
        r.fail("Solution::from", "Solution construction not found", F.loc(m))
    # pragmatic writer: all routes -> tours, unassigned created from the solution
    cs = F.find1("solution_writer::create_solution")
    cfn = F.fns[cs]
    fam_calls = [t["callee"].split("::")[-1] for g in F.family(cs) for _, t in mir.calls(F.fns[g])]
    chain = [t["callee"].split("::")[-1] for _, t in mir.calls(cfn) if "Iterator" in t["callee"]]
    if "create_tour" in fam_calls and not [c for c in chain if c in ("filter", "take", "skip", "filter_map", "take_while")]:
        r.ok("create_solution: tours", "every route is written as a tour")
    else:
        r.fail("create_solution: tours", "not every route of the solution is written as a tour", F.loc(cs))
    if "create_unassigned" in fam_calls:
        r.ok("create_solution: unassigned", "unassigned list written from the solution")
    else:
        r.fail("create_solution: unassigned", "the unassigned list is not written", F.loc(cs))


ID_SITES = {"read_locks", "read_optional_breaks", "read_specific_job_places", "get_reload_resources", "try_match_point_job"}


def p4_conditional_job_ids(F, r):
    """the writer(s) and re-reader of conditional job ids (`<vehicle>_<type>_<shift>_<index>`) use one template"""
    import re
    sites = [a for a in F.attrs if a["t"] == "fmt" and a["file"].startswith("vrp-pragmatic/src/format") and a["func"].split("::")[-1] in ID_SITES and "_" in a["template"]
             and re.fullmatch(r"(\{[^}]*\}|[a-z]+)(_(\{[^}]*\}|[a-z]+))+", a["template"])]
    if len(sites) < 5:
        raise AnchorError(f"only {len(sites)} conditional-id templates found")
    shapes = set()
    for a in sites:
        segs = re.findall(r"\{[^}]*\}|[a-z]+", a["template"])
        shape = tuple("{}" if sgm.startswith("{") else "lit" for sgm in segs)
        inst = f"{a['func'].split('::')[-1]}: {a['template']}"
        if len(segs) == 4 and shape[0] == "{}" and shape[2] == "{}" and shape[3] == "{}":
            r.ok(inst, "vehicle_type_shift_index")
        else:
            r.fail(inst, "conditional job id is built/parsed with a template that differs from `<vehicle>_<type>_<shift>_<index>`: breaks/reloads written by one reader are not found by the other (lost or duplicated stops)", f"{a['file']}:{a['line']}")


# A job is in exactly one of: a tour, `required`, `ignored`, `unassigned`. Functions that MOVE jobs into a place must take them out of the places they can
# come from; each row was confirmed by reading the function (arrival place -> places that must be cleaned in the same function or a direct callee).
MOVES = {
    "vrp_core::construction::heuristics::insertions::apply_insertion_success": [("tour", ("required", "unassigned"), "an inserted job leaves the to-do list and a former failure record")],
    "vrp_core::construction::heuristics::insertions::apply_insertion_failure": [("unassigned", ("required",), "a job that failed insertion leaves the to-do list")],
    "vrp_core::construction::heuristics::insertions::finalize_unassigned": [("unassigned", ("required",), "left-overs become unassigned")],
    "vrp_core::construction::heuristics::factories::update_insertion_context": [("unassigned", ("required",), "required jobs of an initial solution are drained into unassigned")],
    "vrp_core::construction::enablers::conditional_job::process_conditional_jobs": [("ignored", ("required", "unassigned"), "a conditional job that becomes pending leaves required and any failure record"),
                                                                                      ("required", ("ignored",), "a promoted conditional job leaves the pending list")],
    "<vrp_core::construction::enablers::multi_trip::MultiTripState as vrp_core::models::goal::FeatureState>::accept_insertion": [
        ("ignored", ("required", "unassigned"), "markers that are no longer needed go back to pending"), ("required", ("ignored",), "markers needed for a new interval leave pending")],
    "<vrp_core::construction::features::recharge::RechargeableMultiTrip as vrp_core::construction::enablers::multi_trip::MultiTrip>::try_recover": [("required", ("ignored",), "recharge markers promoted for recovery")],
    "vrp_core::construction::enablers::route_intervals::RouteIntervals::promote_markers_when_needed": [("required", ("ignored",), "markers promoted to required")],
    "vrp_core::construction::enablers::route_intervals::RouteIntervals::remove_trivial_markers": [("ignored", ("tour",), "a useless marker goes from its tour back to pending")],
    "vrp_core::construction::features::breaks::OptionalBreakState::<JT>::remove_invalid_breaks": [("unassigned", ("tour",), "an invalid break leaves its tour"), ("ignored", ("unassigned",), "a stale break record moves to pending")],
    "vrp_core::solver::search::redistribute_search::remove_jobs": [("unassigned", ("tour",), "redistributed jobs leave their tour")],
    "vrp_core::solver::search::utils::removal::JobRemovalTracker::try_remove_job": [("required", ("tour",), "a ruined job leaves its tour")],
    "vrp_core::solver::search::utils::removal::JobRemovalTracker::remove_whole_route": [("required", ("routes",), "jobs of a dissolved route; the route is dropped")],
    "<vrp_core::solver::search::local::exchange_intra_route::ExchangeIntraRouteRandom as vrp_core::solver::search::local::LocalOperator>::explore": [("required", ("tour",), "the job to re-insert leaves its tour")],
    "vrp_core::construction::probing::repair_solution::repair_solution_from_unknown": [("tour", ("unassigned", "ignored", "required"), "jobs restored into tours by synchronize_jobs leave every list")],
}


def p6_moves_clean_sources(F, r):
    eff = effects(F)
    n = 0
    for root, rows in sorted(MOVES.items()):
        if root not in F.fns:
            r.fail(f"{util.short_fn(root)}: anchor", "function of the move table not found (renamed?): update vv/rules/c02.py MOVES after reading the new code", None)
            continue
        near = [root] + sorted(_direct_callee_roots(F, root))
        arr = set()
        rem = {}
        for g in near:
            if g in eff:
                arr |= {a.rstrip("=") for a in eff[g]["arr"]}
                for pl, site in eff[g]["rem"].items():
                    rem.setdefault(pl.rstrip("="), site)
        for g in near[1:]:
            for h in _direct_callee_roots(F, g):   # arrivals may sit one helper deeper (synchronize_jobs -> ShadowContext::insert)
                if h in eff:
                    arr |= {a.rstrip("=") for a in eff[h]["arr"]}
        name = util.short_fn(root)
        for place, sources, why in rows:
            n += 1
            if place not in arr:
                r.ok(f"{name}: -> {place}", "no longer adds jobs to this place (nothing to clean)")
                continue
            miss = [s_ for s_ in sources if s_ not in rem]
            if miss:
                fid, ln = eff[root]["arr"].get(place, (root, None)) if root in eff else (root, None)
                r.fail(f"{name}: -> {place}", f"jobs are added to `{place}` but no longer removed from `{'`, `'.join(miss)}` ({why}): the same job is then listed in two places "
                       "(served and unassigned/pending at once, or re-queued while still assigned)", F.loc(fid, ln))
            else:
                r.ok(f"{name}: -> {place}", f"cleans {', '.join(sources)} ({why})")
    if n < 18:
        raise AnchorError(f"only {n} move obligations evaluated")


def o1_subjob_order(F, r):
    """sub-jobs of a multi job are inserted left to right: the leg search for the next sub-job starts after the previous one"""
    sb = "vrp_core::construction::heuristics::selectors::LegSelection::sample_best"
    if sb not in F.fns:
        raise AnchorError(sb)
    fn = F.fns[sb]
    skip_arg = [int(k) for k, v in fn["names"].items() if v == "skip" and int(k) <= fn["argc"]]
    if not skip_arg:
        skip_arg = [i for i in range(1, fn["argc"] + 1) if fn["locals"][i] == "usize"]      # renamed: the start index is the only usize parameter
    if len(skip_arg) != 1:
        raise AnchorError("sample_best: the start-index parameter (the only usize parameter) was not found")
    skip_arg = skip_arg[0]
    legs = [(bi, t) for bi, t in mir.calls(fn) if t["callee"] == TOUR + "legs"]
    if not legs:
        raise AnchorError("sample_best: no Tour::legs enumeration")
    for k, (bi, t) in enumerate(legs):
        d = t["dest"]["l"]
        cons = [(bj, tt) for bj, tt in mir.calls(fn) if tt["args"] and mir.is_place(tt["args"][0]) and tt["args"][0]["l"] == d and not tt["args"][0]["p"]]
        inst = f"sample_best: legs#{k + 1}"
        if len(cons) == 1 and cons[0][1]["callee"].endswith("Iterator::skip") and any(kk == "arg" and v == skip_arg for kk, v, p in mir.trace(fn, cons[0][1]["args"][1])):
            r.ok(inst, "enumeration starts at the requested leg (.skip(skip))")
        else:
            r.fail(inst, "this leg enumeration ignores the start index requested by the caller: the next sub-job of a multi job (e.g. the delivery of a pickup-delivery pair) "
                   "can be placed before the previous one", F.loc(sb, t["ln"]))
    ar = F.find1("evaluators::analyze_insertion_in_route")
    f2 = F.fns[ar]
    calls = [(bi, t) for bi, t in mir.calls(f2) if t["callee"] == sb]
    if not calls:
        raise AnchorError("analyze_insertion_in_route: no sample_best call")
    init_arg = [int(k) for k, v in f2["names"].items() if v == "init" and int(k) <= f2["argc"]]
    for bi, t in calls:
        tr = mir.trace(f2, t["args"][skip_arg - 1])
        if any(kk == "arg" and p and p[-1] == "index" and (not init_arg or v == init_arg[0]) for kk, v, p in tr):
            r.ok("analyze_insertion_in_route: start index", "search starts at init.index (index after the previous sub-job)")
        else:
            r.fail("analyze_insertion_in_route: start index", "the leg search no longer starts at the index carried by the running SingleContext (init.index)", F.loc(ar, t["ln"]))


def _empty_route_drops(F, fn):
    """blocks of fn that drop the empty tours: remove_empty_routes(), or keep_routes(<closure testing tour.has_jobs()>)"""
    out = []
    for bi, t in mir.calls(fn):
        if t["callee"].endswith("SolutionContext::remove_empty_routes"):
            out.append(bi)
        elif t["callee"].endswith("SolutionContext::keep_routes") and (
                mir.closure_arg_calls(F, fn, t, lambda c: c == TOUR + "has_jobs")
                or any(tt["callee"] == TOUR + "has_jobs" for g in F.fns if g.startswith(fn["id"] + "::{closure#") for _, tt in mir.calls(F.fns[g]))):
            out.append(bi)
    return out


def p5_empty_tours_removed_last(F, r):
    """in every function that drops empty tours, no state acceptance (which may strip marker jobs and leave a tour empty) can follow the drop"""
    n = 0
    for fid, fn in sorted(F.fns.items()):
        if "::promoted[" in fid:
            continue
        rem = _empty_route_drops(F, fn)
        if not rem:
            continue
        n += 1
        acc = [(bi, t) for bi, t in mir.calls(fn) if t["callee"].endswith("::accept_solution_state")]
        name = util.short_fn(fid)
        if not acc:
            r.ok(f"{name}: remove_empty_routes", "no state acceptance in this function")
            continue
        rets = set(mir.ret_blocks(fn))
        for bi, t in acc:
            seen = mir.reach_from_succs(fn, bi, blocked=set(rem))
            if seen & rets:
                r.fail(f"{name}: accept_solution_state -> return", "a path from the state acceptance (which removes obsolete break/reload/recharge markers) reaches the return without a later "
                       "remove_empty_routes: a tour left with no job stays in the solution", F.loc(fid, t["ln"]))
            else:
                r.ok(f"{name}: accept_solution_state -> remove_empty_routes", "every path to the return drops empty tours afterwards")
    if n < 1:
        raise AnchorError("no function drops empty tours (remove_empty_routes / keep_routes(has_jobs))")
    restore = "vrp_core::construction::heuristics::context::InsertionContext::restore"
    if restore not in F.fns:
        raise AnchorError(restore)
    if not _empty_route_drops(F, F.fns[restore]):
        r.fail("InsertionContext::restore: remove_empty_routes", "restore no longer drops empty tours", F.loc(restore))
    else:
        r.ok("InsertionContext::restore: remove_empty_routes", "present")
    users = [c for (c, kind, bi, t) in cg.callers(F, restore) if t is not None]
    r.ok("restore callers", f"{len(set(users))} search/construct functions end with restore()")
    if len(set(users)) < 5:
        r.fail("restore callers floor", f"only {len(set(users))} callers of InsertionContext::restore (6 counted on the pinned tree)")


def x1_relation_jobs_not_clustered(F, r):
    """vicinity clustering: the job filter handed to the clustering is computed, on EVERY alternative, from the ids of jobs bound
    by relations (a relation names its jobs individually; a job merged into a cluster can no longer be placed where its relation
    says, or is served twice). Must-derive dataflow through branches, Option combinators, helpers and closures."""
    mod = "vrp_pragmatic::format::problem::clustering_reader"
    n = 0

    def is_source(fn, kind, x):
        if kind == "place":
            return any(isinstance(e, list) and e[0] == "f" and e[1].endswith("model::Plan") and e[2] == "relations" for e in x["p"])
        return False

    for fid, fn in sorted(F.fns.items()):
        if fn.get("module") != mod or "::promoted[" in fid:
            continue
        for bi, si, s in mir.stmts(fn):
            rv = s["r"]
            if rv["k"] == "agg" and rv.get("ak") == "adt" and rv.get("n", "").endswith("FilterPolicy#FilterPolicy") and "job_filter" in rv.get("fs", []):
                n += 1
                op = rv["o"][rv["fs"].index("job_filter")]
                inst = f"{fid.split('::')[-1]}: job filter"
                v = mir.must_derive(F, fn, op, is_source)
                if v is True:
                    r.ok(inst, "on every alternative the filter is computed from plan.relations")
                elif v is None:
                    r.ok(inst, "NOT decided: the filter's state is completed in place (through &mut) or through an indirect call")
                else:
                    r.fail(inst, "on some alternative (a branch, or one arm of an Option combinator) the clustering job filter is built without the ids of the jobs "
                           "bound by relations: such a job can be merged into a cluster although its relation pins it individually", F.loc(fid, s["ln"]))
    if n == 0:
        raise AnchorError("clustering_reader: no FilterPolicy { job_filter, .. } construction found")


DROPPING_ADAPTERS = ("adapters::filter::", "adapters::filter_map::", "adapters::skip::", "adapters::take::", "adapters::skip_while::", "adapters::take_while::",
                     "adapters::step_by::", "adapters::map_while::", "adapters::rev::")


def x2_shift_index_is_position(F, r):
    """a shift index names a POSITION in `vehicle.shifts` everywhere in the document (tours, relations, break / reload / recharge job ids, reserved times): every
    enumeration that numbers shifts runs over the bare shift list — no filter / skip / take / rev between `shifts.iter()` and `enumerate()` (decided on the iterator type)"""
    n = 0
    for fid, fn in sorted(F.fns.items()):
        if "::promoted[" in fid or not fid.lstrip("<").startswith("vrp_pragmatic::"):
            continue
        for bi, t in mir.calls(fn):
            if not t["callee"].endswith("Iterator::enumerate") or not t["ga"] or "model::VehicleShift" not in t["ga"][0]:
                continue
            n += 1
            inst = f"{util.short_fn(F.root_of(fid))}: shifts.enumerate()"
            bad = [d.split("::")[1] for d in DROPPING_ADAPTERS if d in t["ga"][0]]
            if bad:
                r.fail(inst, f"shifts are numbered AFTER `{', '.join(bad)}`: the number is no longer the position in `vehicle.shifts`, so breaks / reloads / reserved times are attached to "
                       "another shift than the one that defines them", F.loc(fid, t["ln"]))
            else:
                r.ok(inst, "numbers the bare shift list")
    if n < 4:
        raise AnchorError(f"only {n} enumerations over vehicle shifts found (5 counted on the pinned tree)")


def d1_decomposition_partitions_pools(F, r):
    """decomposition: the parent's pending pools (required / ignored / unassigned) go to exactly ONE partial context (the route-less one); every other partial context starts
    with empty pools, because `merge_best` extends the merged pools from every partial context — a pool handed to all of them comes back once per context"""
    root = F.find1("decompose_search::create_partial_insertion_ctx")
    n = 0
    for g in F.family(root):
        fn = F.fns[g]
        for bi, si, st in mir.stmts(fn):
            rv = st["r"]
            if rv["k"] != "agg" or not rv.get("n", "").endswith("heuristics::context::SolutionContext#SolutionContext"):
                continue
            for pool in ("required", "ignored", "unassigned"):
                if pool not in rv["fs"]:
                    continue
                n += 1

                def is_source(f_, kind, x, pool=pool):
                    return kind == "place" and any(isinstance(e, list) and e[0] == "f" and e[1].endswith("SolutionContext") and e[2] == pool for e in x["p"])
                v = mir.must_derive(F, fn, rv["o"][rv["fs"].index(pool)], is_source)
                inst = f"create_partial_insertion_ctx: {pool}"
                if v is True:
                    r.fail(inst, f"every partial context receives the parent's `{pool}` pool: merge_best extends the merged `{pool}` from each of them, so every pending job comes back "
                           "once per partial context (and a job assigned in one sub-search stays pending in its siblings)", F.loc(g, st.get("ln")))
                else:
                    r.ok(inst, "only one alternative (the route-less context) takes the parent's pool, the others start empty")
    if n < 3:
        raise AnchorError(f"create_partial_insertion_ctx: only {n} pool fields found in the SolutionContext construction")


def q1_no_self_comparison(F, r):
    from .common import lints_rule
    n = lints_rule(F, r, ("vrp_pragmatic::format", "vrp_core::construction::heuristics", "vrp_core::construction::probing", "vrp_core::construction::clustering",
                                    "vrp_core::solver::processing", "vrp_core::models::solution", "vrp_core::models::problem"),
                             "job/vehicle matching or bookkeeping guard")
    if n < 300:
        r.fail("comparison floor", f"only {n} comparison sites scanned")


def run(ctx):
    ctx.explanation = (
        "Conservation shape of job movements over all MIR of vrp-core/pragmatic: every function (closures merged) that removes jobs from a job place "
        "(required / ignored / unassigned / a tour / the route list) adds to another place in the same function, a direct callee, or hands the jobs to "
        "callers that do; unpaired functions need a reasoned table row (P1). The final report chains unassigned and required and reports every route; the "
        "pragmatic writer writes every route and the unassigned list (P3). Functions that move jobs INTO a place clean the places the jobs can come from "
        "(reasoned move table: no duplication, P6); in every function that drops empty tours no state acceptance can follow the drop (P5); every leg enumeration of "
        "the leg search honours the start index, so sub-jobs of a multi job are placed left to right (O1); no comparison in matching code relates a value to itself (Q1).")
    ctx.explanation += ' Relation-bound jobs are excluded from clustering on every alternative (X1, must-derive); shifts are enumerated before any dropping adapter, so a shift index is a position in vehicle.shifts (X2).'
    ctx.not_decided = "exact-once semantics through value-level bookkeeping (a wrong predicate in a retain), vehicle/shift existence, break/reload identity."
    ctx.assumptions += ["job places are the four SolutionContext collections and tours; std collection method names classify removal/arrival"]
    ctx.run("C02-P1", "jobs removed from one place arrive in another (pairing with guard neighbourhood and reasoned table)", p1_pairing, floor=25)
    ctx.run("C02-P4", "conditional job id scheme shared by all builders and the re-reader", p4_conditional_job_ids, floor=5)
    ctx.run("C02-O1", "sub-jobs of a multi job are inserted left to right (leg search honours the start index)", o1_subjob_order, floor=3)
    ctx.run("C02-P6", "functions that move jobs into a place clean the places the jobs can come from (exclusive job places, reasoned table)", p6_moves_clean_sources, floor=18)
    ctx.run("C02-P5", "empty tours are dropped after the last state acceptance in every function that drops them", p5_empty_tours_removed_last, floor=3)
    ctx.run("C02-X1", "vicinity clustering never merges a job bound by a relation: the job filter must-derives from plan.relations on every alternative", x1_relation_jobs_not_clustered, floor=1)
    ctx.run("C02-D1", "decomposition hands the parent's pending pools to one partial context only (merge would duplicate them)", d1_decomposition_partitions_pools, floor=3)
    ctx.run("C02-X2", "shift indices are positions in vehicle.shifts: shifts are enumerated before any element-dropping adapter", x2_shift_index_is_position, floor=4)
    ctx.run("C02-Q1", "no comparison relates a value to itself in job/vehicle matching code (constant guard)", q1_no_self_comparison, floor=1)
    ctx.run("C02-P3", "final report: unassigned ∪ required reported; every route reported and written", p3_final_report, floor=4)
