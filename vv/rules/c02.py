"""C02 — every job is accounted for exactly once: conservation shape of job movements."""
import collections

from .. import cg, mir, util
from ..facts import AnchorError

SC = "vrp_core::construction::heuristics::context::SolutionContext"
TOUR = "vrp_core::models::solution::tour::Tour::"
REM = ("retain", "retain_mut", "drain", "remove", "clear", "truncate", "pop", "swap_remove", "take", "split_off", "remove_entry")
ARR = ("push", "extend", "insert", "append", "extend_from_slice", "entry")
PLACES = ("required", "ignored", "unassigned", "routes")

# functions whose removals are not paired inside the guard neighbourhood, with the reason where the jobs go (module/function level, never per line)
P1_TABLE = {
    "vrp_core::solver::search::local::exchange_inter_route::get_new_insertion_ctx": "works on a deep copy of the whole context; the removed seed job is re-inserted by the caller or the copy is discarded (documented NOTE in the function)",
    "vrp_core::solver::search::local::exchange_swap_star::try_exchange_jobs": "removal on a private deep copy of the route; the copy replaces the route only together with the re-evaluated insertion of the job (apply_insertion_with_route)",
    "vrp_core::models::solution::tour::Tour::remove_activity_at": "primitive: returns the removed job to its caller (callers are checked)",
    "vrp_core::construction::heuristics::context::SolutionContext::remove_empty_routes": "empty routes only: the predicate is tour.has_jobs()",
    "vrp_core::construction::heuristics::context::InsertionContext::restore": "calls remove_empty_routes (empty routes only)",
    "vrp_core::construction::probing::repair_solution::repair_solution_from_unknown": "jobs moved out of required/ignored/unassigned were inserted into tours by synchronize_jobs (callee of the same function)",
    "vrp_core::solver::search::local::exchange_swap_star::find_insertion_cost": "private deep copy of the route for cost probing, never stored back",
    "vrp_core::solver::search::local::exchange_swap_star::remove_job_with_copy": "returns a private deep copy used for cost probing",
    "vrp_core::solver::search::local::exchange_inter_route::find_best_insertion_pair": "private deep copy (test_route) for cost probing",
    "<vrp_core::solver::processing::unassignment_reason::UnassignmentReason as rosomaxa::evolution::HeuristicSolutionProcessing>::post_process": "rewrites the reasons of the same keys in place (drain + re-insert of every key)",
}


def _upvar_place(fn, proj):
    if fn["kind"] == "Closure" and proj and proj[0].isdigit():
        ups = fn.get("upvars", [])
        i = int(proj[0])
        if i < len(ups):
            nm = ups[i][0]
            for p in PLACES:
                if nm.endswith("__" + p) or nm == p:
                    return p
    return None


def effects(F):
    """root fn -> {'rem': {place: (fid, ln)}, 'arr': {...}}"""
    eff = getattr(F, "_c02_eff", None)
    if eff is not None:
        return eff
    eff = collections.defaultdict(lambda: {"rem": {}, "arr": {}})
    for fid, fn in F.fns.items():
        if "::promoted[" in fid or not fid.lstrip("<").startswith("vrp_"):
            continue
        root = F.root_of(fid)
        for bi, t in mir.calls(fn):
            c = t["callee"]
            last = c.split("::")[-1]
            if c in (TOUR + "remove", TOUR + "remove_activity_at"):
                eff[root]["rem"].setdefault("tour", (fid, t["ln"]))
            elif c in (TOUR + "insert_at", TOUR + "insert_last"):
                eff[root]["arr"].setdefault("tour", (fid, t["ln"]))
            elif c in (SC + "::keep_routes", SC + "::remove_empty_routes"):
                eff[root]["rem"].setdefault("routes", (fid, t["ln"]))
            elif t["args"] and t["argtys"] and t["argtys"][0].startswith("&mut") and (last in REM or last in ARR):
                ty = t["argtys"][0]
                if "::jobs::Job" not in ty and "RouteContext" not in ty:
                    continue
                for k, v, p in mir.trace(fn, t["args"][0]):
                    fld = [x for x in p if x in PLACES]
                    place = fld[-1] if fld else _upvar_place(fn, p)
                    if place:
                        eff[root]["rem" if last in REM else "arr"].setdefault(place, (fid, t["ln"]))
            elif c.endswith("mem::take") and t["args"]:
                for k, v, p in mir.trace(fn, t["args"][0]):
                    fld = [x for x in p if x in PLACES]
                    if fld:
                        eff[root]["rem"].setdefault(fld[-1], (fid, t["ln"]))
        for bi, si, s in mir.stmts(fn):
            pf = mir.proj_fields(s["d"])
            if pf and pf[-1][0] == SC and pf[-1][1] in PLACES:
                eff[root]["rem"].setdefault(pf[-1][1] + "=", (fid, s["ln"]))
                eff[root]["arr"].setdefault(pf[-1][1] + "=", (fid, s["ln"]))
    F._c02_eff = eff
    return eff


def _direct_callee_roots(F, root):
    out = set()
    for fid in F.family(root):
        for kind, bi, tg, t in cg.edges(F, fid, cha=False):
            if kind in ("call", "fnval") and tg in F.fns:
                out.add(F.root_of(tg))
    out.discard(root)
    return out


def _arrivals_near(F, eff, root):
    arr = set(eff[root]["arr"]) if root in eff else set()
    for c in _direct_callee_roots(F, root):
        if c in eff:
            arr |= set(eff[c]["arr"])
    return {a.rstrip("=") for a in arr}, {a for a in arr if a.endswith("=")}


def p1_pairing(F, r):
    eff = effects(F)
    n = 0
    for root in sorted(eff):
        e = eff[root]
        if not e["rem"]:
            continue
        n += 1
        name = util.short_fn(root)
        arr, reassign = _arrivals_near(F, eff, root)
        missing = []
        for place, (fid, ln) in sorted(e["rem"].items()):
            base = place.rstrip("=")
            if place.endswith("="):
                continue  # whole-field assignment is both removal and arrival: handled by its source
            if (arr - {base}) or (base + "=") in reassign:
                continue
            missing.append((place, fid, ln))
        if not missing:
            r.ok(name, f"removals {sorted(e['rem'])} paired with arrivals {sorted(arr)}")
            continue
        # jobs handed to the caller?
        fn = F.fns[root]
        ret = fn["locals"][0]
        handed = "::jobs::Job" in ret or "InsertionContext" in ret or "RouteContext" in ret
        ok_callers = False
        if handed:
            callers = {F.root_of(c[0]) for c in cg.callers(F, root)} - {root}
            if callers:
                ok_callers = True
                for c in callers:
                    carr, cre = _arrivals_near(F, eff, c)
                    if not carr and not cre:
                        ok_callers = False
        if ok_callers:
            r.ok(name, "removed jobs are returned to callers that place them")
        elif root in P1_TABLE:
            r.ok(name, "table: " + P1_TABLE[root])
        else:
            place, fid, ln = missing[0]
            r.fail(name, f"jobs are removed from `{place}` but neither this function, its direct callees nor its callers add them to another place "
                         f"(required / ignored / unassigned / a tour): the jobs vanish from the solution", F.loc(fid, ln))
    if n < 20:
        raise AnchorError(f"only {n} functions with job removals found")
    # the `empty routes only` row is checked, not trusted
    rer = SC + "::remove_empty_routes"
    ok = any(t["callee"] == TOUR + "has_jobs" for g in F.family(rer) for _, t in mir.calls(F.fns[g]))
    if ok:
        r.ok("remove_empty_routes predicate", "keeps routes with tour.has_jobs()")
    else:
        r.fail("remove_empty_routes predicate", "routes are dropped by a predicate other than tour.has_jobs(): jobs of dropped routes vanish", F.loc(rer))


def p3_final_report(F, r):
    conv = [i for i, f in F.fns.items() if f["trait_item"] == "core::convert::From::from" and f["impl_self"].endswith("models::domain::Solution") and "Option<" in f["locals"][1]]
    if len(conv) != 1:
        raise AnchorError(f"Solution::from((InsertionContext, Option<..>)): {len(conv)}")
    m = conv[0]
    fn = F.fns[m]
    found = False
    for bi, si, s in mir.stmts(fn):
        rv = s["r"]
        if rv["k"] == "agg" and rv.get("n", "").endswith("domain::Solution#Solution"):
            found = True
            ops = dict(zip(rv["fs"], rv["o"]))
            ul, uc = mir.deep_leaves(fn, ops["unassigned"])
            fields = {f for k, v, p in ul for f in p}
            # closures in the chain read the fields through the iterator sources
            if "unassigned" in fields and "required" in fields:
                r.ok("Solution::from: unassigned", "built from solution.unassigned chained with solution.required")
            else:
                r.fail("Solution::from: unassigned", f"the reported unassigned list is built from {sorted(fields & set(PLACES))} only: jobs still `required` (interrupted search) or already unassigned are not reported at all", F.loc(m, s["ln"]))
            rl, rc = mir.deep_leaves(fn, ops["routes"])
            rfields = {f for k, v, p in rl for f in p}
            limiting = [c.split("::")[-1] for c in rc if c.split("::")[-1] in ("filter", "take", "skip", "filter_map", "take_while", "step_by")]
            if "routes" in rfields and not limiting:
                r.ok("Solution::from: routes", "every route of the context is reported")
            else:
                r.fail("Solution::from: routes", f"reported routes are filtered ({limiting}) or not taken from solution.routes", F.loc(m, s["ln"]))
    if not found:
        r.fail("Solution::from", "Solution construction not found", F.loc(m))
    # pragmatic writer: all routes -> tours, unassigned created from the solution
    cs = F.find1("solution_writer::create_solution")
    cfn = F.fns[cs]
    fam_calls = [t["callee"].split("::")[-1] for g in F.family(cs) for _, t in mir.calls(F.fns[g])]
    chain = [t["callee"].split("::")[-1] for _, t in mir.calls(cfn) if "Iterator" in t["callee"]]
    if "create_tour" in fam_calls and not [c for c in chain if c in ("filter", "take", "skip", "filter_map", "take_while")]:
        r.ok("create_solution: tours", "every route is written as a tour")
    else:
        r.fail("create_solution: tours", "not every route of the solution is written as a tour", F.loc(cs))
    if "create_unassigned" in fam_calls:
        r.ok("create_solution: unassigned", "unassigned list written from the solution")
    else:
        r.fail("create_solution: unassigned", "the unassigned list is not written", F.loc(cs))


ID_SITES = {"read_locks", "read_optional_breaks", "read_specific_job_places", "get_reload_resources", "try_match_point_job"}


def p4_conditional_job_ids(F, r):
    """the writer(s) and re-reader of conditional job ids (`<vehicle>_<type>_<shift>_<index>`) use one template"""
    import re
    sites = [a for a in F.attrs if a["t"] == "fmt" and a["file"].startswith("vrp-pragmatic/src/format") and a["func"].split("::")[-1] in ID_SITES and "_" in a["template"]
             and re.fullmatch(r"(\{[^}]*\}|[a-z]+)(_(\{[^}]*\}|[a-z]+))+", a["template"])]
    if len(sites) < 5:
        raise AnchorError(f"only {len(sites)} conditional-id templates found")
    shapes = set()
    for a in sites:
        segs = re.findall(r"\{[^}]*\}|[a-z]+", a["template"])
        shape = tuple("{}" if sgm.startswith("{") else "lit" for sgm in segs)
        inst = f"{a['func'].split('::')[-1]}: {a['template']}"
        if len(segs) == 4 and shape[0] == "{}" and shape[2] == "{}" and shape[3] == "{}":
            r.ok(inst, "vehicle_type_shift_index")
        else:
            r.fail(inst, "conditional job id is built/parsed with a template that differs from `<vehicle>_<type>_<shift>_<index>`: breaks/reloads written by one reader are not found by the other (lost or duplicated stops)", f"{a['file']}:{a['line']}")


def run(ctx):
    ctx.explanation = (
        "Conservation shape of job movements over all MIR of vrp-core/pragmatic: every function (closures merged) that removes jobs from a job place "
        "(required / ignored / unassigned / a tour / the route list) adds to another place in the same function, a direct callee, or hands the jobs to "
        "callers that do; unpaired functions need a reasoned table row (P1). The final report chains unassigned and required and reports every route; the "
        "pragmatic writer writes every route and the unassigned list (P3).")
    ctx.not_decided = "exact-once semantics through value-level bookkeeping (a wrong predicate in a retain), vehicle/shift existence, break/reload identity."
    ctx.assumptions += ["job places are the four SolutionContext collections and tours; std collection method names classify removal/arrival"]
    ctx.run("C02-P1", "jobs removed from one place arrive in another (pairing with guard neighbourhood and reasoned table)", p1_pairing, floor=25)
    ctx.run("C02-P4", "conditional job id scheme shared by all builders and the re-reader", p4_conditional_job_ids, floor=5)
    ctx.run("C02-P3", "final report: unassigned ∪ required reported; every route reported and written", p3_final_report, floor=4)
