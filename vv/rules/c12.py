"""C12 — the solution checker: nothing silently unchecked (structural clauses)."""
from .. import cg, mir, util
from ..facts import AnchorError
from .c10 import _dropped_results

CHK = "vrp_pragmatic::checker"
CHECK = CHK + "::CheckerContext::check"
GERR = "core::result::Result<(), rosomaxa::utils::error::GenericError>"
VERR = "core::result::Result<(), alloc::vec::Vec<rosomaxa::utils::error::GenericError>>"
# documented breach classes -> leaf rule that must exist and be wired (table row per class, module level)
BREACH_LEAVES = {
    "load above capacity / misreported load": "capacity::check_vehicle_load_assignment",
    "shared resource over-consumption": "capacity::check_resource_consumption",
    "unknown / duplicated / dropped job, job split over tours or listed twice": "assignment::check_jobs_presence",
    "activity does not match job definition": "assignment::check_jobs_match",
    "unknown vehicle / shift used twice": "assignment::check_vehicles",
    "group split over tours": "assignment::check_groups",
    "arrival / distance / statistic mismatch": "routing::check_routing_rules",
    "tour limit breach (distance, duration, tour size)": "limits::check_shift_limits",
    "shift time breach": "limits::check_shift_time",
    "recharge distance breach": "limits::check_recharge_limits",
    "broken relation": "relations::check_relations_assignment",
    "misplaced / missing break": "breaks::check_break_assignment",
}


def _mod(F, i):
    f = F.fns[i]
    return f["module"] if f["kind"] != "Closure" else F.fns.get(F.root_of(i), f)["module"]


def a1_all_wired(F, r):
    if CHECK not in F.fns:
        raise AnchorError(CHECK)
    par = cg.reach(F, [CHECK], cha=False)
    n = 0
    for i, f in sorted(F.fns.items()):
        if f["kind"] == "Closure" or "::promoted[" in i or not f["module"].startswith(CHK):
            continue
        if f["locals"][0] not in (GERR, VERR) or i == CHECK:
            continue
        n += 1
        name = util.short_fn(i)
        if i in par:
            r.ok(name, "reachable from CheckerContext::check")
        else:
            r.fail(name, "checker rule is unreachable from CheckerContext::check (dropped from its group's list): solutions breaching it are accepted", F.loc(i))
    if n < 15:
        raise AnchorError(f"only {n} checker rule functions found")
    for cls, leaf in BREACH_LEAVES.items():
        hits = [i for i in par if i.endswith("::" + leaf.split("::")[-1]) and leaf.split("::")[0] in i]
        if hits:
            r.ok(f"breach class: {cls}", leaf)
        else:
            r.fail(f"breach class: {cls}", f"no reachable rule `{leaf}` for this documented breach class")
    # group functions aggregate every result
    for i, f in sorted(F.fns.items()):
        if f["kind"] == "Closure" or not f["module"].startswith(CHK) or f["locals"][0] != VERR or i == CHECK or "::promoted[" in i:
            continue
        if any(t["callee"].endswith("combine_error_results") for g in F.family(i) for _, t in mir.calls(F.fns[g])):
            r.ok(f"{util.short_fn(i)}: aggregator", "combine_error_results(&[..])")
        else:
            r.fail(f"{util.short_fn(i)}: aggregator", "group no longer aggregates all rule results", F.loc(i))


def a2_no_dropped(F, r):
    fids = [i for i in F.fns if "::promoted[" not in i and (_mod(F, i).startswith(CHK) or _mod(F, i).startswith("vrp_cli::extensions::check") or _mod(F, i).startswith("vrp_cli::commands::check"))]
    n = _dropped_results(F, fids, r, "the solution checker")
    r.ok("checker results", f"{n} Result-producing calls in checker code, none dropped")
    if n < 40:
        r.fail("checker results floor", f"only {n} Result-producing calls found in the checker (expected >= 40)")


def _err_sites(fn):
    out = []
    for bi, si, s in mir.stmts(fn):
        if s["r"]["k"] == "agg" and s["r"].get("n", "").endswith("Result#Err"):
            out.append(bi)
    for bi, t in mir.calls(fn):
        if t["callee"].endswith("FromResidual::from_residual") or t["callee"].endswith("ok_or_else") or t["callee"].endswith("ok_or"):
            out.append(bi)
        if t["callee"].endswith("try_for_each") or t["callee"].endswith("try_fold") or t["callee"].endswith("Iterator::collect") or t["callee"].endswith("combine_error_results"):
            if "Result<" in fn["locals"][t["dest"]["l"]]:
                out.append(bi)
    return out


def _const_feasible_reach(fn):
    """reachability from entry that follows only the consistent edge of switches on literal constants"""
    S = mir.succs(fn)
    seen = {0}
    st = [0]
    while st:
        b = st.pop()
        t = fn["bbs"][b]["t"]
        nxt = S[b]
        if t["k"] == "switch" and mir.is_const(t["o"]) and t["o"]["c"] in ("true", "false"):
            val = 1 if t["o"]["c"] == "true" else 0
            tgt = t["else"]
            for v, tb in t["tg"]:
                if v == val:
                    tgt = tb
            nxt = [tgt]
        elif t["k"] == "switch" and mir.is_place(t["o"]):
            # a local assigned only literal constants
            ds = mir.defs(fn).get(t["o"]["l"], [])
            vals = set()
            for d in ds:
                if d[0] == "s" and d[3]["r"]["k"] == "use" and mir.is_const(d[3]["r"]["o"][0]) and d[3]["r"]["o"][0]["c"] in ("true", "false"):
                    vals.add(d[3]["r"]["o"][0]["c"])
                else:
                    vals.add("?")
            if len(vals) == 1 and "?" not in vals:
                val = 1 if "true" in vals else 0
                tgt = t["else"]
                for v, tb in t["tg"]:
                    if v == val:
                        tgt = tb
                nxt = [tgt]
        for y in nxt:
            if y not in seen:
                seen.add(y)
                st.append(y)
    return seen


def a3_rules_can_fail(F, r):
    n = 0
    for i, f in sorted(F.fns.items()):
        if f["kind"] == "Closure" or "::promoted[" in i or not f["module"].startswith(CHK) or f["locals"][0] != GERR:
            continue
        name = util.short_fn(i)
        total = 0
        live = 0
        for g in F.family(i):
            gfn = F.fns[g]
            sites = _err_sites(gfn)
            feas = _const_feasible_reach(gfn)
            total += len(sites)
            live += len([b for b in sites if b in feas])
        n += 1
        if live == 0:
            r.fail(name, "leaf rule has no reachable error-producing site (disabled by a constant guard / early `return Ok(())`): it accepts everything", F.loc(i))
        elif live < total:
            r.fail(name, f"{total - live} of {total} error-producing sites are unreachable under a constant guard", F.loc(i))
        else:
            r.ok(name, f"{live} reachable error-producing sites")
    if n < 10:
        raise AnchorError(f"only {n} leaf rules")


def partial_order_sites(F, module_prefixes):
    """calls of the PARTIAL order of multi-dimensional loads (lt/le/gt/ge/partial_cmp on MultiDimLoad or a load-generic T) in the given modules"""
    out = []
    for fid, fn in F.fns.items():
        if "::promoted[" in fid:
            continue
        root = F.root_of(fid)
        mod = F.fns.get(root, fn)["module"]
        if not mod.startswith(module_prefixes):
            continue
        for bi, t in mir.calls(fn):
            if not t["callee"].startswith("core::cmp::PartialOrd::"):
                continue
            ga = t["ga"]
            if not ga:
                continue
            g0 = ga[0]
            if g0.endswith("::MultiDimLoad") or (len(g0) <= 2 and g0.isupper() and ("Load" in " ".join(fn["locals"]) or "load" in mod or "reload" in mod or "capacity" in mod)):
                out.append((root, fid, t["callee"].split("::")[-1], g0.split("::")[-1], t["ln"]))
    return out


def a4_componentwise_capacity(F, r):
    sites = partial_order_sites(F, (CHK,))
    fits = [1 for fid, fn in F.fns.items() if F.fns.get(F.root_of(fid), fn)["module"].startswith(CHK) for _, t in mir.calls(fn) if t["callee"].endswith("::can_fit")]
    if not fits:
        r.fail("checker: can_fit", "the checker no longer uses the component-wise LoadOps::can_fit anywhere", None)
    else:
        r.ok("checker: can_fit", f"{len(fits)} component-wise capacity tests")
    for root, fid, op, ty, ln in sites:
        r.fail(f"{util.short_fn(root)}: {op} on {ty}", f"a capacity/consumption verdict uses `{op}` of the PARTIAL order on multi-dimensional loads: it is false whenever the dimensions disagree "
               "(e.g. [4,2] vs [3,10], and even [4,10] vs [3,10]), so an overload in one dimension is accepted; the component-wise test is `can_fit`", F.loc(fid, ln))


def q1_no_self_comparison(F, r):
    from .common import lints_rule
    n = lints_rule(F, r, (CHK,), "checker rule")
    if n < 60:
        r.fail("comparison floor", f"only {n} comparison sites scanned in the checker")


def _path_names(fn, op):
    """field names on the canonical expression of an operand (they survive iterator payloads, unlike the back-trace)"""
    out = set()

    def walk(e, depth=0):
        rt, pth = e
        for x in pth:
            if isinstance(x, str) and x.startswith(".") and not x[1:].isdigit():
                out.add(x[1:])
        if depth > 8:
            return
        subs = rt[2] if rt[0] in ("call", "agg") else (rt[2:4] if rt[0] == "bin" else ([rt[2]] if rt[0] in ("cast", "un") else []))
        if rt[0] == "call":
            out.add(rt[1].split("::")[-1])
        for y in subs:
            walk(y, depth + 1)
    walk(mir.expr(fn, op))
    return out


def _opname(fn, op):
    cur = op
    for _ in range(6):
        if not mir.is_place(cur) or cur["p"]:
            return None
        nm = fn["names"].get(str(cur["l"]))
        if nm:
            return nm
        ds = mir.defs(fn).get(cur["l"], [])
        if len(ds) != 1 or ds[0][0] != "s" or ds[0][3]["r"]["k"] not in ("use", "cast"):
            return None
        cur = ds[0][3]["r"]["o"][0]
    return None


LIMIT_KINDS = {"distance": ("distance",), "duration": ("duration",), "size": ("count",)}


def l1_limit_rules(F, r):
    """checker: a limit breach is reported iff the tour's own value exceeds the limit — distance vs max_distance, duration vs max_duration, number of job ACTIVITIES vs tour_size"""
    from . import c01
    root = CHK + "::limits::check_shift_limits"
    if root not in F.fns:
        raise AnchorError(root)
    found = {}
    for g in F.family(root):
        fn = F.fns[g]
        for bi, si, st in mir.stmts(fn):
            rv = st["r"]
            if rv["k"] != "bin" or rv.get("op") not in ("Lt", "Gt", "Le", "Ge"):
                continue
            names = [_opname(fn, o) for o in rv["o"]]
            lim = [i for i, n in enumerate(names) if n and ("max_" in n or "limit" in n)]
            if len(lim) != 1:
                continue
            li = lim[0]
            lname = names[li]
            kind = "distance" if "distance" in lname else ("duration" if "duration" in lname or "time" in lname else ("size" if "size" in lname else None))
            if kind is None:
                continue
            op = rv["op"] if li == 1 else {"Lt": "Gt", "Gt": "Lt", "Le": "Ge", "Ge": "Le"}[rv["op"]]       # value OP limit
            vt = c01._toks(fn, rv["o"][1 - li]) | _path_names(fn, rv["o"][1 - li])
            inst = f"check_shift_limits: {kind}"
            found[kind] = True
            want = LIMIT_KINDS[kind]
            wrong = [k for k, w in LIMIT_KINDS.items() if k != kind and any(x in vt for x in w)]
            if not any(x in vt for x in want) or wrong:
                r.fail(inst, f"the {lname} limit is compared with a value derived from {sorted(vt)[:5]}: not the tour's {kind}", F.loc(g, st["ln"]))
            elif kind == "size" and not ("activities" in vt or "flat_map" in vt):
                r.fail(inst, "the tour size limit is compared with a count of STOPS, not of job activities: a stop with several activities (same location, clustering) hides a breach", F.loc(g, st["ln"]))
            elif op != "Gt":
                r.fail(inst, f"a breach is reported on `value {op} limit`: a tour exactly at its limit is rejected or one above it accepted", F.loc(g, st["ln"]))
            else:
                r.ok(inst, f"breach iff tour {kind} > {lname}")
    if not found:
        r.ok("check_shift_limits", "not decided: limits are not held in variables named max_* / *limit*")
    elif set(found) != set(LIMIT_KINDS):
        r.fail("check_shift_limits: coverage", f"only {sorted(found)} of distance / duration / size limits are compared", F.loc(root))


def l2_recharge_accumulator(F, r):
    """recharge limit: the distance compared with `max_distance` is, on EVERY alternative, the distance accumulated since the last station INCLUDING the leg that ends at the
    current stop — also when that stop is a station (the counter is reset only AFTER the comparison). Must-derive dataflow from the fold accumulator and the leg length."""
    root = CHK + "::limits::check_recharge_limits"
    if root not in F.fns:
        raise AnchorError(root)
    n = 0
    for g in F.family(root):
        fn = F.fns[g]
        for bi, si, st in mir.stmts(fn):
            rv = st["r"]
            if rv["k"] != "bin" or rv.get("op") not in ("Lt", "Gt", "Le", "Ge") or rv.get("ty") not in ("f64", "f32"):
                continue
            from . import c01
            lim = [i for i, o in enumerate(rv["o"]) if "max_distance" in c01._toks_deep(fn, o)]
            if len(lim) != 1:
                continue
            n += 1
            val = rv["o"][1 - lim[0]]
            # the accumulator: the f64 parameter of this fold closure
            accs = [i for i in range(2, fn["argc"] + 1) if fn["locals"][i] in ("f64", "f32")] if fn["kind"] == "Closure" else []
            if len(accs) != 1:
                r.ok("check_recharge_limits: accumulated distance", "not decided: the running distance is not a fold accumulator parameter")
                continue
            acc = accs[0]

            def from_acc(f_, kind, x, acc=acc, fn=fn):
                return kind == "place" and f_ is fn and x["l"] == acc and not x["p"]

            def from_leg(f_, kind, x):
                return kind == "place" and any(isinstance(e, list) and e[0] == "f" and e[2] == "distance" for e in x["p"])
            a_ok = mir.must_derive(F, fn, val, from_acc)
            l_ok = mir.must_derive(F, fn, val, from_leg)
            if a_ok is False or l_ok is False:
                what = "the distance accumulated so far" if a_ok is False else "the length of the current leg"
                r.fail("check_recharge_limits: accumulated distance", f"on some alternative the value compared with max_distance does not contain {what} (e.g. the counter is reset before the "
                       "comparison when the stop is a station): a leg that ends at a station out of range is accepted", F.loc(g, st.get("ln")))
            elif a_ok is None or l_ok is None:
                r.ok("check_recharge_limits: accumulated distance", "not decided (value completed in place)")
            else:
                r.ok("check_recharge_limits: accumulated distance", "compared value = accumulator + current leg on every alternative")
    if n == 0:
        r.ok("check_recharge_limits: accumulated distance", "not decided: no float comparison with a `max_distance` field found")


def a5_shared_resource_summed(F, r):
    """shared reload resource: what is compared with the resource's capacity is the SUM of the consumption of all reload intervals that use the resource (same tour or different
    tours) — the per-resource aggregation adds loads (`*entry + consumption`); collecting the (resource, consumption) pairs into a map keeps only the last interval"""
    root = CHK + "::capacity::check_resource_consumption"
    if root not in F.fns:
        raise AnchorError(root)
    adds = []
    keyed = False
    overwrite = None
    fam = list(F.family(root))
    for g in list(fam):     # + same-module helpers called from the rule (an extracted `add_consumption(map, id, load)` still is the rule's aggregation)
        for _, t in mir.calls(F.fns[g]):
            tg = t.get("res") or t["callee"]
            if tg in F.fns and F.fns[tg]["module"] == F.fns[root]["module"] and F.fns[tg]["kind"] != "Closure" and tg not in fam:
                fam += F.family(tg)
    for g in fam:
        fn = F.fns[g]
        for bi, t in mir.calls(fn):
            c = t["callee"]
            if c in ("core::ops::arith::Add::add", "core::ops::arith::AddAssign::add_assign") and any("MultiDimLoad" in x for x in t["ga"]):
                srcs = set()
                for a in t["args"]:
                    _, crossed = mir.deep_leaves(fn, a)
                    srcs |= {x.split("::")[-1] for x in crossed}
                adds.append((g, t, srcs))
            if c.split("::")[-1] in ("entry", "get_mut") and "HashMap" in c:
                keyed = True
            if c.endswith("Iterator::collect") and not t["dest"]["p"] and "HashMap<" in (fn["locals"][t["dest"]["l"]] or "") and "MultiDimLoad" in (fn["locals"][t["dest"]["l"]] or ""):
                overwrite = (g, t)
    summed = [x for x in adds if x[2] & {"or_default", "or_insert", "or_insert_with", "entry", "get_mut", "get", "remove", "unwrap_or_default", "and_modify"}] or (adds if keyed else [])
    if summed:
        r.ok("check_resource_consumption: per-resource sum", "consumption of one resource is accumulated with `+` on the map entry")
    else:
        where = F.loc(overwrite[0], overwrite[1]["ln"]) if overwrite else F.loc(root)
        r.fail("check_resource_consumption: per-resource sum", "the consumption of the reload intervals of one resource is not added up (pairs collected into a map overwrite each other): a resource "
               "used by two intervals is checked against the last interval only, over-consumption is accepted", where)


def k1_tour_identity(F, r):
    """a tour is identified by (vehicle id, shift index): the `job split over tours` rule compares both, so a job served on two shifts of one vehicle is a breach"""
    from . import c01
    root = CHK + "::assignment::check_jobs_presence"
    if root not in F.fns:
        raise AnchorError(root)
    hits = 0
    for g in F.family(root):
        fn = F.fns[g]
        for bi, t in mir.calls(fn):
            if t["callee"] not in ("core::cmp::PartialEq::ne", "core::cmp::PartialEq::eq") or len(t["args"]) != 2:
                continue
            ta, tb = c01._toks_deep(fn, t["args"][0]), c01._toks_deep(fn, t["args"][1])
            if "vehicle_id" not in (ta | tb):
                continue
            hits += 1
            if "shift_index" in ta and "shift_index" in tb:
                r.ok("check_jobs_presence: tour identity", "assignments are compared by (vehicle_id, shift_index)")
            else:
                r.fail("check_jobs_presence: tour identity", "tours are told apart by the vehicle id alone: a job split over two shifts of the same vehicle is accepted", F.loc(g, t["ln"]))
    if not hits:
        r.fail("check_jobs_presence: tour identity", "the tour a job was first seen in is no longer compared with the current tour", F.loc(root))


def k2_relation_shift_default(F, r):
    """a relation names its tour by vehicle id and shift index, and a MISSING shift index means shift 0 (documented): the tour lookup of the relation rule, evaluated over
    shift_index in {None, Some(i)} and every ordering of the compared values, matches a tour iff its vehicle id equals AND its shift index equals i (0 when missing)"""
    from .. import ordeval as oe
    root = CHK + "::relations::get_tour_by_vehicle_id"
    if root not in F.fns:
        raise AnchorError(root)
    cls = [c for c in F.children.get(root, []) if F.fns[c]["locals"][0] == "bool" and any("shift_index" in u[0] for u in F.fns[c].get("upvars", []))]
    if len(cls) != 1:
        r.ok("relation tour lookup", "not decided: the lookup predicate is not a closure capturing the relation's shift index")
        return
    c = cls[0]
    cfn = F.fns[c]

    def m_unwrap_or(it, args, heap, rel):
        a = oe.strip_refs(args[0]) if args[0] and args[0][0] == "ref" else args[0]
        if a == oe.NONE:
            return args[1]
        if a and a[0] == "some":
            return a[1]
        return NotImplemented

    def m_unwrap_or_default(it, args, heap, rel):
        a = oe.strip_refs(args[0]) if args[0] and args[0][0] == "ref" else args[0]
        if a == oe.NONE:
            return ("int", 0)
        if a and a[0] == "some":
            return a[1]
        return NotImplemented
    for label, si, want in (("missing", oe.NONE, "k0"), ("given", oe.some(oe.sym("idx")), "idx")):
        ups = [oe.ref(si) if "shift" in nm else oe.ref(oe.sym("vid")) for nm, ty in cfn["upvars"]]
        it = oe.Interp(F, c, {1: oe.ref(("closure", c, ups)), 2: oe.ref(oe.ref(oe.sym("tour")))}, fresh=True, enum_results=True,
                       call_models={"Option::<T>::unwrap_or": m_unwrap_or, "Option::<T>::unwrap_or_default": m_unwrap_or_default})
        it.int_symbols = True
        try:
            paths = it.explore(max_paths=200)
        except oe.Undecided as e:
            r.ok(f"relation tour lookup [shift index {label}]", f"not decided: predicate not evaluable ({e})")
            continue
        for p in paths:
            rels = {}
            for a in p.assumptions:
                if len(a) == 3 and isinstance(a[2], str) and a[2] in "LEG":
                    rels[(a[0], a[1])] = a[2]
                    rels[(a[1], a[0])] = oe.rev(a[2])
            veh = rels.get(("tour.vehicle_id", "vid"))
            shf = rels.get(("tour.shift_index", want))
            desc = f"vehicle {'=' if veh == 'E' else ('?' if veh is None else '!=')}, shift {'=' if shf == 'E' else ('not compared' if shf is None else '!=')}"
            inst = f"relation tour lookup [shift index {label}; {desc}]"
            expected = veh == "E" and shf == "E"
            if p.ret == ("bool", True) and not expected:
                r.fail(inst, f"a tour is taken for the relation's tour although its shift index was not found equal to {'0 (the documented default of a missing shiftIndex)' if label == 'missing' else 'the given one'}: "
                       "relation jobs served in another shift of the vehicle are accepted, valid solutions listing another shift first are rejected", F.loc(c))
            elif p.ret == ("bool", False) and expected:
                r.fail(inst, "the relation's own tour is not recognised", F.loc(c))
            else:
                r.ok(inst, "match" if expected else "no match")


def t1_routing_tolerance(F, r):
    """routing rule: a reported arrival / distance / duration is rejected iff it differs from the recomputed one by MORE than one unit (the output format rounds to integers),
    and like is compared with like"""
    from . import c01
    n = 0
    for fid, fn in sorted(F.fns.items()):
        if "::promoted[" in fid or not F.fns.get(F.root_of(fid), fn)["module"].startswith(CHK + "::routing"):
            continue
        for bi, si, st in mir.stmts(fn):
            rv = st["r"]
            if rv["k"] != "bin" or rv.get("op") not in ("Lt", "Gt", "Le", "Ge"):
                continue
            sides = []
            for o in rv["o"]:
                if mir.is_const(o):
                    sides.append(("const", o["c"]))
                else:
                    tr = mir.trace(fn, o, through_calls=())
                    ab = [v for k, v, p in tr if k == "call" and fn["bbs"][v]["t"]["callee"].endswith("::abs")]
                    sides.append(("abs", ab[0]) if ab else ("other", None))
            kinds = [x[0] for x in sides]
            if sorted(kinds) != ["abs", "const"]:
                continue
            n += 1
            ai = kinds.index("abs")
            op = rv["op"] if ai == 0 else {"Lt": "Gt", "Gt": "Lt", "Le": "Ge", "Ge": "Le"}[rv["op"]]
            cst = str(sides[1 - ai][1])
            abs_t = fn["bbs"][sides[ai][1]]["t"]
            toks = c01._toks(fn, abs_t["args"][0])
            kind = {k for k in ("distance", "duration", "arrival", "departure") if any(k in x for x in toks)}
            name = f"{util.short_fn(F.root_of(fid))}: |Δ{'/'.join(sorted(kind)) or '?'}|"
            if not cst.startswith("1_") and cst != "1":
                r.fail(name, f"the tolerance is {cst}, not one unit: deviations the property forbids are accepted (or exact values rejected)", F.loc(fid, st.get("ln")))
            elif op != "Gt":
                r.fail(name, f"a mismatch is reported on `|Δ| {op} 1`: a deviation of exactly one unit (the rounding of the output format) is rejected, or larger ones accepted", F.loc(fid, st.get("ln")))
            elif len(kind & {"distance", "duration"}) == 2:
                r.fail(name, "a distance is compared with a duration", F.loc(fid, st.get("ln")))
            else:
                r.ok(name, "mismatch iff |recomputed - reported| > 1")
    if n < 4:
        raise AnchorError(f"only {n} tolerance comparisons found in the routing rule (4 counted)")


def run(ctx):
    ctx.explanation = (
        "Structural clauses of `the checker rejects injected breaches`: every rule function of the checker (return type Result<(), GenericError|Vec<..>>) is "
        "reachable from CheckerContext::check, each documented breach class maps to a reachable leaf rule, group functions aggregate with "
        "combine_error_results, no Result produced in checker code (incl. the cli entry) is dropped, and every leaf rule has reachable error-producing sites "
        "(no constant-false guard / dominating early Ok); capacity verdicts use the component-wise can_fit (A4); no comparison relates a value to itself (Q1).")
    ctx.explanation += " New in this revision: the recharge limit compares accumulator + current leg on every alternative (L2, must-derive); per-resource consumption is summed on the map entry (A5); the relation rule's tour lookup, evaluated over shift_index in {None, Some}, treats a missing shift index as 0 (K2)."
    ctx.not_decided = "acceptance of all valid solutions; rejection power per breach (predicates are value-level)."
    ctx.run("C12-A1", "every checker rule is reachable from CheckerContext::check; breach classes map to wired leaves; groups aggregate", a1_all_wired, floor=30)
    ctx.run("C12-A2", "no Result produced inside the checker is dropped", a2_no_dropped, floor=1)
    ctx.run("C12-A4", "capacity verdicts are component-wise (can_fit), never the partial order of multi-dimensional loads", a4_componentwise_capacity, floor=1)
    ctx.run("C12-A5", "shared resource: consumption of all intervals of one resource is summed before the comparison", a5_shared_resource_summed, floor=1)
    try:
        from . import c01
        ctx.run("C01-O4", "can_fit is asked of the capacity / available resource about the load (roles not swapped)", c01.o4_can_fit_roles, floor=8)
        ctx.run("C01-O3", "can_fit(capacity, load) iff load <= capacity in every dimension", c01.o3_can_fit_law, floor=4)
    except (ImportError, AttributeError):
        pass
    ctx.run("C12-T1", "routing rule: mismatch iff |recomputed - reported| > 1, like compared with like", t1_routing_tolerance, floor=4)
    ctx.run("C12-K1", "a tour is identified by (vehicle id, shift index) in the job-presence rule", k1_tour_identity, floor=1)
    ctx.run("C12-K2", "relation rule: a missing shift index means shift 0 (finite evaluation of the tour lookup)", k2_relation_shift_default, floor=1)
    ctx.run("C12-L1", "limit rules: breach iff the tour's own distance / duration / activity count exceeds the limit", l1_limit_rules, floor=1)
    ctx.run("C12-L2", "recharge limit: the compared distance contains the accumulator and the current leg on every alternative", l2_recharge_accumulator, floor=1)
    ctx.run("C12-Q1", "no checker comparison relates a value to itself (a constant verdict)", q1_no_self_comparison, floor=1)
    ctx.run("C12-A3", "every leaf rule can fail: its error-producing sites are reachable", a3_rules_can_fail, floor=10)
