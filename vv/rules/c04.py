"""C04 — every search step maps a consistent solution to a consistent one; parent unchanged."""
from .. import adt, mir, util
from ..facts import AnchorError
from . import c05

LIB_CRATES = ("rosomaxa", "vrp_core", "vrp_pragmatic", "vrp_scientific")
LIB_DIRS = {"rosomaxa": "rosomaxa", "vrp_core": "vrp-core", "vrp_pragmatic": "vrp-pragmatic", "vrp_scientific": "vrp-scientific"}
IC = "vrp_core::construction::heuristics::context::InsertionContext"
PARENT_TRAIT_METHODS = c05.HANDOVER + ["vrp_core::solver::search::ruin::Ruin::run"]


def p1a_signatures(F, r):
    for tm in PARENT_TRAIT_METHODS:
        for m in F.trait_impl_methods(tm):
            if m == tm:
                continue
            fn = F.fns[m]
            for i in range(1, fn["argc"] + 1):
                t = fn["locals"][i]
                if "InsertionContext" not in t and "RefinementContext" not in t:
                    continue
                inst = f"{util.short_fn(m)}#arg{i}"
                if t.startswith("&mut"):
                    r.fail(inst, f"operator takes `{t}`: it can mutate the solution/context it was handed in place (parent not preserved)", F.loc(m))
                elif t.startswith("&"):
                    r.ok(inst, "shared reference")
                else:
                    r.ok(inst, "by value: caller must own it (deep_copy or fresh); ownership enforced by rustc")


def p1b_no_interior_mutability(F, r):
    if not adt.controls_ok():
        r.broken("interior-mutability matcher failed its positive/negative controls")
        return
    r.ok("positive-control", f"{len(adt.POSITIVE_CONTROLS)} interior-mutable type strings matched, {len(adt.NEGATIVE_CONTROLS)} benign ones not")
    n_fields = 0
    for a, ad in F.adts.items():
        if not a.startswith(tuple(c + "::" for c in LIB_CRATES)):
            continue
        for v in ad["v"]:
            for f in v["f"]:
                n_fields += 1
                k = adt.interior_in(f["ty"])
                if k:
                    r.fail(f"{a.split('::', 1)[1]}.{f['n']}", f"field of interior-mutable type `{k}`: state reachable through a shared reference can be mutated (parent solution observably changed / data race)", ad["span"])
    r.ok("library ADT fields", f"{n_fields} fields scanned, none interior-mutable")
    # closures that OWN an interior-mutable value can be stored behind Arc<dyn Fn> fields
    n_up = 0
    for fid, fn in F.fns.items():
        if not fid.lstrip("<").startswith(tuple(c + "::" for c in LIB_CRATES)):
            continue
        for name, t in fn.get("upvars", []):
            n_up += 1
            k = adt.interior_in(t)
            if k and not t.startswith("&"):
                r.fail(f"{util.short_fn(fid)} captures {name}", f"closure owns a `{k}` capture (`{t[:80]}`): hidden mutable state behind a Fn object", F.loc(fid))
    r.ok("closure captures", f"{n_up} captures scanned, none owns interior-mutable state")
    for s, sd in F.statics.items():
        if not s.startswith(tuple(c + "::" for c in LIB_CRATES)):
            continue
        k = adt.interior_in(sd["ty"])
        if k and not sd["tls"] and "random" not in s:
            r.fail(f"static {s}", f"global of interior-mutable type `{k}`", sd["span"])
        else:
            r.ok(f"static {s.split('::')[-1]}", "thread-local RNG seed or immutable")
    # the parent type: everything reachable from InsertionContext
    if IC not in F.adts:
        raise AnchorError("InsertionContext ADT")
    seen, ext = adt.reachable_types(F, [IC])
    bad_ext = sorted(e for e in ext if adt.interior_in(e))
    if bad_ext:
        for e in bad_ext:
            r.fail(f"reachable external type {e}", "interior-mutable external type reachable from InsertionContext")
    r.ok("InsertionContext reachability", f"{len(seen)} workspace ADTs and {len(ext)} external type paths reachable by field types; none interior-mutable")


def p1c_forbid_unsafe(F, r):
    attrs = {a["crate"]: a for a in F.attrs if a["t"] == "crate_attrs" and a["file"].endswith("lib.rs")}
    if not attrs:
        r.broken("attrscan facts missing (attrs.jsonl)")
        return
    for c, d in LIB_DIRS.items():
        a = attrs.get(d)
        if a and "forbid(unsafe_code)" in a["attrs"]:
            r.ok(f"{c}: #![forbid(unsafe_code)]")
        else:
            r.fail(f"{c}: #![forbid(unsafe_code)]", "crate no longer forbids unsafe code: the aliasing argument for `parent unchanged` rests on safe Rust", d + "/src/lib.rs")
    for u in F.attrs:
        if u["t"] == "unsafe" and any(u["file"].startswith(d + "/") for d in LIB_DIRS.values()):
            r.fail(f"unsafe {u['what']} in {u['file']}", "unsafe code in a library crate", f"{u['file']}:{u['line']}")


def run(ctx):
    F = ctx.F
    ctx.explanation = (
        "Parent-unchanged is decided as a type-level argument: (a) every search/explore/run/create/post_process impl receives "
        "the parent by shared reference or by value, (b) no ADT field, owned closure capture or global in the four library "
        "crates is interior-mutable (all fields scanned; types reachable from InsertionContext walked), (c) the crates forbid "
        "unsafe code; by Rust's aliasing rules nothing reachable from `&InsertionContext` can then be written. Consistency of the "
        "result is decided for its structural parts: typestate (no stale hand-over, shared with C05-T1), locked-job guards "
        "(C01-L1) and job conservation (C02-P1/P2) are evaluated here as well.")
    ctx.explanation += " The decomposition hands the parent's pending pools to one partial context only (shared rule C02-D1)."
    ctx.not_decided = "that assigned jobs satisfy all constraints after each operator (value-level); order of multi-part jobs."
    ctx.assumptions += ["rustc's borrow checker and aliasing model (trusted base)", "external crates (rayon, rand, std) do not mutate through & without interior mutability",
                        "user-supplied trait objects (custom Random/Quota/logger) are outside the workspace"]
    ctx.run("C04-P1a", "operators receive the parent by shared reference or by value", p1a_signatures, floor=40)
    ctx.run("C04-P1b", "no interior mutability in any library ADT field / owned closure capture / global; InsertionContext reachability", p1b_no_interior_mutability, floor=4)
    ctx.run("C04-P1c", "library crates keep #![forbid(unsafe_code)] and contain no unsafe", p1c_forbid_unsafe, floor=4)
    ctx.run("C04-T1", "typestate: no hand-over function returns a solution with a possibly stale route", c05.t1_handover, floor=25)
    try:
        from . import c01
        ctx.run("C01-L1", "every tour removal is guarded by the locked-jobs set (pinned jobs stay)", c01.l1_locked_guard, floor=10)
        ctx.run("C01-T2", "every rescheduled departure is bounded by the shift's start window", c01.t2_departure_bounded, floor=2)
    except ImportError:
        pass
    try:
        from . import c02
        ctx.run("C02-P1", "jobs removed from one place arrive in another (conservation shape)", c02.p1_pairing, floor=20)
        ctx.run("C02-P6", "functions that move jobs into a place clean the places the jobs can come from (no duplication)", c02.p6_moves_clean_sources, floor=18)
        ctx.run("C02-O1", "sub-jobs of a multi job are inserted left to right", c02.o1_subjob_order, floor=3)
        ctx.run("C02-P5", "empty tours are dropped after the last state acceptance", c02.p5_empty_tours_removed_last, floor=3)
        ctx.run("C02-D1", "decomposition hands the parent's pending pools to one partial context only", c02.d1_decomposition_partitions_pools, floor=3)
    except (ImportError, AttributeError):
        pass
