"""C09 — order laws: structure of the comparison / arithmetic implementations."""
import re
from .. import cg, mir, util
from .. import ordeval as oe
from ..facts import AnchorError

IC = "vrp_core::construction::heuristics::insertions::InsertionCost"
ORD_CMP = f"<{IC} as core::cmp::Ord>::cmp"
PORD = f"<{IC} as core::cmp::PartialOrd>::partial_cmp"
PEQ = f"<{IC} as core::cmp::PartialEq>::eq"
GOAL_TO = "vrp_core::models::goal::Goal::total_order"
GOAL_FIT = "vrp_core::models::goal::Goal::fitness"
ADD_SINGLE = "vrp_core::models::goal::GoalBuilder::add_single"


def upvar_name(fn, proj):
    """name of the captured variable a closure-env projection ('0','data',...) refers to"""
    if not proj or not proj[0].isdigit():
        return None
    ups = fn.get("upvars", [])
    i = int(proj[0])
    return ups[i][0] if i < len(ups) else None


def _component_source(cfn, op):
    """for an f64 operand inside an element closure: (captured name, tuple of fields, index source set)"""
    leaves, crossed = mir.deep_leaves(cfn, op)
    srcs = set()
    idx = set()
    for k, v, p in leaves:
        if k == "arg" and v == 1:
            srcs.add((upvar_name(cfn, p), tuple(x for x in p[1:])))
        elif k == "arg":
            idx.add(v)
    return srcs, idx, crossed


ZERO_F = ("const", "0f64")


def _vec_models(lens, size_of_range=None):
    """call models that let E-C evaluate code over small symbolic cost vectors: `X.data` has lens[X] components X0, X1, ...; a missing component is padded by the
    default cost; `0..n` ranges are walked concretely (fold form through try_fold / map+collect, loop form through next)"""
    def which(v):
        v = oe.strip_refs(v)
        while v and v[0] == "ref":
            v = v[1]
        if v and v[0] == "sym":
            root = v[1].split(".")[0]
            return root if root in lens else None
        return None

    def m_len(it, args, heap, rel):
        w = which(args[0]) if args else None
        return ("int", lens[w]) if w else NotImplemented

    def m_max(it, args, heap, rel):
        a, b = oe.strip_refs(args[0]), oe.strip_refs(args[1])
        if a and b and a[0] == b[0] == "int":
            return ("int", max(a[1], b[1]))
        return NotImplemented

    def m_get(it, args, heap, rel):
        w = which(args[0]) if args else None
        i = oe.strip_refs(args[1]) if len(args) > 1 else None
        if not w or not i or i[0] != "int":
            return NotImplemented
        return oe.some(oe.ref(oe.sym(f"{w}{i[1]}"))) if i[1] < lens[w] else oe.NONE

    def m_unwrap_default(it, args, heap, rel):
        a = args[0]
        if a == oe.NONE:
            return ZERO_F
        if a and a[0] == "some":
            return oe.strip_refs(a[1]) if a[1] and a[1][0] == "ref" else a[1]
        return NotImplemented

    def m_unwrap_or(it, args, heap, rel):
        a = args[0]
        if a == oe.NONE:
            return args[1]
        if a and a[0] == "some":
            return oe.strip_refs(a[1]) if a[1] and a[1][0] == "ref" else a[1]
        return NotImplemented

    def m_default(it, args, heap, rel):
        return ZERO_F

    def m_copied(it, args, heap, rel):
        a = args[0]
        if a == oe.NONE:
            return oe.NONE
        if a and a[0] == "some":
            return oe.some(oe.strip_refs(a[1]))
        return NotImplemented

    return {"::len": m_len, "cmp::Ord::max": m_max, "::get": m_get, "::unwrap_or_default": m_unwrap_default, "Option::<T>::unwrap_or": m_unwrap_or,
            "default::Default::default": m_default, "Option::<&T>::copied": m_copied, "Option::<&T>::cloned": m_copied}


def cmp_law(F, r):
    """InsertionCost::cmp evaluated as a whole over cost vectors of 0, 1 and 2 components on each side (every ordering of the compared components enumerated):
    the result is the ordering of the FIRST pair of (zero-padded) components that differ, Equal if none does"""
    fn = F.fns[ORD_CMP]
    loop_blocks = set().union(*mir.natural_loops(fn).values()) if mir.natural_loops(fn) else set()
    loop_form = any(t["callee"].endswith("Iterator::next") and bi in loop_blocks for bi, t in mir.calls(fn))
    decided = 0
    for ls in (0, 1, 2):
        for lo in (0, 1, 2):
            lens = {"self": ls, "other": lo}
            models = _vec_models(lens)
            size = max(ls, lo)

            def m_try_fold(it, args, heap, rel, size=size):
                acc = args[1]
                cv = oe.strip_refs(args[2]) if args[2] and args[2][0] == "ref" else args[2]
                for i in range(size):
                    res = it._call_closure(cv, [acc, ("int", i)], heap, rel, 1)
                    if not res or res[0] != "cf":
                        raise oe.Undecided("fold step does not answer a ControlFlow")
                    if res[1] == "Break":
                        return res
                    acc = res[2]
                return ("cf", "Continue", acc)

            def m_unwrap_value(it, args, heap, rel):
                a = args[0]
                return a[2] if a and a[0] == "cf" else NotImplemented
            models["Iterator::try_fold"] = m_try_fold
            models["::unwrap_value"] = m_unwrap_value
            it = oe.Interp(F, ORD_CMP, {1: oe.ref(oe.sym("self")), 2: oe.ref(oe.sym("other"))}, fresh=True, max_steps=4000, call_models=models)
            if loop_form:
                oe.script_next(it, size, make=lambda i: oe.some(("int", i - 1)))
            try:
                paths = it.explore(max_paths=400)
            except oe.Undecided as e:
                r.ok(f"cmp law[{ls},{lo}]", f"not decided: the comparison is not evaluable in this form ({e})")
                continue
            for p in paths:
                rels = {}
                for a in p.assumptions:
                    if len(a) == 3 and isinstance(a[2], str) and a[2] in "LEG" and a[0] != "switch":
                        rels[(a[0], a[1])] = a[2]
                        rels[(a[1], a[0])] = oe.rev(a[2])
                want = "E"
                why = ""
                for i in range(size):
                    x = f"self{i}" if i < ls else "k0f64"
                    y = f"other{i}" if i < lo else "k0f64"
                    if x == y:
                        continue
                    o = rels.get((x, y))
                    if o is None:
                        want = None
                        why = f"component {i} is never compared although all earlier components are equal"
                        break
                    if o != "E":
                        want = o
                        break
                desc = ",".join(f"{k[0]}{'<=>'['LEG'.index(v)]}{k[1]}" for k, v in sorted(rels.items()) if k[0].startswith("self") or (k[0] == "k0f64" and k[1].startswith("other")))
                inst = f"cmp law[{ls},{lo}; {desc}]"
                decided += 1
                if want is None:
                    r.fail(inst, f"InsertionCost::cmp answers {p.ret} but {why}: not the lexicographic order with zero padding", F.loc(ORD_CMP))
                elif p.ret != ("ord", want):
                    r.fail(inst, f"InsertionCost::cmp answers {p.ret}, the lexicographic order of the zero-padded components is {want}", F.loc(ORD_CMP))
                else:
                    r.ok(inst, f"= {want}")
    return decided


def _i1_fold_shape(F, r, fn, c):
    """additional shape checks for the fold-with-closure form (operands, padding, fold law of the step closure, initial value, range)"""
    cfn = F.fns[c]
    cmps = [(bi, t) for bi, t in mir.calls(cfn) if t["callee"].split("::")[-1] in ("total_cmp", "partial_cmp", "cmp", "lt", "gt", "le", "ge")]
    floatcmp = [s for _, _, s in mir.stmts(cfn) if s["r"]["k"] == "bin" and s["r"]["op"] in ("Lt", "Gt", "Le", "Ge") and s["r"]["ty"] in ("f64", "f32")]
    if len(cmps) != 1 or not cmps[0][1]["callee"].endswith("f64>::total_cmp") or floatcmp:
        r.fail("cmp closure: comparison", f"component comparison is not exactly one f64::total_cmp (found {[t['callee'].split('::')[-1] for _, t in cmps]}, raw float compares: {len(floatcmp)}): NaN/partial comparisons break totality", F.loc(c))
    else:
        bi, t = cmps[0]
        ls, li, lc = _component_source(cfn, t["args"][0])
        rs, ri, rc = _component_source(cfn, t["args"][1])
        # same index parameter on both sides, self on the left, other on the right, padding by default
        if ls == {("self", ("data",))} and rs == {("other", ("data",))} and li == ri and len(li) == 1:
            r.ok("cmp closure: operands", "total_cmp(self.data[i], other.data[i]) with the same index")
        else:
            r.fail("cmp closure: operands", f"compares {sorted(ls)}[{sorted(li)}] with {sorted(rs)}[{sorted(ri)}]: not `self[i]` against `other[i]` in that order", F.loc(c, t["ln"]))
        pads = [t2["callee"].split("::")[-1] for _, t2 in mir.calls(cfn) if t2["callee"].split("::")[-1] in ("unwrap_or_default", "unwrap_or")]
        hard = [t2["callee"].split("::")[-1] for _, t2 in mir.calls(cfn) if t2["callee"].split("::")[-1] in ("unwrap", "expect", "index")]
        if len(pads) >= 2 and not hard:
            r.ok("cmp closure: padding", f"missing component => default via {sorted(set(pads))}")
        else:
            r.fail("cmp closure: padding", "missing trailing component is not padded with zero (unwrap/index would panic or shorter vector compares differently)", F.loc(c))
    folds_b = [bi for bi, t in mir.calls(fn) if t["callee"].split("::")[-1] in ("try_fold", "fold")]
    if folds_b and not (set(mir.ret_blocks(fn)) & mir.reach(fn, [0], blocked=folds_b)):
        r.ok("cmp: every return through the fold")
    else:
        r.fail("cmp: every return through the fold", "InsertionCost::cmp can return without running the component fold (early return / fast path)", F.loc(ORD_CMP))
    # fold law by E-C: Equal => Continue(acc), otherwise Break(result)
    env = {1: oe.ref(("closure", c, [oe.ref(oe.sym("self")), oe.ref(oe.sym("other"))])), 2: oe.sym("acc"), 3: oe.sym("idx")}
    it = oe.Interp(F, c, env, fresh=True)
    n = 0
    for p in it.explore():
        o = [a[2] for a in p.assumptions if len(a) == 3 and isinstance(a[2], str) and a[2] in "LEG" and a[0] != "switch"]
        if not o:
            r.fail("cmp closure: fold law", "no comparison on the explored path (not decidable)", F.loc(c))
            continue
        o = o[0]
        n += 1
        inst = f"cmp closure: fold law[{o}]"
        if o == "E":
            if p.ret == ("cf", "Continue", oe.sym("acc")) or (p.ret[0] == "cf" and p.ret[1] == "Continue" and p.ret[2] in (("ord", "E"), oe.sym("acc"))):
                r.ok(inst, "Equal => continue with the next component")
            else:
                r.fail(inst, f"equal components do not continue to the next component (returns {p.ret}): order is not lexicographic", F.loc(c))
        else:
            if p.ret == ("cf", "Break", ("ord", o)):
                r.ok(inst, "first differing component decides")
            else:
                r.fail(inst, f"a differing component ({o}) does not decide the comparison with that order (returns {p.ret})", F.loc(c))
    # initial accumulator Equal and range 0..max(len)
    folds = [(bi, t) for bi, t in mir.calls(fn) if t["callee"].split("::")[-1] in ("try_fold", "fold")]
    if not folds:
        r.fail("cmp: fold", "no fold over components", F.loc(ORD_CMP))
    else:
        bi, t = folds[0]
        init = mir.trace(fn, t["args"][1])
        ok_init = False
        for k, v, p in init:
            if k == "agg":
                rv = fn["bbs"][v[0]]["s"][v[1]]["r"]
                ok_init = rv.get("n", "").endswith("Ordering#Equal")
            if k == "const" and str(v).startswith("promoted"):
                pr = F.fns.get(f"{ORD_CMP}::{v}")
                ok_init = bool(pr) and any(s["r"].get("n", "").endswith("Ordering#Equal") for _, _, s in mir.stmts(pr))
        if ok_init:
            r.ok("cmp: initial", "fold starts from Equal")
        else:
            r.fail("cmp: initial", "fold does not start from Ordering::Equal (empty vectors would not compare equal)", F.loc(ORD_CMP))
        maxc = [t2 for _, t2 in mir.calls(fn) if t2["callee"].endswith("Ord::max")]
        lens = [t2 for _, t2 in mir.calls(fn) if t2["callee"].split("::")[-1] == "len"]
        if maxc and len(lens) >= 2:
            r.ok("cmp: range", "0..max(self.len, other.len)")
        else:
            r.fail("cmp: range", "component range is not the maximum of both lengths (trailing components ignored)", F.loc(ORD_CMP))


def i1_insertion_cost_order(F, r):
    fn = F.fns.get(ORD_CMP)
    if fn is None:
        raise AnchorError(ORD_CMP)
    # the law itself, whatever the form (fold with a closure, loop, helper): lexicographic order of the zero-padded components
    n = cmp_law(F, r)
    tc = [t for g in F.family(ORD_CMP) for _, t in mir.calls(F.fns[g]) if t["callee"].endswith("f64>::total_cmp")]
    if not tc:
        r.fail("cmp: total_cmp", "components are not compared with f64::total_cmp (NaN / -0.0 break totality)", F.loc(ORD_CMP))
    # no other comparison anywhere in cmp (fast paths over slices, partial_cmp ...); `==` / `!=` between two Ordering values is not a cost comparison
    stray = [t["callee"] for g in F.family(ORD_CMP) for _, t in mir.calls(F.fns[g])
             if (t["callee"].split("::")[-1] in ("partial_cmp", "lt", "le", "gt", "ge", "eq", "ne") and not any("core::cmp::Ordering" in g_ for g_ in t["ga"])) or
             (t["callee"].split("::")[-1] == "cmp" and "usize" not in " ".join(t["ga"]))]
    floats = [s_ for g in F.family(ORD_CMP) for _, _, s_ in mir.stmts(F.fns[g]) if s_["r"]["k"] == "bin" and s_["r"]["op"] in ("Lt", "Gt", "Le", "Ge", "Eq", "Ne") and s_["r"]["ty"] in ("f64", "f32")]
    if stray or floats:
        r.fail("cmp: single comparison path", f"InsertionCost::cmp contains a second comparison path ({stray[0] if stray else 'raw float comparison'}): two paths that treat -0.0 / NaN / missing components differently break transitivity", F.loc(ORD_CMP))
    else:
        r.ok("cmp: single comparison path", "total_cmp on the components is the only cost comparison")
    cls = F.children.get(ORD_CMP, [])
    if len(cls) == 1 and any(t["callee"].split("::")[-1] in ("try_fold", "fold") for _, t in mir.calls(fn)):
        _i1_fold_shape(F, r, fn, cls[0])
    elif n == 0:
        r.fail("cmp: form", "InsertionCost::cmp is neither the component fold nor evaluable as a whole: the order law is not decided (re-confirm)", F.loc(ORD_CMP))
    # PartialOrd / PartialEq delegate
    pf = F.fns.get(PORD)
    if pf is None:
        raise AnchorError(PORD)
    src = mir.trace(pf, {"l": 0, "p": []})
    good = False
    for k, v, p in src:
        if k == "agg":
            rv = pf["bbs"][v[0]]["s"][v[1]]["r"]
            if rv.get("n", "").endswith("Option#Some"):
                inner = mir.trace(pf, rv["o"][0])
                good = any(k2 == "call" and pf["bbs"][v2]["t"]["callee"] == "core::cmp::Ord::cmp" for k2, v2, p2 in inner)
    if good:
        r.ok("partial_cmp", "Some(self.cmp(other))")
    else:
        r.fail("partial_cmp", "PartialOrd is not Some(Ord::cmp): `<`/`>` on insertion costs disagree with cmp", F.loc(PORD))
    ef = F.fns.get(PEQ)
    if ef is None:
        raise AnchorError(PEQ)
    for o in "LEG":
        it = oe.Interp(F, PEQ, {1: oe.ref(oe.sym("a")), 2: oe.ref(oe.sym("b"))}, rel={("a", "b"): o})
        for p in it.explore():
            if p.ret == ("bool", o == "E"):
                r.ok(f"eq[{o}]", "eq <=> cmp == Equal")
            else:
                r.fail(f"eq[{o}]", f"PartialEq disagrees with Ord (cmp={o}, eq={p.ret})", F.loc(PEQ))


def i2_arith(F, r):
    impls = [i for i, f in F.fns.items() if f["kind"] == "AssocFn" and f["trait_item"] in ("core::ops::arith::Add::add", "core::ops::arith::Sub::sub")
             and "InsertionCost" in f["impl_self"] and "::promoted[" not in i]
    if len(impls) < 4:
        raise AnchorError(f"InsertionCost Add/Sub impls: {len(impls)}")
    for m in impls:
        fn = F.fns[m]
        want = "Add" if fn["trait_item"].endswith("Add::add") else "Sub"
        name = util.short_fn(m)
        cls = F.children.get(m, [])
        if not cls:
            # delegating impl: calls the same operator on references
            deleg = [t for _, t in mir.calls(fn) if t["callee"] == fn["trait_item"]]
            if deleg:
                a0 = mir.trace(fn, deleg[0]["args"][0])
                a1 = mir.trace(fn, deleg[0]["args"][1])
                if any(k == "arg" and v == 1 for k, v, p in a0) and any(k == "arg" and v == 2 for k, v, p in a1):
                    r.ok(name, f"delegates to &self {want} rhs")
                else:
                    r.fail(name, "delegating operator swaps or replaces its operands", F.loc(m))
            else:
                r.fail(name, "operator neither computes element-wise nor delegates to the reference impl", F.loc(m))
            continue
        for c in cls:
            cfn = F.fns[c]
            bins = [(bi, si, s) for bi, si, s in mir.stmts(cfn) if s["r"]["k"] == "bin" and s["r"]["ty"] in ("f64",) and s["r"]["op"] in ("Add", "Sub", "Mul", "Div")]
            if len(bins) != 1:
                r.fail(name, f"element closure has {len(bins)} float operations (expected one {want})", F.loc(c))
                continue
            bi, si, s = bins[0]
            op = s["r"]["op"]
            ls, li, lc = _component_source(cfn, s["r"]["o"][0])
            rs, ri, rc = _component_source(cfn, s["r"]["o"][1])
            lname = {x[0] for x in ls}
            rname = {x[0] for x in rs}
            if op != want:
                r.fail(name, f"`{want}` impl computes `{op}` on the components", F.loc(c, s["ln"]))
            elif not lname and not rname:
                # the closure combines two plain parameters: the element pairing lives in a helper (`combine_costs(self, rhs, |l, r| l + r)`); operand ORDER is still checked
                a0 = {v for k, v, p_ in mir.trace(cfn, s["r"]["o"][0]) if k == "arg"}
                a1 = {v for k, v, p_ in mir.trace(cfn, s["r"]["o"][1]) if k == "arg"}
                if a0 and a1 and max(a0) < min(a1):
                    r.ok(name, f"combining closure computes first {'+' if op == 'Add' else '-'} second; element pairing delegated to a helper (not decided here)")
                else:
                    r.fail(name, f"combining closure computes {op} with its parameters in the wrong order", F.loc(c, s["ln"]))
            elif lname == {"self"} and rname == {"rhs"} and li == ri and len(li) == 1:
                r.ok(name, f"result[i] = self[i] {'+' if op == 'Add' else '-'} rhs[i], same index, zero padding")
            else:
                r.fail(name, f"element {op} combines {sorted(lname)}[{sorted(li)}] with {sorted(rname)}[{sorted(ri)}] (expected self[i], rhs[i])", F.loc(c, s["ln"]))
        # the impl together with the same-module helpers it calls directly (an extracted `combine_costs(lhs, rhs, f)` still is the operator's arithmetic)
        ext = [fn]
        for _, t2 in mir.calls(fn):
            tg = t2.get("res") or t2["callee"]
            if tg in F.fns and F.fns[tg]["module"] == fn["module"] and F.fns[tg]["kind"] != "Closure" and not F.fns[tg].get("impl_trait"):
                ext.append(F.fns[tg])
        maxc = [t2 for f_ in ext for _, t2 in mir.calls(f_) if t2["callee"].endswith("Ord::max")]
        if not maxc:
            r.fail(name + " range", "result length is not max(len) (components dropped)", F.loc(m))
        # the result has max(len) components: nothing of bounded length may sit between the index range and the result (a zip with a fixed-size array or a
        # take() silently drops the layers behind it)
        bounding = [t2["callee"].split("::")[-1] for f_ in ext for _, t2 in mir.calls(f_) if t2["callee"].split("::")[-1] in ("zip", "take", "take_while", "step_by", "chunks", "truncate", "resize")]
        fixed = [fn["locals"][t2["dest"]["l"]] for _, t2 in mir.calls(fn) if not t2["dest"]["p"] and re.match(r"^\[f64; \d+\]$", fn["locals"][t2["dest"]["l"]] or "")]
        arrays = [ty for f_ in ext for ty in f_["locals"] if re.match(r"^\[f64; \d+\]$", ty or "")]
        if bounding or arrays:
            r.fail(name + " length", f"the element-wise result passes through {'a fixed-size array ' + arrays[0] if arrays else ''}{' / ' if arrays and bounding else ''}{', '.join(bounding)}: "
                   "cost layers beyond that bound are silently dropped from every quote (goals with more objective layers)", F.loc(m))
        else:
            r.ok(name + " length", "collected straight from the index range 0..max(len)")


def goal_order_law(F, r):
    """Goal::total_order evaluated as a whole over 0, 1 and 2 layers (each layer's answer enumerated): the result is the answer of the FIRST layer that is not Equal,
    Equal if there is none, and every layer is asked about (a, b) in that order. Fold form (try_fold + closure) and loop form are both evaluated."""
    fn = F.fns[GOAL_TO]
    loop_blocks = set().union(*mir.natural_loops(fn).values()) if mir.natural_loops(fn) else set()
    loop_form = any(t["callee"].endswith("Iterator::next") and bi in loop_blocks for bi, t in mir.calls(fn))
    decided = 0
    for n in (0, 1, 2):
        def m_try_fold(it, args, heap, rel, n=n):
            acc = args[1]
            cv = oe.strip_refs(args[2]) if args[2] and args[2][0] == "ref" else args[2]
            for i in range(n):
                res = it._call_closure(cv, [acc, oe.ref(oe.sym(f"layer{i + 1}"))], heap, rel, 1)
                if not res or res[0] != "cf":
                    raise oe.Undecided("fold step does not answer a ControlFlow")
                if res[1] == "Break":
                    return res
                acc = res[2]
            return ("cf", "Continue", acc)

        def m_unwrap_value(it, args, heap, rel):
            a = args[0]
            return a[2] if a and a[0] == "cf" else NotImplemented
        it = oe.Interp(F, GOAL_TO, {1: oe.ref(oe.sym("self")), 2: oe.ref(oe.sym("a")), 3: oe.ref(oe.sym("b"))}, fresh=True, enum_results=True, max_steps=4000,
                       observe=("function::Fn::call",), call_models={"Iterator::try_fold": m_try_fold, "::unwrap_value": m_unwrap_value})
        if loop_form:
            oe.script_next(it, n, make=lambda i: oe.some(oe.ref(oe.sym(f"layer{i}"))))
        try:
            paths = it.explore(max_paths=200)
        except oe.Undecided as e:
            r.ok(f"total_order law[{n} layer(s)]", f"not decided: not evaluable in this form ({e})")
            continue
        for p in paths:
            ans = [a[2] for a in p.assumptions if a[0] == "callret"]
            ans = [("LEG"["LEG".index(x)] if isinstance(x, str) and x in "LEG" else x) for x in ans]
            want = next((x for x in ans if x != "E"), "E")
            inst = f"total_order law[{n} layer(s): {','.join(map(str, ans))}]"
            decided += 1
            asked_all = len(ans) == n or want != "E"
            if p.ret != ("ord", want) or not asked_all:
                r.fail(inst, f"Goal::total_order answers {p.ret} after asking {len(ans)} of {n} layer(s): it must be the first non-Equal layer answer (lexicographic)", F.loc(GOAL_TO))
                continue
            bad = False
            for suf, cargs in p.calls:
                flat = []
                for x in cargs:
                    x = oe.strip_refs(x)
                    if x and x[0] == "tuple":
                        flat += [oe.strip_refs(y) for y in x[1]]
                syms = [y[1] for y in flat if y and y[0] == "sym" and y[1] in ("a", "b")]
                if syms != ["a", "b"]:
                    bad = True
            if bad:
                r.fail(inst, "a layer's order function is not asked about (a, b) in that order: comparison reversed or degenerate", F.loc(GOAL_TO))
            else:
                r.ok(inst, f"= {want}")
    return decided


def g1_goal_fold(F, r):
    fn = F.fns.get(GOAL_TO)
    if fn is None:
        raise AnchorError(GOAL_TO)
    # iteration source and direction
    chain = [t["callee"].split("::")[-1] for _, t in mir.calls(fn)]
    if "rev" in chain:
        r.fail("total_order: direction", "layers are folded in reverse: lower-priority objectives decide first", F.loc(GOAL_TO))
    else:
        r.ok("total_order: direction", "self.layers.iter() front to back")
    decided = goal_order_law(F, r)
    cls = F.children.get(GOAL_TO, [])
    if len(cls) == 1 and any(t["callee"].split("::")[-1] in ("try_fold", "fold") for _, t in mir.calls(fn)):
        _g1_fold_shape(F, r, fn, cls[0])
    elif not decided:
        r.fail("total_order: form", "Goal::total_order is neither the layer fold nor evaluable as a whole: the lexicographic law is not decided (re-confirm)", F.loc(GOAL_TO))
    _g1_rest(F, r)


def _g1_fold_shape(F, r, fn, c):
    cfn = F.fns[c]
    # closure: argument order (objectives, a, b)
    calls = [(bi, t) for bi, t in mir.calls(cfn) if t["callee"].startswith("core::ops::function::Fn")]
    if len(calls) != 1:
        r.fail("total_order closure: call", f"expected one call of the layer's order function, found {len(calls)}", F.loc(c))
    else:
        bi, t = calls[0]
        tup = mir.trace(cfn, t["args"][1])
        names = []
        for k, v, p in tup:
            if k == "agg":
                rv = cfn["bbs"][v[0]]["s"][v[1]]["r"]
                for o in rv["o"][1:]:
                    nm = {upvar_name(cfn, p2) for k2, v2, p2 in mir.trace(cfn, o) if k2 == "arg" and v2 == 1}
                    names.append(nm)
        if names == [{"a"}, {"b"}]:
            r.ok("total_order closure: operands", "layer order fn called with (objectives, a, b)")
        else:
            r.fail("total_order closure: operands", f"layer order function called with {names} instead of (a, b): comparison reversed or degenerate (cmp(a,a))", F.loc(c, t["ln"]))
        # captured a, b are the parameters in order
        for bi2, si2, s2 in mir.stmts(fn):
            rv = s2["r"]
            if rv["k"] == "agg" and rv.get("ak") == "closure" and rv["n"] == c:
                src = [{(k, v) for k, v, p in mir.trace(fn, o)} for o in rv["o"]]
                ups = [u[0] for u in cfn.get("upvars", [])]
                exp = {"a": ("arg", 2), "b": ("arg", 3)}
                okc = all(exp.get(nm) in s_ for nm, s_ in zip(ups, src) if nm in exp)
                if okc:
                    r.ok("total_order: captures", "closure captures the parameters a, b")
                else:
                    r.fail("total_order: captures", "closure captures are not the parameters (a, b)", F.loc(GOAL_TO))
    env = {1: oe.ref(("closure", c, [oe.ref(oe.sym("a")), oe.ref(oe.sym("b"))])), 2: oe.sym("acc"), 3: oe.ref(oe.sym("layer"))}
    it = oe.Interp(F, c, env, fresh=True, enum_results=True)
    for p in it.explore():
        o = [a[2] for a in p.assumptions if a[0] == "callret"]
        if not o:
            r.fail("total_order closure: fold law", "layer result not enumerated (not decidable)", F.loc(c))
            continue
        o = o[0]
        inst = f"total_order closure: fold law[{o}]"
        if o == "E":
            if p.ret[0] == "cf" and p.ret[1] == "Continue":
                r.ok(inst, "Equal => next layer")
            else:
                r.fail(inst, f"an Equal layer stops the comparison ({p.ret}): lower layers never break ties", F.loc(c))
        else:
            if p.ret == ("cf", "Break", ("ord", o)):
                r.ok(inst, "first non-Equal layer decides")
            else:
                r.fail(inst, f"a deciding layer ({o}) does not end the comparison with its order ({p.ret})", F.loc(c))


def _g1_rest(F, r):
    # fitness iterates the same layers in the same direction
    ff = F.fns.get(GOAL_FIT)
    if ff is None:
        raise AnchorError(GOAL_FIT)
    chain = [t["callee"].split("::")[-1] for _, t in mir.calls(ff)]
    reads_layers = any(p and "layers" in p for k, v, p in set().union(*[mir.trace(ff, t["args"][0]) for _, t in mir.calls(ff) if t["args"]]))
    if "rev" in chain or not reads_layers:
        r.fail("fitness: direction", "fitness vector does not enumerate self.layers front to back (lexicographic comparison of the reported vector would disagree with total_order)", F.loc(GOAL_FIT))
    else:
        r.ok("fitness: direction", "same layers, same direction as total_order")
    # add_single comparator
    cls = F.children.get(ADD_SINGLE, [])
    cmpc = [x for x in cls if F.fns[x]["locals"][0] == "core::cmp::Ordering"]
    # ... or a named function handed to the layer (`Arc::new(compare_by_single_objective)`)
    for _, t_ in mir.calls(F.fns[ADD_SINGLE]):
        for a_ in t_["args"]:
            if mir.is_fnconst(a_) and a_["fn"] in F.fns and F.fns[a_["fn"]]["locals"][0] == "core::cmp::Ordering":
                cmpc.append(a_["fn"])
    for _, _, s_ in mir.stmts(F.fns[ADD_SINGLE]):
        for a_ in s_["r"].get("o", []):
            if mir.is_fnconst(a_) and a_["fn"] in F.fns and F.fns[a_["fn"]]["locals"][0] == "core::cmp::Ordering" and a_["fn"] not in cmpc:
                cmpc.append(a_["fn"])
    if len(cmpc) != 1:
        raise AnchorError(f"add_single comparator closures: {len(cmpc)}")
    cc = cmpc[0]
    ccf = F.fns[cc]
    off = 0 if ccf["kind"] == "Closure" else -1
    fits = [(bi, t) for bi, t in mir.calls(ccf) if t["callee"].endswith("FeatureObjective::fitness")]
    tc = [(bi, t) for bi, t in mir.calls(ccf) if t["callee"].endswith("total_cmp")]
    bad = [t["callee"] for _, t in mir.calls(ccf) if t["callee"].split("::")[-1] in ("partial_cmp",)]
    odd = []
    for _, _, s_ in mir.stmts(ccf):
        rv_ = s_["r"]
        if rv_["k"] == "bin" and rv_["ty"] in ("f64", "f32"):
            zero_eq = rv_["op"] == "Eq" and any(mir.is_const(o) and str(o["c"]).lstrip("-").startswith("0") for o in rv_["o"])
            if not zero_eq:
                odd.append(rv_["op"])
    odd += [t["callee"].split("::")[-1] for _, t in mir.calls(ccf) if t["callee"].split("::")[-1] in ("abs", "round", "floor", "ceil", "max", "min") and "f64" in t["callee"]]
    if odd:
        r.fail("add_single comparator: exact", f"single-objective comparator uses float arithmetic / tolerance ({sorted(set(odd))}) besides total_cmp and the explicit both-zero case: "
               "`almost equal` is not transitive and no longer coincides with comparing the reported fitness", F.loc(cc))
    else:
        r.ok("add_single comparator: exact", "only total_cmp and the explicit `== 0.` tests")
    if len(fits) == 2 and len(tc) == 1 and not bad:
        fa = {(k, v) for k, v, p in mir.trace(ccf, fits[0][1]["args"][1])}
        fb = {(k, v) for k, v, p in mir.trace(ccf, fits[1][1]["args"][1])}
        la = {(k, v) for k, v, p in mir.trace(ccf, tc[0][1]["args"][0])}
        lb = {(k, v) for k, v, p in mir.trace(ccf, tc[0][1]["args"][1])}
        if ("arg", 3 + off) in fa and ("arg", 4 + off) in fb and ("call", fits[0][0]) in la and ("call", fits[1][0]) in lb:
            r.ok("add_single comparator", "fitness(a).total_cmp(fitness(b)) of objectives[0] (both-zero case handled explicitly)")
        else:
            r.fail("add_single comparator", "single-objective layer does not compare fitness(a) with fitness(b) in that order", F.loc(cc))
    else:
        r.fail("add_single comparator", f"comparator shape changed (fitness calls: {len(fits)}, total_cmp: {len(tc)}, partial: {bad}): totality of single-layer goals not decided", F.loc(cc))


DOM = "rosomaxa::evolution::objectives::dominance_order"


def d1_dominance_order(F, r):
    fn = F.fns.get(DOM)
    if fn is None:
        raise AnchorError(DOM)
    # the two counters: integer locals incremented by 1 inside the loop, classified by the arm of the match on the ordering result
    loops = mir.natural_loops(fn)
    if not loops:
        raise AnchorError("dominance_order: loop")
    body = set().union(*loops.values())
    incs = {}
    for bi, si, s in mir.stmts(fn):
        rv = s["r"]
        if bi in body and rv["k"] == "bin" and rv["op"] in ("AddWithOverflow", "Add") and mir.is_const(rv["o"][1]) and str(rv["o"][1]["c"]).startswith("1_") and mir.is_place(rv["o"][0]):
            incs[rv["o"][0]["l"]] = bi
    if len(incs) != 2:
        raise AnchorError(f"dominance_order: {len(incs)} counters")
    # which arm: switch on discriminant of the ordering call result (-1 Less, 1 Greater)
    arm = {}
    for sb in sorted(body):
        tt = fn["bbs"][sb]["t"]
        if tt["k"] == "switch" and any(s["r"]["k"] == "discr" and s["d"]["l"] == tt["o"].get("l") for s in fn["bbs"][sb]["s"]):
            for v, tb in tt["tg"]:
                vv_ = v - 2 ** 64 if v >= 2 ** 63 else (v - 256 if 128 <= v < 256 else v)
                sub = mir.reach(fn, [tb], blocked=[sb] + list(loops))
                for l, ib in incs.items():
                    if ib in sub:
                        arm[l] = vv_
    less = [l for l, v in arm.items() if v == -1]
    greater = [l for l, v in arm.items() if v == 1]
    if len(less) != 1 or len(greater) != 1:
        r.fail("dominance_order: counters", f"cannot classify the two counters by match arm ({arm})", F.loc(DOM))
        return
    L, G = less[0], greater[0]
    # loop exit: successor of a loop block outside the body from which a return is reachable
    exits = sorted({y for b in body for y in mir.succs(fn)[b] if y not in body})
    exits = [e for e in exits if set(mir.ret_blocks(fn)) & mir.reach(fn, [e])]
    if len(exits) != 1:
        raise AnchorError(f"dominance_order: loop exits {exits}")
    table = {}
    for l in (0, 1):
        for g in (0, 1):
            it = oe.Interp(F, DOM, {L: ("int", l), G: ("int", g)}, fresh=True)
            it.start_block = exits[0]
            rets = {p.ret for p in it.explore()}
            if len(rets) != 1 or list(rets)[0][0] != "ord":
                r.fail(f"dominance_order[less={'>0' if l else 0},greater={'>0' if g else 0}]", f"result not decidable ({rets})", F.loc(DOM))
                return
            table[(l, g)] = list(rets)[0][1]
    for (l, g), o in sorted(table.items()):
        inst = f"dominance_order[less={'>0' if l else '0'},greater={'>0' if g else '0'}]"
        mirror = table[(g, l)]
        if o != oe.rev(mirror):
            r.fail(inst, f"cmp(a,b)={o} but cmp(b,a)={mirror} for the swapped counts: the multi-objective comparison is not antisymmetric (both of two conflicting solutions can be `worse`)", F.loc(DOM))
        elif (l, g) == (0, 0) and o != "E":
            r.fail(inst, "identical solutions do not compare Equal (not reflexive)", F.loc(DOM))
        elif (l, g) == (1, 0) and o != "L":
            r.fail(inst, f"a dominating solution compares {o}", F.loc(DOM))
        else:
            r.ok(inst, f"{o}, mirror {mirror}")


def run(ctx):
    ctx.explanation = (
        "Implementation-structure analysis of the comparison code: the InsertionCost fold is evaluated by the finite-ordering interpreter over "
        "Less/Equal/Greater (Equal continues, anything else breaks with that order), its operands are self[i]/other[i] with the same index compared "
        "only by f64::total_cmp with zero padding over 0..max(len); PartialOrd/PartialEq delegate to Ord; Add/Sub are element-wise with the right "
        "operator; Goal::total_order folds layers front to back with the same law and calls each layer with (a, b); fitness enumerates the same layers.")
    ctx.explanation += ' I1 and G1 are whole-function laws: InsertionCost::cmp evaluated over cost vectors of 0/1/2 components per side, Goal::total_order over 0/1/2 layers, fold and loop forms alike.'
    ctx.not_decided = "transitivity of multi-objective (dominance) layers and of custom multi-layer order functions; (x+y)-y == x numerically; sign of zero."
    ctx.assumptions += ["a lexicographic extension of a total order with a fixed padding value is a total order", "f64::total_cmp is a total order (IEEE 754 totalOrder)"]
    ctx.run("C09-I1", "InsertionCost ordering is a lexicographic fold of total_cmp over padded components; PartialOrd/PartialEq agree with Ord", i1_insertion_cost_order, floor=9)
    ctx.run("C09-I2", "InsertionCost Add/Sub are element-wise (same index, right operator, zero padding, max length)", i2_arith, floor=4)
    ctx.run("C09-D1", "dominance_order is reflexive and antisymmetric (evaluated over the abstract counts {0,>0}^2)", d1_dominance_order, floor=4)
    ctx.run("C09-G1", "Goal::total_order is a front-to-back lexicographic fold calling each layer with (a, b); fitness uses the same layer order; single layers use total_cmp", g1_goal_fold, floor=7)
