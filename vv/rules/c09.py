"""C09 — order laws: structure of the comparison / arithmetic implementations."""
import re
from .. import cg, mir, util
from .. import ordeval as oe
from ..facts import AnchorError

IC = "vrp_core::construction::heuristics::insertions::InsertionCost"
ORD_CMP = f"<{IC} as core::cmp::Ord>::cmp"
PORD = f"<{IC} as core::cmp::PartialOrd>::partial_cmp"
PEQ = f"<{IC} as core::cmp::PartialEq>::eq"
GOAL_TO = "vrp_core::models::goal::Goal::total_order"
GOAL_FIT = "vrp_core::models::goal::Goal::fitness"
ADD_SINGLE = "vrp_core::models::goal::GoalBuilder::add_single"


def upvar_name(fn, proj):
    """name of the captured variable a closure-env projection ('0','data',...) refers to"""
    if not proj or not proj[0].isdigit():
        return None
    ups = fn.get("upvars", [])
    i = int(proj[0])
    return ups[i][0] if i < len(ups) else None


def _component_source(cfn, op):
    """for an f64 operand inside an element closure: (captured name, tuple of fields, index source set)"""
    leaves, crossed = mir.deep_leaves(cfn, op)
    srcs = set()
    idx = set()
    for k, v, p in leaves:
        if k == "arg" and v == 1:
            srcs.add((upvar_name(cfn, p), tuple(x for x in p[1:])))
        elif k == "arg":
            idx.add(v)
    return srcs, idx, crossed


def i1_insertion_cost_order(F, r):
    fn = F.fns.get(ORD_CMP)
    if fn is None:
        raise AnchorError(ORD_CMP)
    cls = F.children.get(ORD_CMP, [])
    if len(cls) != 1:
        raise AnchorError(f"InsertionCost::cmp: expected one fold closure, found {len(cls)}")
    c = cls[0]
    cfn = F.fns[c]
    cmps = [(bi, t) for bi, t in mir.calls(cfn) if t["callee"].split("::")[-1] in ("total_cmp", "partial_cmp", "cmp", "lt", "gt", "le", "ge")]
    floatcmp = [s for _, _, s in mir.stmts(cfn) if s["r"]["k"] == "bin" and s["r"]["op"] in ("Lt", "Gt", "Le", "Ge") and s["r"]["ty"] in ("f64", "f32")]
    if len(cmps) != 1 or not cmps[0][1]["callee"].endswith("f64>::total_cmp") or floatcmp:
        r.fail("cmp closure: comparison", f"component comparison is not exactly one f64::total_cmp (found {[t['callee'].split('::')[-1] for _, t in cmps]}, raw float compares: {len(floatcmp)}): NaN/partial comparisons break totality", F.loc(c))
    else:
        bi, t = cmps[0]
        ls, li, lc = _component_source(cfn, t["args"][0])
        rs, ri, rc = _component_source(cfn, t["args"][1])
        # same index parameter on both sides, self on the left, other on the right, padding by default
        if ls == {("self", ("data",))} and rs == {("other", ("data",))} and li == ri and len(li) == 1:
            r.ok("cmp closure: operands", "total_cmp(self.data[i], other.data[i]) with the same index")
        else:
            r.fail("cmp closure: operands", f"compares {sorted(ls)}[{sorted(li)}] with {sorted(rs)}[{sorted(ri)}]: not `self[i]` against `other[i]` in that order", F.loc(c, t["ln"]))
        pads = [t2["callee"].split("::")[-1] for _, t2 in mir.calls(cfn) if t2["callee"].split("::")[-1] in ("unwrap_or_default", "unwrap_or")]
        hard = [t2["callee"].split("::")[-1] for _, t2 in mir.calls(cfn) if t2["callee"].split("::")[-1] in ("unwrap", "expect", "index")]
        if len(pads) >= 2 and not hard:
            r.ok("cmp closure: padding", f"missing component => default via {sorted(set(pads))}")
        else:
            r.fail("cmp closure: padding", "missing trailing component is not padded with zero (unwrap/index would panic or shorter vector compares differently)", F.loc(c))
    # no other comparison anywhere in cmp (fast paths over slices, partial_cmp ...) and every return passes the fold
    stray = [t["callee"] for g in F.family(ORD_CMP) for _, t in mir.calls(F.fns[g])
             if t["callee"].split("::")[-1] in ("partial_cmp", "lt", "le", "gt", "ge", "eq", "ne") or
             (t["callee"].split("::")[-1] == "cmp" and "usize" not in " ".join(t["ga"]))]
    if stray:
        r.fail("cmp: single comparison path", f"InsertionCost::cmp contains a second comparison path ({stray[0]}): two paths that treat -0.0 / missing components differently break transitivity", F.loc(ORD_CMP))
    else:
        r.ok("cmp: single comparison path", "the fold over total_cmp is the only comparison")
    folds_b = [bi for bi, t in mir.calls(fn) if t["callee"].split("::")[-1] in ("try_fold", "fold")]
    if folds_b and not (set(mir.ret_blocks(fn)) & mir.reach(fn, [0], blocked=folds_b)):
        r.ok("cmp: every return through the fold")
    else:
        r.fail("cmp: every return through the fold", "InsertionCost::cmp can return without running the component fold (early return / fast path)", F.loc(ORD_CMP))
    # fold law by E-C: Equal => Continue(acc), otherwise Break(result)
    env = {1: oe.ref(("closure", c, [oe.ref(oe.sym("self")), oe.ref(oe.sym("other"))])), 2: oe.sym("acc"), 3: oe.sym("idx")}
    it = oe.Interp(F, c, env, fresh=True)
    n = 0
    for p in it.explore():
        o = [a[2] for a in p.assumptions if len(a) == 3 and isinstance(a[2], str) and a[2] in "LEG" and a[0] != "switch"]
        if not o:
            r.fail("cmp closure: fold law", "no comparison on the explored path (not decidable)", F.loc(c))
            continue
        o = o[0]
        n += 1
        inst = f"cmp closure: fold law[{o}]"
        if o == "E":
            if p.ret == ("cf", "Continue", oe.sym("acc")) or (p.ret[0] == "cf" and p.ret[1] == "Continue" and p.ret[2] in (("ord", "E"), oe.sym("acc"))):
                r.ok(inst, "Equal => continue with the next component")
            else:
                r.fail(inst, f"equal components do not continue to the next component (returns {p.ret}): order is not lexicographic", F.loc(c))
        else:
            if p.ret == ("cf", "Break", ("ord", o)):
                r.ok(inst, "first differing component decides")
            else:
                r.fail(inst, f"a differing component ({o}) does not decide the comparison with that order (returns {p.ret})", F.loc(c))
    # initial accumulator Equal and range 0..max(len)
    folds = [(bi, t) for bi, t in mir.calls(fn) if t["callee"].split("::")[-1] in ("try_fold", "fold")]
    if not folds:
        r.fail("cmp: fold", "no fold over components", F.loc(ORD_CMP))
    else:
        bi, t = folds[0]
        init = mir.trace(fn, t["args"][1])
        ok_init = False
        for k, v, p in init:
            if k == "agg":
                rv = fn["bbs"][v[0]]["s"][v[1]]["r"]
                ok_init = rv.get("n", "").endswith("Ordering#Equal")
            if k == "const" and str(v).startswith("promoted"):
                pr = F.fns.get(f"{ORD_CMP}::{v}")
                ok_init = bool(pr) and any(s["r"].get("n", "").endswith("Ordering#Equal") for _, _, s in mir.stmts(pr))
        if ok_init:
            r.ok("cmp: initial", "fold starts from Equal")
        else:
            r.fail("cmp: initial", "fold does not start from Ordering::Equal (empty vectors would not compare equal)", F.loc(ORD_CMP))
        maxc = [t2 for _, t2 in mir.calls(fn) if t2["callee"].endswith("Ord::max")]
        lens = [t2 for _, t2 in mir.calls(fn) if t2["callee"].split("::")[-1] == "len"]
        if maxc and len(lens) >= 2:
            r.ok("cmp: range", "0..max(self.len, other.len)")
        else:
            r.fail("cmp: range", "component range is not the maximum of both lengths (trailing components ignored)", F.loc(ORD_CMP))
    # PartialOrd / PartialEq delegate
    pf = F.fns.get(PORD)
    if pf is None:
        raise AnchorError(PORD)
    src = mir.trace(pf, {"l": 0, "p": []})
    good = False
    for k, v, p in src:
        if k == "agg":
            rv = pf["bbs"][v[0]]["s"][v[1]]["r"]
            if rv.get("n", "").endswith("Option#Some"):
                inner = mir.trace(pf, rv["o"][0])
                good = any(k2 == "call" and pf["bbs"][v2]["t"]["callee"] == "core::cmp::Ord::cmp" for k2, v2, p2 in inner)
    if good:
        r.ok("partial_cmp", "Some(self.cmp(other))")
    else:
        r.fail("partial_cmp", "PartialOrd is not Some(Ord::cmp): `<`/`>` on insertion costs disagree with cmp", F.loc(PORD))
    ef = F.fns.get(PEQ)
    if ef is None:
        raise AnchorError(PEQ)
    for o in "LEG":
        it = oe.Interp(F, PEQ, {1: oe.ref(oe.sym("a")), 2: oe.ref(oe.sym("b"))}, rel={("a", "b"): o})
        for p in it.explore():
            if p.ret == ("bool", o == "E"):
                r.ok(f"eq[{o}]", "eq <=> cmp == Equal")
            else:
                r.fail(f"eq[{o}]", f"PartialEq disagrees with Ord (cmp={o}, eq={p.ret})", F.loc(PEQ))


def i2_arith(F, r):
    impls = [i for i, f in F.fns.items() if f["kind"] == "AssocFn" and f["trait_item"] in ("core::ops::arith::Add::add", "core::ops::arith::Sub::sub")
             and "InsertionCost" in f["impl_self"] and "::promoted[" not in i]
    if len(impls) < 4:
        raise AnchorError(f"InsertionCost Add/Sub impls: {len(impls)}")
    for m in impls:
        fn = F.fns[m]
        want = "Add" if fn["trait_item"].endswith("Add::add") else "Sub"
        name = util.short_fn(m)
        cls = F.children.get(m, [])
        if not cls:
            # delegating impl: calls the same operator on references
            deleg = [t for _, t in mir.calls(fn) if t["callee"] == fn["trait_item"]]
            if deleg:
                a0 = mir.trace(fn, deleg[0]["args"][0])
                a1 = mir.trace(fn, deleg[0]["args"][1])
                if any(k == "arg" and v == 1 for k, v, p in a0) and any(k == "arg" and v == 2 for k, v, p in a1):
                    r.ok(name, f"delegates to &self {want} rhs")
                else:
                    r.fail(name, "delegating operator swaps or replaces its operands", F.loc(m))
            else:
                r.fail(name, "operator neither computes element-wise nor delegates to the reference impl", F.loc(m))
            continue
        for c in cls:
            cfn = F.fns[c]
            bins = [(bi, si, s) for bi, si, s in mir.stmts(cfn) if s["r"]["k"] == "bin" and s["r"]["ty"] in ("f64",) and s["r"]["op"] in ("Add", "Sub", "Mul", "Div")]
            if len(bins) != 1:
                r.fail(name, f"element closure has {len(bins)} float operations (expected one {want})", F.loc(c))
                continue
            bi, si, s = bins[0]
            op = s["r"]["op"]
            ls, li, lc = _component_source(cfn, s["r"]["o"][0])
            rs, ri, rc = _component_source(cfn, s["r"]["o"][1])
            lname = {x[0] for x in ls}
            rname = {x[0] for x in rs}
            if op != want:
                r.fail(name, f"`{want}` impl computes `{op}` on the components", F.loc(c, s["ln"]))
            elif lname == {"self"} and rname == {"rhs"} and li == ri and len(li) == 1:
                r.ok(name, f"result[i] = self[i] {'+' if op == 'Add' else '-'} rhs[i], same index, zero padding")
            else:
                r.fail(name, f"element {op} combines {sorted(lname)}[{sorted(li)}] with {sorted(rname)}[{sorted(ri)}] (expected self[i], rhs[i])", F.loc(c, s["ln"]))
        maxc = [t2 for _, t2 in mir.calls(fn) if t2["callee"].endswith("Ord::max")]
        if not maxc:
            r.fail(name + " range", "result length is not max(len) (components dropped)", F.loc(m))
        # the result has max(len) components: nothing of bounded length may sit between the index range and the result (a zip with a fixed-size array or a
        # take() silently drops the layers behind it)
        bounding = [t2["callee"].split("::")[-1] for _, t2 in mir.calls(fn) if t2["callee"].split("::")[-1] in ("zip", "take", "take_while", "step_by", "chunks", "truncate", "resize")]
        fixed = [fn["locals"][t2["dest"]["l"]] for _, t2 in mir.calls(fn) if not t2["dest"]["p"] and re.match(r"^\[f64; \d+\]$", fn["locals"][t2["dest"]["l"]] or "")]
        arrays = [ty for ty in fn["locals"] if re.match(r"^\[f64; \d+\]$", ty or "")]
        if bounding or arrays:
            r.fail(name + " length", f"the element-wise result passes through {'a fixed-size array ' + arrays[0] if arrays else ''}{' / ' if arrays and bounding else ''}{', '.join(bounding)}: "
                   "cost layers beyond that bound are silently dropped from every quote (goals with more objective layers)", F.loc(m))
        else:
            r.ok(name + " length", "collected straight from the index range 0..max(len)")


def g1_goal_fold(F, r):
    fn = F.fns.get(GOAL_TO)
    if fn is None:
        raise AnchorError(GOAL_TO)
    cls = F.children.get(GOAL_TO, [])
    if len(cls) != 1:
        raise AnchorError(f"Goal::total_order closures: {len(cls)}")
    c = cls[0]
    cfn = F.fns[c]
    # iteration source and direction
    chain = [t["callee"].split("::")[-1] for _, t in mir.calls(fn)]
    if "rev" in chain:
        r.fail("total_order: direction", "layers are folded in reverse: lower-priority objectives decide first", F.loc(GOAL_TO))
    else:
        r.ok("total_order: direction", "self.layers.iter() front to back")
    # closure: argument order (objectives, a, b)
    calls = [(bi, t) for bi, t in mir.calls(cfn) if t["callee"].startswith("core::ops::function::Fn")]
    if len(calls) != 1:
        r.fail("total_order closure: call", f"expected one call of the layer's order function, found {len(calls)}", F.loc(c))
    else:
        bi, t = calls[0]
        tup = mir.trace(cfn, t["args"][1])
        names = []
        for k, v, p in tup:
            if k == "agg":
                rv = cfn["bbs"][v[0]]["s"][v[1]]["r"]
                for o in rv["o"][1:]:
                    nm = {upvar_name(cfn, p2) for k2, v2, p2 in mir.trace(cfn, o) if k2 == "arg" and v2 == 1}
                    names.append(nm)
        if names == [{"a"}, {"b"}]:
            r.ok("total_order closure: operands", "layer order fn called with (objectives, a, b)")
        else:
            r.fail("total_order closure: operands", f"layer order function called with {names} instead of (a, b): comparison reversed or degenerate (cmp(a,a))", F.loc(c, t["ln"]))
        # captured a, b are the parameters in order
        for bi2, si2, s2 in mir.stmts(fn):
            rv = s2["r"]
            if rv["k"] == "agg" and rv.get("ak") == "closure" and rv["n"] == c:
                src = [{(k, v) for k, v, p in mir.trace(fn, o)} for o in rv["o"]]
                ups = [u[0] for u in cfn.get("upvars", [])]
                exp = {"a": ("arg", 2), "b": ("arg", 3)}
                okc = all(exp.get(nm) in s_ for nm, s_ in zip(ups, src) if nm in exp)
                if okc:
                    r.ok("total_order: captures", "closure captures the parameters a, b")
                else:
                    r.fail("total_order: captures", "closure captures are not the parameters (a, b)", F.loc(GOAL_TO))
    env = {1: oe.ref(("closure", c, [oe.ref(oe.sym("a")), oe.ref(oe.sym("b"))])), 2: oe.sym("acc"), 3: oe.ref(oe.sym("layer"))}
    it = oe.Interp(F, c, env, fresh=True, enum_results=True)
    for p in it.explore():
        o = [a[2] for a in p.assumptions if a[0] == "callret"]
        if not o:
            r.fail("total_order closure: fold law", "layer result not enumerated (not decidable)", F.loc(c))
            continue
        o = o[0]
        inst = f"total_order closure: fold law[{o}]"
        if o == "E":
            if p.ret[0] == "cf" and p.ret[1] == "Continue":
                r.ok(inst, "Equal => next layer")
            else:
                r.fail(inst, f"an Equal layer stops the comparison ({p.ret}): lower layers never break ties", F.loc(c))
        else:
            if p.ret == ("cf", "Break", ("ord", o)):
                r.ok(inst, "first non-Equal layer decides")
            else:
                r.fail(inst, f"a deciding layer ({o}) does not end the comparison with its order ({p.ret})", F.loc(c))
    # fitness iterates the same layers in the same direction
    ff = F.fns.get(GOAL_FIT)
    if ff is None:
        raise AnchorError(GOAL_FIT)
    chain = [t["callee"].split("::")[-1] for _, t in mir.calls(ff)]
    reads_layers = any(p and "layers" in p for k, v, p in set().union(*[mir.trace(ff, t["args"][0]) for _, t in mir.calls(ff) if t["args"]]))
    if "rev" in chain or not reads_layers:
        r.fail("fitness: direction", "fitness vector does not enumerate self.layers front to back (lexicographic comparison of the reported vector would disagree with total_order)", F.loc(GOAL_FIT))
    else:
        r.ok("fitness: direction", "same layers, same direction as total_order")
    # add_single comparator
    cls = F.children.get(ADD_SINGLE, [])
    cmpc = [x for x in cls if F.fns[x]["locals"][0] == "core::cmp::Ordering"]
    if len(cmpc) != 1:
        raise AnchorError(f"add_single comparator closures: {len(cmpc)}")
    cc = cmpc[0]
    ccf = F.fns[cc]
    fits = [(bi, t) for bi, t in mir.calls(ccf) if t["callee"].endswith("FeatureObjective::fitness")]
    tc = [(bi, t) for bi, t in mir.calls(ccf) if t["callee"].endswith("total_cmp")]
    bad = [t["callee"] for _, t in mir.calls(ccf) if t["callee"].split("::")[-1] in ("partial_cmp",)]
    odd = []
    for _, _, s_ in mir.stmts(ccf):
        rv_ = s_["r"]
        if rv_["k"] == "bin" and rv_["ty"] in ("f64", "f32"):
            zero_eq = rv_["op"] == "Eq" and any(mir.is_const(o) and str(o["c"]).lstrip("-").startswith("0") for o in rv_["o"])
            if not zero_eq:
                odd.append(rv_["op"])
    odd += [t["callee"].split("::")[-1] for _, t in mir.calls(ccf) if t["callee"].split("::")[-1] in ("abs", "round", "floor", "ceil", "max", "min") and "f64" in t["callee"]]
    if odd:
        r.fail("add_single comparator: exact", f"single-objective comparator uses float arithmetic / tolerance ({sorted(set(odd))}) besides total_cmp and the explicit both-zero case: "
               "`almost equal` is not transitive and no longer coincides with comparing the reported fitness", F.loc(cc))
    else:
        r.ok("add_single comparator: exact", "only total_cmp and the explicit `== 0.` tests")
    if len(fits) == 2 and len(tc) == 1 and not bad:
        fa = {(k, v) for k, v, p in mir.trace(ccf, fits[0][1]["args"][1])}
        fb = {(k, v) for k, v, p in mir.trace(ccf, fits[1][1]["args"][1])}
        la = {(k, v) for k, v, p in mir.trace(ccf, tc[0][1]["args"][0])}
        lb = {(k, v) for k, v, p in mir.trace(ccf, tc[0][1]["args"][1])}
        if ("arg", 3) in fa and ("arg", 4) in fb and ("call", fits[0][0]) in la and ("call", fits[1][0]) in lb:
            r.ok("add_single comparator", "fitness(a).total_cmp(fitness(b)) of objectives[0] (both-zero case handled explicitly)")
        else:
            r.fail("add_single comparator", "single-objective layer does not compare fitness(a) with fitness(b) in that order", F.loc(cc))
    else:
        r.fail("add_single comparator", f"comparator shape changed (fitness calls: {len(fits)}, total_cmp: {len(tc)}, partial: {bad}): totality of single-layer goals not decided", F.loc(cc))


DOM = "rosomaxa::evolution::objectives::dominance_order"


def d1_dominance_order(F, r):
    fn = F.fns.get(DOM)
    if fn is None:
        raise AnchorError(DOM)
    # the two counters: integer locals incremented by 1 inside the loop, classified by the arm of the match on the ordering result
    loops = mir.natural_loops(fn)
    if not loops:
        raise AnchorError("dominance_order: loop")
    body = set().union(*loops.values())
    incs = {}
    for bi, si, s in mir.stmts(fn):
        rv = s["r"]
        if bi in body and rv["k"] == "bin" and rv["op"] in ("AddWithOverflow", "Add") and mir.is_const(rv["o"][1]) and str(rv["o"][1]["c"]).startswith("1_") and mir.is_place(rv["o"][0]):
            incs[rv["o"][0]["l"]] = bi
    if len(incs) != 2:
        raise AnchorError(f"dominance_order: {len(incs)} counters")
    # which arm: switch on discriminant of the ordering call result (-1 Less, 1 Greater)
    arm = {}
    for sb in sorted(body):
        tt = fn["bbs"][sb]["t"]
        if tt["k"] == "switch" and any(s["r"]["k"] == "discr" and s["d"]["l"] == tt["o"].get("l") for s in fn["bbs"][sb]["s"]):
            for v, tb in tt["tg"]:
                vv_ = v - 2 ** 64 if v >= 2 ** 63 else (v - 256 if 128 <= v < 256 else v)
                sub = mir.reach(fn, [tb], blocked=[sb] + list(loops))
                for l, ib in incs.items():
                    if ib in sub:
                        arm[l] = vv_
    less = [l for l, v in arm.items() if v == -1]
    greater = [l for l, v in arm.items() if v == 1]
    if len(less) != 1 or len(greater) != 1:
        r.fail("dominance_order: counters", f"cannot classify the two counters by match arm ({arm})", F.loc(DOM))
        return
    L, G = less[0], greater[0]
    # loop exit: successor of a loop block outside the body from which a return is reachable
    exits = sorted({y for b in body for y in mir.succs(fn)[b] if y not in body})
    exits = [e for e in exits if set(mir.ret_blocks(fn)) & mir.reach(fn, [e])]
    if len(exits) != 1:
        raise AnchorError(f"dominance_order: loop exits {exits}")
    table = {}
    for l in (0, 1):
        for g in (0, 1):
            it = oe.Interp(F, DOM, {L: ("int", l), G: ("int", g)}, fresh=True)
            it.start_block = exits[0]
            rets = {p.ret for p in it.explore()}
            if len(rets) != 1 or list(rets)[0][0] != "ord":
                r.fail(f"dominance_order[less={'>0' if l else 0},greater={'>0' if g else 0}]", f"result not decidable ({rets})", F.loc(DOM))
                return
            table[(l, g)] = list(rets)[0][1]
    for (l, g), o in sorted(table.items()):
        inst = f"dominance_order[less={'>0' if l else '0'},greater={'>0' if g else '0'}]"
        mirror = table[(g, l)]
        if o != oe.rev(mirror):
            r.fail(inst, f"cmp(a,b)={o} but cmp(b,a)={mirror} for the swapped counts: the multi-objective comparison is not antisymmetric (both of two conflicting solutions can be `worse`)", F.loc(DOM))
        elif (l, g) == (0, 0) and o != "E":
            r.fail(inst, "identical solutions do not compare Equal (not reflexive)", F.loc(DOM))
        elif (l, g) == (1, 0) and o != "L":
            r.fail(inst, f"a dominating solution compares {o}", F.loc(DOM))
        else:
            r.ok(inst, f"{o}, mirror {mirror}")


def run(ctx):
    ctx.explanation = (
        "Implementation-structure analysis of the comparison code: the InsertionCost fold is evaluated by the finite-ordering interpreter over "
        "Less/Equal/Greater (Equal continues, anything else breaks with that order), its operands are self[i]/other[i] with the same index compared "
        "only by f64::total_cmp with zero padding over 0..max(len); PartialOrd/PartialEq delegate to Ord; Add/Sub are element-wise with the right "
        "operator; Goal::total_order folds layers front to back with the same law and calls each layer with (a, b); fitness enumerates the same layers.")
    ctx.not_decided = "transitivity of multi-objective (dominance) layers and of custom multi-layer order functions; (x+y)-y == x numerically; sign of zero."
    ctx.assumptions += ["a lexicographic extension of a total order with a fixed padding value is a total order", "f64::total_cmp is a total order (IEEE 754 totalOrder)"]
    ctx.run("C09-I1", "InsertionCost ordering is a lexicographic fold of total_cmp over padded components; PartialOrd/PartialEq agree with Ord", i1_insertion_cost_order, floor=9)
    ctx.run("C09-I2", "InsertionCost Add/Sub are element-wise (same index, right operator, zero padding, max length)", i2_arith, floor=4)
    ctx.run("C09-D1", "dominance_order is reflexive and antisymmetric (evaluated over the abstract counts {0,>0}^2)", d1_dominance_order, floor=4)
    ctx.run("C09-G1", "Goal::total_order is a front-to-back lexicographic fold calling each layer with (a, b); fitness uses the same layer order; single layers use total_cmp", g1_goal_fold, floor=7)
