"""C18 — numerical sanity of adaptive selection and termination math: ONLY the structural clauses of its last sentence
(termination estimates within [0,1]; the variation criterion fires exactly when every objective's CV is below the threshold)."""
from .. import mir, signs, util
from .. import ordeval as oe
from ..facts import AnchorError
from . import c07

MV = "rosomaxa::termination::min_variation::MinVariation::<C, O, S, K>::"
TERM = "rosomaxa::termination::Termination"


def _v1_loop_form(F, r, ct):
    """check_threshold written as a loop: evaluate the whole function over objective sequences of length 0, 1 and 2 (Iterator::next modelled as a finite script)"""
    fn = F.fns[ct]
    if not any(t["callee"].endswith("Iterator::next") for _, t in mir.calls(fn)):
        r.fail("check_threshold: fold", "neither a fold nor a loop over the objectives", F.loc(ct))
        return
    for length in (0, 1, 2):
        state = {"i": 0}

        def nxt(i_, a, h, rl, state=state, length=length):
            state["i"] += 1
            if state["i"] <= length:
                return oe.some(("tuple", [oe.sym(f"idx{state['i']}"), oe.sym(f"values{state['i']}")]))
            return oe.NONE
        cvn = {"i": 0}

        def cv(i_, a, h, rl, cvn=cvn):
            cvn["i"] += 1
            return oe.sym(f"cv{cvn['i']}")
        it = oe.Interp(F, ct, {1: oe.ref(oe.sym("self")), 2: oe.sym("values")}, fresh=True, heap={("self", "threshold"): oe.sym("threshold")}, max_steps=4000,
                       call_models={"Iterator::next": nxt, "statistics::get_cv": cv, "statistics::get_cv_safe": cv})
        orig_run = it._run

        def run(choices, orig_run=orig_run, state=state, cvn=cvn):
            state["i"] = 0
            cvn["i"] = 0
            return orig_run(choices)
        it._run = run
        try:
            paths = it.explore(max_paths=200)
        except oe.Undecided as e:
            r.ok("check_threshold: form", f"not decided: the loop form is not evaluable over the finite orderings ({e})")
            return
        for p in paths:
            rel = [a for a in p.assumptions if len(a) == 3 and isinstance(a[2], str) and a[2] in "LEG" and a[0] != "switch"]
            above = []
            for a, b, o in rel:
                if "threshold" in a and "threshold" not in b:
                    o = oe.rev(o)
                above.append(o == "G")
            if length == 0:
                inst = "check_threshold: initial"
                if p.ret == ("bool", True):
                    r.ok(inst, "no objective => fires")
                else:
                    r.fail(inst, f"with no objective the criterion answers {p.ret}", F.loc(ct))
                continue
            inst = f"check_threshold[{length} objective(s): " + ",".join("cv>t" if x else "cv<=t" for x in above) + "]"
            want = not any(above) and len(above) == length
            if any(above):
                want = False
            if p.ret == ("bool", want):
                r.ok(inst, "fires" if want else "blocked by an objective above the threshold")
            else:
                r.fail(inst, f"answers {p.ret}: the variation criterion must fire exactly when EVERY objective's coefficient of variation is not above the threshold", F.loc(ct))


def v1_threshold_fold(F, r):
    ct = MV + "check_threshold"
    fn = F.fns.get(ct)
    if fn is None:
        raise AnchorError(ct)
    folds = [(bi, t) for bi, t in mir.calls(fn) if t["callee"].split("::")[-1] in ("try_fold", "fold", "all", "any")]
    if not folds:
        _v1_loop_form(F, r, ct)
        return
    bi, t = folds[-1]
    last = t["callee"].split("::")[-1]
    if last == "any":
        r.fail("check_threshold: quantifier", "the criterion fires when ANY objective is below the threshold (documented: every objective)", F.loc(ct, t["ln"]))
        return
    # the per-objective closure: the one calling get_cv
    cls = [c for c in F.children.get(ct, []) if any(tt["callee"].endswith("statistics::get_cv") or tt["callee"].endswith("statistics::get_cv_safe") for _, tt in mir.calls(F.fns[c]))]
    if len(cls) != 1:
        raise AnchorError(f"check_threshold: {len(cls)} closures compute the coefficient of variation")
    c = cls[0]
    cfn = F.fns[c]
    if last in ("try_fold", "fold"):
        init = t["args"][1]
        if mir.is_const(init) and init["c"] == "true":
            r.ok("check_threshold: initial", "starts from true (no objective => fires)")
        else:
            r.fail("check_threshold: initial", "the fold over objectives does not start from `true`", F.loc(ct, t["ln"]))
    ups = [u[0] for u in cfn.get("upvars", [])]
    env = {1: oe.ref(("closure", c, [oe.ref(oe.sym("self")) for _ in ups])), 2: ("bool", True), 3: oe.sym("item")}
    it = oe.Interp(F, c, env, fresh=True, heap={("self", "threshold"): oe.sym("threshold")})
    n = 0
    for p in it.explore():
        rel = [a for a in p.assumptions if len(a) == 3 and isinstance(a[2], str) and a[2] in "LEG" and a[0] != "switch"]
        if not rel:
            r.fail("check_threshold: comparison", f"no comparison of the coefficient of variation with the threshold (returns {p.ret})", F.loc(c))
            continue
        a, b, o = rel[0]
        if "threshold" in a and "threshold" not in b:
            o = oe.rev(o)
        n += 1
        inst = f"check_threshold[cv {'<=>'['LEG'.index(o)]} threshold]"
        ret = p.ret
        cont = ret and ret[0] == "cf" and ret[1] == "Continue" and ret[2] == ("bool", True)
        brk = ret and ret[0] == "cf" and ret[1] == "Break" and ret[2] == ("bool", False)
        plain = ret and ret[0] == "bool"
        if o == "G":
            if brk or (plain and ret[1] is False):
                r.ok(inst, "an objective above the threshold blocks termination")
            else:
                r.fail(inst, f"an objective whose variation is ABOVE the threshold does not block termination (returns {ret})", F.loc(c))
        else:
            if cont or (plain and ret[1] is True):
                r.ok(inst, "continues with the next objective")
            else:
                r.fail(inst, f"an objective whose variation is not above the threshold blocks termination (returns {ret})", F.loc(c))
    if n < 3:
        r.fail("check_threshold: coverage", f"only {n} orderings explored", F.loc(c))


def v2_phase_gating(F, r):
    ms = [m for m in F.trait_impl_methods(TERM + "::is_termination") if "MinVariation" in F.fns[m]["impl_self"]]
    if len(ms) != 1:
        raise AnchorError("MinVariation::is_termination")
    m = ms[0]
    # the window is maintained in EVERY generation that has a best individual, whatever the phase: update_and_check is passed on every such path
    mfn = F.fns[m]
    upd = [bi for bi, t in mir.calls(mfn) if t["callee"].endswith("::update_and_check")]
    nxt = [bi for bi, t in mir.calls(mfn) if t["callee"].endswith("Iterator::next")]
    if not upd:
        r.fail("is_termination: window", "the fitness window is no longer updated from is_termination", F.loc(m))
    elif len(nxt) == 1:
        some_edge = mir.variant_edge(mir.option_edges(mfn, nxt[0]), 1)
        if some_edge is None:
            # the option is bound to a variable first and matched later: look for the switch on the discriminant of (a copy of) the call's result
            d = mfn["bbs"][nxt[0]]["t"]["dest"]["l"]
            copies = {d}
            for _ in range(3):
                for _, _, st in mir.stmts(mfn):
                    if st["r"]["k"] == "use" and mir.is_place(st["r"]["o"][0]) and st["r"]["o"][0]["l"] in copies and not st["r"]["o"][0]["p"] and not st["d"]["p"]:
                        copies.add(st["d"]["l"])
            for sb, bb in enumerate(mfn["bbs"]):
                tt = bb["t"]
                if tt["k"] == "switch" and mir.is_place(tt["o"]):
                    for st in bb["s"]:
                        if st["r"]["k"] == "discr" and st["d"]["l"] == tt["o"]["l"] and st["r"]["o"][0]["l"] in copies and not st["r"]["o"][0]["p"]:
                            tgt = [tb for v, tb in tt["tg"] if v == 1]
                            some_edge = (sb, tgt[0] if tgt else tt["else"])
        if some_edge is None:
            r.ok("is_termination: window", "not decided: the best individual is not matched as an Option")
        else:
            seen = mir.reach(mfn, [some_edge[1]], blocked=set(upd) | {some_edge[0]})
            if seen & set(mir.ret_blocks(mfn)):
                r.fail("is_termination: window", "with a best individual present a path returns without update_and_check: the fitness window is not maintained in that generation (e.g. outside the "
                       "exploitation phase), so after a phase switch the criterion looks at stale / never written rows", F.loc(m, mfn["bbs"][upd[0]]["t"]["ln"]))
            else:
                r.ok("is_termination: window", "update_and_check is passed on every path that has a best individual (the window is maintained in every phase)")
    ph = F.adts.get("rosomaxa::population::SelectionPhase")
    if ph is None:
        raise AnchorError("SelectionPhase")
    vi = {v["n"]: i for i, v in enumerate(ph["v"])}

    def model_phase(idx):
        return lambda interp, args, heap, rel: ("agg", "rosomaxa::population::SelectionPhase#" + list(vi)[idx], {})
    for is_global in (True, False):
        for pname, pidx in vi.items():
            it = oe.Interp(F, m, {1: oe.ref(oe.sym("self")), 2: oe.ref(oe.sym("ctx"))}, heap={("self", "is_global"): ("bool", is_global)}, fresh=True, enum_results=True,
                           call_models={"::selection_phase": model_phase(pidx), "::update_and_check": (lambda interp, args, heap, rel: oe.sym("result")),
                                        "Iterator::next": (lambda interp, args, heap, rel: oe.some(oe.ref(oe.sym("first"))))})
            for p in it.explore():
                want_result = is_global or pname == "Exploitation"
                inst = f"is_termination[is_global={is_global},phase={pname}]"
                got_result = p.ret == oe.sym("result")
                if want_result and got_result:
                    r.ok(inst, "reports the variation verdict")
                elif not want_result and p.ret == ("bool", False):
                    r.ok(inst, "local criterion is silent outside exploitation")
                else:
                    r.fail(inst, f"variation criterion {'is silenced' if want_result else 'fires'} in this configuration (returns {p.ret}): local criteria must only fire in the exploitation phase, global ones always", F.loc(m))


# ---- E-S rules: sign / constant-set abstract interpretation -------------------------------------------------------------
SM = "rosomaxa::algorithms::rl::slot_machine::SlotMachine"
SM_INV = {"alpha": signs.POS, "beta": signs.POS, "v": signs.NONNEG, "n": signs.NONNEG}
SM_DOC = {"alpha": "gamma shape > 0", "beta": "gamma rate > 0", "v": "variance >= 0", "n": "usage count >= 0"}


def _engine(F):
    inv = {(SM, f): signs.num(s_) for f, s_ in SM_INV.items()}
    # assumption: a gamma variate is >= 0 (support of the distribution); a normal variate is any real
    return signs.Engine(F, inv, {"DistributionSampler::gamma": lambda e, a, vn: signs.num(signs.NONNEG, None, vn)})


def _show(S):
    return "{" + ",".join(x for x in "-0+" if x in S) + "}"


def s1_slot_machine_invariants(F, r):
    if SM not in F.adts:
        raise AnchorError(SM)
    fields = {f["n"] for f in F.adts[SM]["v"][0]["f"]}
    for f in SM_INV:
        if f not in fields:
            raise AnchorError(f"SlotMachine.{f}")
    for f in F.adts[SM]["v"][0]["f"]:
        if f["n"] in SM_INV:
            if f.get("vis", "").startswith("in:rosomaxa::algorithms::rl::slot_machine"):
                r.ok(f"SlotMachine.{f['n']}: visibility", "private to the module: the writers found in the workspace are all writers")
            else:
                r.fail(f"SlotMachine.{f['n']}: visibility", f"field is `{f.get('vis')}`: code outside the module (or outside the workspace) can break the invariant", F.adts[SM].get("span"))
    E = _engine(F)
    writers = set()
    builders = set()
    for fid, fn in F.fns.items():
        if "::promoted[" in fid:
            continue
        for bi, si, st in mir.stmts(fn):
            pf = mir.proj_fields(st["d"])
            if pf and pf[-1][0] == SM and pf[-1][1] in SM_INV:
                writers.add(fid)
            if st["r"]["k"] == "agg" and st["r"].get("n", "").startswith(SM + "#"):
                builders.add(fid)
        for bi, t in mir.calls(fn):
            pf = mir.proj_fields(t["dest"])
            if pf and pf[-1][0] == SM and pf[-1][1] in SM_INV:
                writers.add(fid)
    if not builders or not writers:
        raise AnchorError(f"SlotMachine: {len(builders)} constructors, {len(writers)} writers")
    for fid in sorted(builders | writers):
        a = E.analyse(fid)
        name = util.short_fn(fid)
        for (adt, fld), v, ln in a.stores:
            if adt != SM or fld not in SM_INV:
                continue
            S = signs.as_num(v)[1]
            if S <= SM_INV[fld]:
                r.ok(f"{name}: {fld} :=", f"{_show(S)} within {_show(SM_INV[fld])} ({SM_DOC[fld]}) assuming the invariant before the update")
            else:
                r.fail(f"{name}: {fld} :=", f"the value stored to SlotMachine.{fld} can have sign {_show(S)}; the learning state needs {SM_DOC[fld]} "
                       "(a non-positive gamma parameter aborts the solve inside the distribution sampler)", F.loc(fid, ln))
        for nm, fs, vals, ln in a.aggs:
            if not nm.startswith(SM + "#"):
                continue
            for fld, v in zip(fs, vals):
                if fld not in SM_INV:
                    continue
                S = signs.as_num(v)[1]
                if S <= SM_INV[fld]:
                    r.ok(f"{name}: new.{fld}", f"{signs.show(v)}")
                else:
                    r.fail(f"{name}: new.{fld}", f"SlotMachine is constructed with {fld} of sign {_show(S)}; needs {SM_DOC[fld]}", F.loc(fid, ln))
        for h in a.hazards:
            r.fail(f"{name}: {h.kind}", f"{h.detail} while updating the learning state", F.loc(fid, h.ln))


def s2_sampler_arguments(F, r):
    E = _engine(F)
    n = 0
    for fid, fn in sorted(F.fns.items()):
        if "::promoted[" in fid or not F.fns.get(F.root_of(fid), fn)["module"].startswith("rosomaxa::algorithms::rl"):
            continue
        if not any(t["callee"].endswith(("DistributionSampler::gamma", "DistributionSampler::normal")) for _, t in mir.calls(fn)):
            continue
        a = E.analyse(fid)
        name = util.short_fn(fid)
        for callee, args, ln in a.calls:
            if callee.endswith("DistributionSampler::gamma"):
                n += 1
                for k, what in ((1, "shape"), (2, "scale")):
                    S = signs.as_num(args[k])[1]
                    if S == signs.POS:
                        r.ok(f"{name}: gamma {what}", "> 0")
                    else:
                        r.fail(f"{name}: gamma {what}", f"gamma {what} can have sign {_show(S)}: Gamma::new rejects it and the sampler panics", F.loc(fid, ln))
            elif callee.endswith("DistributionSampler::normal"):
                n += 1
                S = signs.as_num(args[2])[1]
                if S <= signs.NONNEG:
                    r.ok(f"{name}: normal std", _show(S))
                else:
                    r.fail(f"{name}: normal std", f"standard deviation can have sign {_show(S)} (zero-precision guard missing?): Normal::new rejects it and the sampler panics", F.loc(fid, ln))
        for h in a.hazards:
            r.fail(f"{name}: {h.kind}", h.detail + " on the sampling path", F.loc(fid, h.ln))
    if n < 2:
        raise AnchorError(f"only {n} distribution sampler calls found")


DS = "rosomaxa::hyper::dynamic_selective::"


def s3_reward_range(F, r):
    E = _engine(F)
    dr, pm = DS + "estimate_distance_reward", DS + "estimate_reward_perf_multiplier"
    for f in (dr, pm):
        if f not in F.fns:
            raise AnchorError(f)
    a = E.analyse(dr)
    S = signs.as_num(a.ret)[1] if a.ret else signs.TOP
    if S <= signs.NONNEG:
        r.ok("estimate_distance_reward", f"result {_show(S)}: never negative (documented range [0, 6])")
    else:
        r.fail("estimate_distance_reward", f"the distance reward can have sign {_show(S)}; documented range is [0, 6] (a negative reward breaks the reward scale of the learner)", F.loc(dr))
    a = E.analyse(pm)
    v = signs.as_num(a.ret) if a.ret else signs.num(signs.TOP)
    if v[2] is not None and all(0.5 <= c <= 3.0 for c in v[2]):
        r.ok("estimate_reward_perf_multiplier", f"result in {sorted(v[2])}: within the documented (~0.5, 3]")
    elif v[2] is None and v[1] == signs.POS:
        r.ok("estimate_reward_perf_multiplier", "positive (not a finite constant set any more: range not decided)")
    else:
        bad = sorted(c for c in (v[2] or []) if not 0.5 <= c <= 3.0)
        r.fail("estimate_reward_perf_multiplier", f"the performance multiplier can be {bad or _show(v[1])}: outside the documented (~0.5, 3]", F.loc(pm))
    takes = [m for m in F.trait_impl_methods("rosomaxa::algorithms::rl::slot_machine::SlotAction::take") if m.startswith("<" + DS)]
    if not takes:
        raise AnchorError("SearchAgent::take")
    for m in takes:
        a = E.analyse(m)
        hit = False
        for nm, fs, vals, ln in a.aggs:
            if nm.endswith("SearchSample#SearchSample") and "reward" in fs:
                hit = True
                S = signs.as_num(vals[fs.index("reward")])[1]
                if S <= signs.NONNEG:
                    r.ok(f"{util.short_fn(m)}: reward", f"{_show(S)} (distance reward x performance multiplier)")
                else:
                    r.fail(f"{util.short_fn(m)}: reward", f"the reward fed to the learner can have sign {_show(S)}", F.loc(m, ln))
        if not hit:
            raise AnchorError("SearchAgent::take: no SearchSample construction")


def a1_argmax_comparator(F, r):
    ra = "rosomaxa::utils::random::random_argmax"
    if ra not in F.fns:
        raise AnchorError(ra)
    cls = [c for c in F.children.get(ra, []) if any(t["callee"].endswith("total_cmp") for _, t in mir.calls(F.fns[c]))]
    if len(cls) != 1:
        raise AnchorError(f"random_argmax: {len(cls)} comparator closures")
    c = cls[0]
    fn = F.fns[c]
    ups = fn.get("upvars", [])
    it = oe.Interp(F, c, {1: oe.ref(("closure", c, [oe.sym("u%d" % i) for i in range(len(ups))])), 2: oe.ref(oe.sym("a")), 3: oe.ref(oe.sym("b"))}, fresh=True, enum_results=True)
    n = 0
    for p in it.explore():
        rel = [x for x in p.assumptions if len(x) == 3 and isinstance(x[2], str) and x[2] in "LEG" and x[0] != "switch"]
        if not rel:
            continue
        o = rel[0][2]
        if rel[0][0].startswith("b"):
            o = oe.rev(o)
        n += 1
        inst = f"random_argmax[a {'<=>'['LEG'.index(o)]} b]"
        if o == "E":
            r.ok(inst, "tie: random choice")
        elif p.ret == ("ord", o):
            r.ok(inst, f"comparator answers {p.ret[1]}")
        else:
            r.fail(inst, f"the arg-max comparator answers {p.ret} for a {'<=>'['LEG'.index(o)]} b: the selected operator is not one with the maximal sample", F.loc(c))
    if n < 3:
        r.fail("random_argmax: coverage", f"only {n} orderings explored", F.loc(c))
    mx = [t for _, t in mir.calls(F.fns[ra]) if t["callee"].endswith("Iterator::max_by")]
    if mx:
        r.ok("random_argmax: selection", "Iterator::max_by over the enumerated samples; the index of the maximum is returned")
    else:
        r.fail("random_argmax: selection", "the maximum is no longer selected with max_by", F.loc(ra))


ST = "rosomaxa::algorithms::math::statistics::"


def _b(e, op):
    rt = e[0]
    if rt[0] == "bin" and rt[1] == op and not e[1]:
        return rt[2], rt[3]
    return None


def _c(e, suffix):
    return e[0][0] == "call" and e[0][1].endswith(suffix)


def m1_statistics_formulas(F, r):
    """the coefficient of variation the criterion compares with its threshold is stdev / mean of the window: mean = sum / n, variance = (Σdev² - (Σdev)²/n) / n (population
    variance with the compensated sum), cv = sqrt(variance) / mean and 0 for a zero mean — canonical expressions"""
    for f in ("get_cv", "get_variance_mean", "get_mean_slice"):
        if ST + f not in F.fns:
            raise AnchorError(ST + f)
    # the formulas are recognised in their iterator form (sum / fold); an explicit-loop rewrite makes the accumulators opaque: then nothing is decided
    has_fold = any(t["callee"].endswith("Iterator::fold") for _, t in mir.calls(F.fns[ST + "get_variance_mean"]))
    has_sum = any(t["callee"].endswith("Iterator::sum") for _, t in mir.calls(F.fns[ST + "get_mean_slice"]))
    if not has_fold or not has_sum:
        r.ok("statistics helpers", "not decided: mean / variance are not written with Iterator::sum / Iterator::fold (loop form), their accumulators are not canonical expressions")
        return

    def rets(fid):
        fn = F.fns[fid]
        out = []
        for _, _, st in mir.stmts(fn):
            if st["d"]["l"] == 0 and not st["d"]["p"]:
                if st["r"]["k"] == "use":
                    out.append(mir.expr(fn, st["r"]["o"][0]))
                elif st["r"]["k"] == "bin":
                    out.append((("bin", st["r"]["op"], mir.expr(fn, st["r"]["o"][0]), mir.expr(fn, st["r"]["o"][1])), ()))
                elif st["r"]["k"] == "agg":
                    out.append((("agg", "", tuple(mir.expr(fn, o) for o in st["r"]["o"])), ()))
        return out
    # cv
    rs = rets(ST + "get_cv")
    zero = [e for e in rs if e[0] == ("const", "0f64")]
    div = [e for e in rs if _b(e, "Div")]
    ok = False
    if len(div) == 1 and zero:
        num, den = _b(div[0], "Div")
        ok = _c(num, "f64>::sqrt") and num[0][2][0][0][0] == "call" and num[0][2][0][0][1].endswith("get_variance_mean") and num[0][2][0][1] == (".0",) \
            and _c(den, "get_variance_mean") and den[1] == (".1",)
    cfn = F.fns[ST + "get_cv"]
    guards = [st for _, _, st in mir.stmts(cfn) if st["r"]["k"] == "bin" and st["r"]["op"] in ("Eq", "Ne", "Lt", "Le", "Gt", "Ge")]
    calls_g = [t for _, t in mir.calls(cfn) if t["callee"].split("::")[-1] in ("abs", "lt", "le", "gt", "ge", "total_cmp", "partial_cmp")]
    exact = len(guards) == 1 and guards[0]["r"]["op"] in ("Eq", "Ne") and any(mir.is_const(o) and str(o["c"]).startswith("0") for o in guards[0]["r"]["o"]) and not calls_g
    if ok and not exact:
        r.fail("get_cv: zero-mean guard", "the `mean is zero` guard is not the exact test `mean == 0.` (a tolerance / magnitude test): a series with a tiny but non-zero mean and a large relative "
               "variation is reported with cv = 0, so the variation criterion fires although the coefficient of variation is above the threshold", F.loc(ST + "get_cv", guards[0].get("ln") if guards else None))
    if ok:
        r.ok("get_cv", "sqrt(variance) / mean; 0 when the mean is 0")
    else:
        r.fail("get_cv", "the coefficient of variation is not `sqrt(variance) / mean` (with 0 for a zero mean): the variation criterion compares another quantity with its threshold", F.loc(ST + "get_cv"))
    # mean
    rs = rets(ST + "get_mean_slice")
    div = [e for e in rs if _b(e, "Div")]
    ok = False
    if len(div) == 1:
        num, den = _b(div[0], "Div")
        ok = _c(num, "Iterator::sum") and den[0][0] == "cast" and _c(den[0][2], "::len")
    if ok:
        r.ok("get_mean_slice", "sum / len")
    else:
        r.fail("get_mean_slice", "the mean is not `sum of the values / number of values`", F.loc(ST + "get_mean_slice"))
    # variance
    rs = [e for e in rets(ST + "get_variance_mean") if e[0][0] == "agg" and len(e[0][2]) == 2]
    ok = False
    if len(rs) == 1:
        var, mean = rs[0][0][2]
        d1 = _b(var, "Div")
        if d1 and d1[1][0][0] == "cast" and _c(d1[1][0][2], "::len") and _c(mean, "get_mean_slice"):
            sb = _b(d1[0], "Sub")
            if sb and _c(sb[0], "Iterator::fold") and sb[0][1] == (".0",):
                d2 = _b(sb[1], "Div")
                if d2 and d2[1][0][0] == "cast" and _c(d2[1][0][2], "::len"):
                    mu = _b(d2[0], "Mul")
                    ok = bool(mu) and mu[0] == mu[1] and _c(mu[0], "Iterator::fold") and mu[0][1] == (".1",)
    if ok:
        r.ok("get_variance_mean: result", "(Σdev² - (Σdev)²/n) / n")
    else:
        r.fail("get_variance_mean: result", "the variance is not `(Σdev² - (Σdev)²/n) / n` over the window (population variance, no Bessel correction as documented)", F.loc(ST + "get_variance_mean"))
    cl = F.children.get(ST + "get_variance_mean", [])
    ok = False
    if len(cl) == 1:
        cfn = F.fns[cl[0]]
        e = mir.expr(cfn, {"l": 0, "p": []})
        if e[0][0] == "agg" and len(e[0][2]) == 2:
            a0, a1 = e[0][2]
            x0, x1 = _b(a0, "Add"), _b(a1, "Add")
            if x0 and x1 and x0[0] == (("arg", 2), (".0",)) and x1[0] == (("arg", 2), (".1",)):
                sq = _b(x0[1], "Mul")
                ok = bool(sq) and sq[0] == sq[1] == x1[1] and _c(sq[0], "arith::Sub::sub") and sq[0][0][2][0] == (("arg", 3), ())
    if ok:
        r.ok("get_variance_mean: accumulation", "(Σ += dev², Σ += dev) with dev = value - mean")
    else:
        r.fail("get_variance_mean: accumulation", "the accumulation step is not (acc.0 + dev*dev, acc.1 + dev) with dev = value - mean", F.loc(ST + "get_variance_mean"))


def s4_relative_distance_bounded(F, r):
    """rewards stay within their documented range because the relative distance of two fitness values is bounded by 1: |a - b| / max(|a|, |b|) — normalised by the LARGER
    magnitude of the very two values that are subtracted (canonical expression of the distance closure). Normalising by one side only is unbounded for a zero / small reference."""
    root = DS + "get_relative_distance"
    if root not in F.fns:
        raise AnchorError(root)
    cands = [g for g in F.family(root) if any(s_["r"]["k"] == "bin" and s_["r"].get("op") == "Div" and s_["r"].get("ty") in ("f64", "f32") for _, _, s_ in mir.stmts(F.fns[g]))]
    if len(cands) != 1:
        r.ok("get_relative_distance: normalisation", f"not decided: {len(cands)} bodies with a float division")
        return
    g = cands[0]
    fn = F.fns[g]
    divs = [s_ for _, _, s_ in mir.stmts(fn) if s_["r"]["k"] == "bin" and s_["r"].get("op") == "Div" and s_["r"].get("ty") in ("f64", "f32")]
    if len(divs) != 1:
        r.ok("get_relative_distance: normalisation", "not decided: several divisions")
        return
    st = divs[0]
    num_, den = mir.expr(fn, st["r"]["o"][0]), mir.expr(fn, st["r"]["o"][1])

    def is_call(e, suffix):
        return e[0][0] == "call" and e[0][1].endswith(suffix) and not e[1]
    ok_num = is_call(num_, "<impl f64>::abs") and num_[0][2][0][0][0] == "bin" and num_[0][2][0][0][1] == "Sub"
    if not ok_num:
        r.ok("get_relative_distance: normalisation", "not decided: the numerator is not |a - b|")
        return
    a, b = num_[0][2][0][0][2], num_[0][2][0][0][3]
    want = {("abs", a), ("abs", b)}
    got = set()
    if is_call(den, "<impl f64>::max"):
        for x in den[0][2]:
            if is_call(x, "<impl f64>::abs"):
                got.add(("abs", x[0][2][0]))
            else:
                got.add(("other", x))
    if got == want:
        r.ok("get_relative_distance: normalisation", "|a - b| / max(|a|, |b|): bounded by 1 (2 for opposite signs)")
    else:
        r.fail("get_relative_distance: normalisation", "the distance |a - b| is not divided by max(|a|, |b|) of the same two values: normalised by one side (or a constant) it is unbounded "
               "when the reference fitness is zero / small / negative — rewards leave their documented range and corrupt the learner's statistics", F.loc(g, st.get("ln")))


def v3_window_per_generation(F, r):
    """the variation criterion looks at the fitness of the last `sample` GENERATIONS: the sample window is addressed by the generation counter, so several polls within one
    generation (the simulator polls once per initial solution) overwrite one slot instead of filling the window with copies of the same fitness"""
    ms = [i for i in F.fns if i.startswith("rosomaxa::termination::min_variation::MinVariation") and i.endswith("::update_and_check")]
    if len(ms) != 1:
        raise AnchorError(f"MinVariation::update_and_check resolves to {ms}")
    reads = False
    for g in F.family(ms[0]):
        for p_ in util.all_places(F.fns[g]):
            if any(f == "generation" for _, f in mir.proj_fields(p_)):
                reads = True
    if reads:
        r.ok("MinVariation::update_and_check: window", "the sample window is driven by statistics().generation")
    else:
        r.fail("MinVariation::update_and_check: window", "the sample window no longer depends on the generation counter (it counts polls): polled several times within one generation it "
               "fills with copies of one fitness and the criterion fires before `sample` generations have passed", F.loc(ms[0]))


def run(ctx):
    ctx.explanation = (
        "Decided for every reward history, under real-number semantics (NaN / overflow / underflow NOT modelled): (S1) sign abstract interpretation shows the "
        "SlotMachine invariant alpha>0, beta>0, v>=0, n>=0 is established by every constructor and preserved by every function that writes these fields (writers are "
        "discovered, not listed); (S2) every gamma call receives shape>0 and scale>0 and every normal call std>=0, with edge refinement of the zero-precision guard, and "
        "no division by a possibly-zero value on those paths; (S3) the distance reward is >=0, the performance multiplier evaluates to a finite constant set inside "
        "(~0.5,3], the reward handed to the learner is >=0; (A1) the arg-max comparator answers the true order (finite-ordering evaluation); every "
        "Termination::estimate is a literal in [0,1], clamped or a max of members (T1); the variation criterion folds over ALL objectives from `true`, an objective "
        "above the threshold blocks it (V1), and its verdict is reported iff global or exploitation phase (V2).")
    ctx.explanation += ' The relative fitness distance is |a - b| / max(|a|, |b|) over the same two values (S4, canonical expression); the sample window of the variation criterion is addressed by the generation counter (V3).'
    ctx.not_decided = ("finiteness of the learning state (NaN/inf through overflow or a non-finite reward), mean within the hull of seen rewards, the upper bound 6 of the "
                       "distance reward (relational), weighted sampling, the value of the coefficient of variation and the window bookkeeping.")
    ctx.assumptions += ["a gamma variate is >= 0", "rewards are finite reals", "float rounding, overflow and underflow are outside the sign domain"]
    ctx.run("C07-T1", "termination estimates stay within [0,1] by construction", c07.t1_estimates_clamped, floor=5)
    ctx.run("C18-V1", "variation criterion: universal fold over objectives with the documented per-objective step", v1_threshold_fold, floor=1)
    ctx.run("C18-M1", "coefficient of variation = sqrt(population variance) / mean (canonical expressions of the statistics helpers)", m1_statistics_formulas, floor=1)
    ctx.run("C18-V2", "variation verdict reported iff global or exploitation phase", v2_phase_gating, floor=6)
    ctx.run("C18-S1", "SlotMachine learning state: shape > 0, rate > 0, variance >= 0 hold at construction and are preserved by every writer (sign analysis)", s1_slot_machine_invariants, floor=8)
    ctx.run("C18-S2", "distribution sampler arguments: gamma shape/scale > 0, normal std >= 0, no division by a possibly-zero value on the sampling path", s2_sampler_arguments, floor=3)
    ctx.run("C18-S3", "rewards: distance reward >= 0, performance multiplier within its documented constant set, product >= 0", s3_reward_range, floor=3)
    ctx.run("C18-S4", "relative fitness distance is |a - b| / max(|a|, |b|) (bounded), canonical expression", s4_relative_distance_bounded, floor=1)
    ctx.run("C18-V3", "variation window is addressed by the generation counter", v3_window_per_generation, floor=1)
    ctx.run("C18-A1", "arg-max selection compares samples with their true order (ties random)", a1_argmax_comparator, floor=4)
