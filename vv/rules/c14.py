"""C14 — tours and the vehicle registry stay well-formed: encapsulation, paired mutation, independent copies."""
from .. import adt, cg, mir, util
from ..facts import AnchorError

TOUR_ADT = "vrp_core::models::solution::tour::Tour"
TOUR = TOUR_ADT + "::"
REG_ADT = "vrp_core::models::solution::registry::Registry"
REGCTX_ADT = "vrp_core::construction::heuristics::context::RegistryContext"
ACTIVITY = "vrp_core::models::solution::route::Activity"
GROW = ("push", "insert", "extend", "append", "extend_from_slice", "push_back", "push_front")
SHRINK = ("remove", "retain", "retain_mut", "drain", "truncate", "clear", "pop", "swap_remove", "split_off", "dedup", "dedup_by", "dedup_by_key", "take")
SET_GROW = ("insert", "extend", "replace")
SET_SHRINK = ("remove", "retain", "clear", "drain", "take")
ARC_MUT_ALLOWED = {
    "vrp_core::models::problem::jobs::Multi::bind": "links sub-jobs to the freshly created Multi inside Arc::new_cyclic before anything else can hold the Arc",
}


def e1_privacy(F, r):
    for a, fields in ((TOUR_ADT, ("activities", "jobs", "is_closed")), (REG_ADT, ("available", "index", "all")), (REGCTX_ADT, ("registry", "index"))):
        ad = F.adts.get(a)
        if ad is None:
            raise AnchorError(a)
        have = {f["n"]: f for f in ad["v"][0]["f"]}
        for fn_ in fields:
            f = have.get(fn_)
            inst = f"{a.split('::')[-1]}.{fn_}"
            if f is None:
                r.fail(inst, "field no longer exists (representation changed: re-confirm the invariants)", ad["span"])
            elif f["vis"].startswith("in:"):
                r.ok(inst, "private")
            else:
                r.fail(inst, f"field is `{f['vis']}`: the activities/jobs (or available/index) pairing can be broken from outside the module", ad["span"])


def _field_ops(F, fid, field, adt_id):
    """calls in fid taking &mut self.<field> as receiver -> [(bi, name, term)]"""
    fn = F.fns[fid]
    out = []
    for bi, t in mir.calls(fn):
        if not t["args"] or not t["callee"] or not t["argtys"] or not t["argtys"][0].startswith(("&mut alloc::vec::Vec<", "&mut [", "&mut std::collections::hash::")):
            continue
        roots = mir.trace(fn, t["args"][0])
        if any(k == "arg" and v == 1 and p[:1] == (field,) for k, v, p in roots):
            out.append((bi, t["callee"].split("::")[-1], t))
    return out


def e2_paired_mutation(F, r):
    meths = [i for i, f in F.fns.items() if f["kind"] == "AssocFn" and f["impl_self"] == TOUR_ADT and "::promoted[" not in i]
    if len(meths) < 20:
        raise AnchorError("Tour methods")
    n = 0
    for m in meths:
        fn = F.fns[m]
        # closures inside methods that touch the fields are rare; the receiver trace covers the method body
        a_ops = _field_ops(F, m, "activities", TOUR_ADT)
        j_ops = _field_ops(F, m, "jobs", TOUR_ADT)
        a_grow = [b for b, n_, t in a_ops if n_ in GROW]
        a_shr = [b for b, n_, t in a_ops if n_ in SHRINK]
        j_grow = [b for b, n_, t in j_ops if n_ in SET_GROW]
        j_shr = [b for b, n_, t in j_ops if n_ in SET_SHRINK]
        other = [n_ for b, n_, t in a_ops if n_ not in GROW + SHRINK and n_ not in ("iter_mut", "get_mut", "deref_mut", "index_mut", "as_mut_slice", "first_mut", "last_mut", "swap", "sort_by", "reverse")]
        name = util.short_fn(m)
        for o in other:
            r.fail(f"{name}:{o}", f"unclassified mutation `{o}` of Tour.activities", F.loc(m))
        if not (a_grow or a_shr or j_grow or j_shr):
            continue
        n += 1
        rets = set(mir.ret_blocks(fn))

        def paired(sites, partners):
            for b in sites:
                before = not (b in mir.reach(fn, [0], blocked=partners))
                after = not (rets & mir.reach_from_succs(fn, b, blocked=partners))
                if not (before or after or b in partners):
                    return False
            return True
        if a_grow:
            if j_grow and paired(a_grow, j_grow):
                r.ok(f"{name}: grow", "activities insertion paired with jobs.insert on every path")
            else:
                # depot activities carry no job: must be asserted
                asserts_none = any(t["callee"].endswith("Option::<T>::is_none") and any(k == "arg" and p[-1:] == ("job",) for k, v, p in mir.trace(fn, t["args"][0])) for _, t in mir.calls(fn))
                panics = any(t["callee"].startswith("core::panicking::") for _, t in mir.calls(fn))
                if asserts_none and panics:
                    r.ok(f"{name}: grow", "adds a depot activity, asserts `activity.job.is_none()`")
                else:
                    r.fail(f"{name}: grow", "adds an activity without adding its job to `jobs` (and without asserting it has no job): job set and activities desynchronise", F.loc(m))
        if a_shr:
            # job-wise removal: dropping a job from the job set must remove ALL its activities (retain(!has_same_job)), a positional removal
            # (remove(idx) / pop / truncate / drain) only removes one activity of a multi-activity job
            positional = [(b, n_) for b, n_, t in a_ops if n_ in SHRINK and n_ not in ("retain", "retain_mut")]
            retains_ok = False
            for b, n_, t in a_ops:
                if n_ in ("retain", "retain_mut") and len(t["args"]) > 1:
                    for k, v, p in mir.trace(fn, t["args"][1]):
                        if k == "agg":
                            cid = fn["bbs"][v[0]]["s"][v[1]]["r"].get("n")
                            cf_ = F.fns.get(cid)
                            if cf_ and any(tt["callee"].endswith("Activity::has_same_job") for _, tt in mir.calls(cf_)):
                                retains_ok = True
            if j_shr and positional and not retains_ok:
                r.fail(f"{name}: shrink", f"a job is dropped from the job set while activities are removed by position (`{positional[0][1]}`): the other activities of a multi-activity "
                                          "job stay in the tour as orphans (job set and activities disagree)", F.loc(m))
            elif j_shr and paired(a_shr, j_shr):
                r.ok(f"{name}: shrink", "activities removal paired with jobs.remove on every path")
            else:
                r.fail(f"{name}: shrink", "removes activities without removing the job from `jobs`: tour claims to contain a job it does not serve", F.loc(m))
        if (j_grow and not a_grow) or (j_shr and not a_shr):
            r.fail(f"{name}: jobs-only", "mutates `jobs` without the matching change of `activities`", F.loc(m))
    if n < 4:
        raise AnchorError(f"only {n} mutating Tour methods found")


def e3_job_identity(F, r):
    n = 0
    for fid, fn in F.fns.items():
        for bi, si, s in mir.stmts(fn):
            pf = mir.proj_fields(s["d"])
            if any(p == (ACTIVITY, "job") for p in pf) and s["d"]["p"] and s["d"]["p"][0] == "*" or (pf and pf[-1] == (ACTIVITY, "job") and len(pf) > 1):
                r.fail(f"{util.short_fn(F.root_of(fid))}: activity.job=", "Activity.job assigned after construction: the tour's job set no longer matches its activities", F.loc(fid, s["ln"]))
            rv = s["r"]
            if rv["k"] in ("ref", "raw") and rv.get("mut"):
                pf2 = mir.proj_fields(rv["o"][0])
                if any(p == (ACTIVITY, "job") for p in pf2) and rv["o"][0]["p"] and rv["o"][0]["p"][0] == "*":
                    r.fail(f"{util.short_fn(F.root_of(fid))}: &mut activity.job", "mutable borrow of Activity.job through a reference (take/replace would change job identity in place)", F.loc(fid, s["ln"]))
            if rv["k"] == "agg" and rv.get("n") == ACTIVITY + "#Activity":
                n += 1
    r.ok("Activity.job", f"written only in {n} struct constructions; never assigned or mutably borrowed through a reference")


def r1_registry(F, r):
    # who mutates the available sets
    set_ty = "&mut std::collections::hash::set::HashSet<alloc::sync::Arc<vrp_core::models::problem::fleet::Actor>"
    seen = {}
    for fid, fn in F.fns.items():
        root = F.root_of(fid)
        if F.fns.get(root, {}).get("module") != "vrp_core::models::solution::registry":
            continue
        for bi, t in mir.calls(fn):
            if t["argtys"] and t["argtys"][0].startswith(set_ty) and t["callee"].startswith("std::collections::hash::set::HashSet"):
                seen.setdefault(root, []).append((fid, bi, t["callee"].split("::")[-1], t))
    want = {REG_ADT + "::use_actor": "remove", REG_ADT + "::free_actor": "insert"}
    for root, ops in seen.items():
        for fid, bi, name, t in ops:
            inst = f"{util.short_fn(root)}:{name}"
            if want.get(root) == name:
                fn = F.fns[fid]
                ret_from = any(k == "call" and v == bi for k, v, p in mir.trace(fn, {"l": 0, "p": []}))
                if ret_from:
                    r.ok(inst, "result of the set operation is the function's answer")
                else:
                    r.fail(inst, "boolean result of the set operation is not returned: callers cannot tell whether the vehicle was available", F.loc(fid, t["ln"]))
            else:
                r.fail(inst, f"`available` mutated by `{name}` outside use_actor(remove)/free_actor(insert)", F.loc(fid, t["ln"]))
    for root, name in want.items():
        if root not in seen:
            r.fail(util.short_fn(root), f"does not perform `{name}` on the available set any more")
    # get_route hands out a route only on a successful use_actor
    gr = REGCTX_ADT + "::get_route"
    fn = F.fns.get(gr)
    if fn is None:
        raise AnchorError(gr)
    use_calls = [bi for bi, t in mir.calls(fn) if t["callee"] == REG_ADT + "::use_actor"]
    ok = False
    why = ""
    for bi, t in mir.calls(fn):
        if t["callee"].endswith("bool>::then") or t["callee"].endswith("bool::then") or t["callee"].split("::")[-1] in ("then", "then_some"):
            src = mir.trace(fn, t["args"][0])
            if any(k == "call" and v in use_calls for k, v, p in src):
                # the produced option must be what is returned
                leaves, crossed = mir.deep_leaves(fn, {"l": 0, "p": []})
                if t["callee"] in crossed:
                    ok = True
                    why = "route produced by bool::then on the result of use_actor"
    if not ok and use_calls:
        be = mir.bool_edges(fn, use_calls[0])
        dc = [bi for bi, t in mir.calls(fn) if t["callee"].endswith("RouteContext::deep_copy") or t["callee"].endswith("Option::<T>::map")]
        if be and dc and all(b not in mir.reach(fn, [0], blocked_edges=[be[True]]) for b in dc):
            ok = True
            why = "route copy dominated by the true edge of use_actor"
    if ok:
        r.ok("RegistryContext::get_route", why)
    else:
        r.fail("RegistryContext::get_route", "a route can be handed out without (or regardless of) a successful Registry::use_actor: the same vehicle may drive two tours", F.loc(gr))
    for meth, prim in (("use_route", "use_actor"), ("free_route", "free_actor")):
        fid = REGCTX_ADT + "::" + meth
        fn = F.fns.get(fid)
        if fn is None:
            raise AnchorError(fid)
        src = mir.trace(fn, {"l": 0, "p": []})
        if any(k == "call" and fn["bbs"][v]["t"]["callee"] == REG_ADT + "::" + prim for k, v, p in src):
            r.ok(f"RegistryContext::{meth}", f"returns Registry::{prim}")
        else:
            r.fail(f"RegistryContext::{meth}", f"does not return the result of Registry::{prim}", F.loc(fid))
    # keep_routes frees what it removes
    kr = "vrp_core::construction::heuristics::context::SolutionContext::keep_routes"
    fam = F.family(kr)
    frees = [f for f in fam if any(t["callee"] == REGCTX_ADT + "::free_route" for _, t in mir.calls(F.fns[f]))]
    if frees:
        r.ok("SolutionContext::keep_routes", "frees every removed route in the registry")
    else:
        r.fail("SolutionContext::keep_routes", "routes dropped from the solution are not returned to the registry: their vehicles stay `in use` forever", F.loc(kr))


DEEP_COPIES = ["vrp_core::models::solution::tour::Tour::deep_copy", "vrp_core::models::solution::route::Activity::deep_copy",
               "vrp_core::construction::heuristics::context::RouteContext::deep_copy", "vrp_core::construction::heuristics::context::SolutionContext::deep_copy",
               "vrp_core::construction::heuristics::context::RegistryContext::deep_copy", "vrp_core::construction::heuristics::context::RegistryContext::deep_slice",
               "vrp_core::models::solution::registry::Registry::deep_copy", "vrp_core::models::solution::registry::Registry::deep_slice"]


def d1_independent_copies(F, r):
    if not adt.controls_ok():
        r.broken("interior-mutability matcher failed its controls")
        return
    roots = [TOUR_ADT, REG_ADT, REGCTX_ADT, "vrp_core::construction::heuristics::context::RouteContext", "vrp_core::construction::heuristics::context::SolutionContext"]
    seen, ext = adt.reachable_types(F, roots)
    bad = []
    for a in seen:
        for v in F.adts[a]["v"]:
            for f in v["f"]:
                k = adt.interior_in(f["ty"])
                if k:
                    bad.append((a, f["n"], k))
    for a, fld, k in bad:
        r.fail(f"{a.split('::')[-1]}.{fld}", f"`{k}` reachable from a deep-copied structure: copy and original can share mutable state through an Arc", F.adts[a]["span"])
    r.ok("shared parts immutable", f"{len(seen)} ADTs reachable from Tour/RouteContext/Registry/SolutionContext, no interior mutability: Arc-shared parts are read-only")
    for fid, fn in F.fns.items():
        if not fid.lstrip("<").startswith(("vrp_core::", "rosomaxa::")):
            continue
        for bi, t in mir.calls(fn):
            c = t["callee"]
            if c.startswith("alloc::sync::Arc") and c.split("::")[-1] in ("get_mut", "make_mut", "get_mut_unchecked"):
                root = F.root_of(fid)
                if root in ARC_MUT_ALLOWED:
                    r.ok(f"Arc::{c.split('::')[-1]} in {util.short_fn(root)}", ARC_MUT_ALLOWED[root])
                else:
                    r.fail(f"Arc::{c.split('::')[-1]} in {util.short_fn(root)}", "in-place mutation through an Arc: data shared between a deep copy and its original could change", F.loc(fid, t["ln"]))
    for fid in DEEP_COPIES:
        fn = F.fns.get(fid)
        if fn is None:
            r.fail(util.short_fn(fid), "deep copy function not found (renamed?)")
            continue
        if not fn["locals"][1].startswith("&") or fn["locals"][1].startswith("&mut"):
            r.fail(util.short_fn(fid), f"deep copy takes `{fn['locals'][1]}` instead of a shared reference")
            continue
        # an owned result built from &self can only be produced by cloning (safe Rust): check that no field is copied as a reference
        ret = fn["locals"][0]
        if "&" in ret:
            r.fail(util.short_fn(fid), f"deep copy returns a borrowed type `{ret}`")
        else:
            r.ok(util.short_fn(fid), "owned result from &self (clone/collect/deep_copy per field)")
    # deep_slice: every collection of the slice is filtered by the predicate (a slice must be closed over its own actors)
    for fid in (REG_ADT + "::deep_slice", REGCTX_ADT + "::deep_slice"):
        fn2 = F.fns.get(fid)
        if fn2 is None:
            continue
        for bi, si, s in mir.stmts(fn2):
            rv = s["r"]
            if rv["k"] == "agg" and rv.get("n") in (REG_ADT + "#Registry", REGCTX_ADT + "#RegistryContext") and s["d"]["l"] == 0 or (rv["k"] == "agg" and rv.get("n") in (REG_ADT + "#Registry", REGCTX_ADT + "#RegistryContext")):
                for fname, o in zip(rv["fs"], rv["o"]):
                    if fname in ("random",):
                        continue
                    leaves, crossed = mir.deep_leaves(fn2, o)
                    filtered = any(c.endswith("Iterator::filter") or c.endswith("::deep_slice") for c in crossed)
                    for k_, v_, p_ in leaves:
                        if k_ == "closure":
                            for g_ in cg.reach(F, [v_], cha=False):
                                gf_ = F.fns.get(g_)
                                if gf_ and any(t_["callee"].endswith("Iterator::filter") for _, t_ in mir.calls(gf_)):
                                    filtered = True
                    inst = f"{util.short_fn(fid)}: {fname}"
                    if filtered:
                        r.ok(inst, "filtered by the slice predicate")
                    else:
                        r.fail(inst, f"`{fname}` of a sliced registry is copied unfiltered: the slice knows actors outside of it (free_actor/use_actor answer for vehicles that are not part of the slice)", F.loc(fid, s["ln"]))
    # Tour::deep_copy copies activities one by one
    fn = F.fns[DEEP_COPIES[0]]
    fam = F.family(DEEP_COPIES[0])
    if any(t["callee"] == ACTIVITY + "::deep_copy" for f_ in fam for _, t in mir.calls(F.fns[f_])):
        r.ok("Tour::deep_copy activities", "every activity is deep-copied into a new vector")
    else:
        r.fail("Tour::deep_copy activities", "activities are not deep-copied", F.loc(DEEP_COPIES[0]))


# preconditions that keep the depot ends in place: (function, tested call, panics when the test answers)
TOUR_GUARDS = [
    ("set_start", "is_none", False, "the start must be a depot activity (no job)"),
    ("set_start", "is_empty", False, "the start is set on an empty tour only (it is activity 0)"),
    ("set_end", "is_none", False, "the end must be a depot activity (no job)"),
    ("set_end", "is_empty", True, "the end is set after the start"),
    ("insert_at", "is_some", False, "only job activities are inserted between the depot ends"),
    ("insert_at", "is_empty", True, "activities are inserted into a tour that has its start"),
]


def g1_tour_guards(F, r):
    """depot ends stay in place: the start is the first activity ever pushed, the end closes the tour, everything inserted in between carries a job — each mutator keeps
    the assertion that enforces its precondition (the assertion's test and polarity are checked, not its text)"""
    from . import c01
    T = "vrp_core::models::solution::tour::Tour::"
    for fname, test, panics_on, why in TOUR_GUARDS:
        fid = T + fname
        if fid not in F.fns:
            raise AnchorError(fid)
        fn = F.fns[fid]
        pan = {bi for bi, t in mir.calls(fn) if "panic" in t["callee"]}
        P = mir.preds(fn)
        found = False
        for b in pan:
            for q in P[b]:
                tt = fn["bbs"][q]["t"]
                if tt["k"] != "switch" or not mir.is_place(tt["o"]):
                    continue
                toks = c01._toks(fn, tt["o"])
                if test not in toks:
                    continue
                # value of the tested bool on the edge into the panic block
                on = None
                for v, tb in tt["tg"]:
                    if tb == b:
                        on = bool(v)
                if on is None and tt["else"] == b:
                    listed = [v for v, _ in tt["tg"]]
                    on = (0 in listed)          # else-edge of a switch listing `false` is the `true` edge
                neg = any(st["r"]["k"] == "un" and st["r"].get("op") == "Not" for st in fn["bbs"][q]["s"] if st["d"]["l"] == tt["o"]["l"])
                if neg and on is not None:
                    on = not on
                if on == panics_on:
                    found = True
        inst = f"Tour::{fname}: {test}"
        if found:
            r.ok(inst, why)
        else:
            r.fail(inst, f"the precondition `{why}` is no longer asserted (test on `{test}` that panics when it answers {panics_on}): depot ends can be displaced or duplicated", F.loc(fid))
    fn = F.fns[T + "set_end"]
    closes = [st for _, _, st in mir.stmts(fn) if mir.proj_fields(st["d"]) and mir.proj_fields(st["d"])[-1][1] == "is_closed" and mir.is_const(st["r"]["o"][0]) and st["r"]["o"][0]["c"] == "true"]
    if closes:
        r.ok("Tour::set_end: closes", "is_closed = true (leg enumeration then has no extra open-end leg)")
    else:
        r.fail("Tour::set_end: closes", "setting the end no longer marks the tour closed: legs() adds a bogus open-end leg", F.loc(T + "set_end"))


JOB_T = "vrp_core::models::problem::jobs::Job"


def j1_job_identity(F, r):
    """job identity: (a) an activity belongs to a job iff its ROOT job (retrieve_job: the multi job of a sub-job) equals the job — decided through `Job == Job`,
    never by comparing the activity's sub-job directly; (b) `Job == Job` is pointer identity of the payloads of the SAME variant, one taken from each side;
    (c) `Hash for Job` hashes the payload pointer in every variant (Eq/Hash agreement of the tour's job set)."""
    fid = "vrp_core::models::solution::route::Activity::has_same_job"
    if fid not in F.fns:
        raise AnchorError(fid)
    ok = False
    direct = []
    stop = {"vrp_core::models::solution::route::Activity::retrieve_job": "root"}
    for g in F.family(fid):
        fn = F.fns[g]
        for bi, t in mir.calls(fn):
            c = t["callee"]
            if c.endswith("::ptr_eq") and "Arc" in c:
                direct.append(t["ln"])
            if c in ("core::cmp::PartialEq::eq", "core::cmp::PartialEq::ne") and t["ga"] and JOB_T in t["ga"][0] and len(t["args"]) == 2:
                sides = [mir.deep_leaves(fn, a, stop)[0] for a in t["args"]]
                roots = [any(k == "root" for k, _, _ in sd) for sd in sides]
                others = [any(k in ("arg", "local") for k, _, _ in sd) and not any(k == "root" for k, _, _ in sd) for sd in sides]
                if (roots[0] and others[1]) or (roots[1] and others[0]):
                    ok = True
    if direct:
        r.fail("Activity::has_same_job: root job", "the activity's own (sub-)job pointer is compared directly (Arc::ptr_eq): a sub-job wrapped as a single job then matches the "
               "activities of its multi job — Tour::remove/index/job_activities disagree with the tour's job set (half-removed multi job)", F.loc(fid, direct[0]))
    elif ok:
        r.ok("Activity::has_same_job: root job", "decided by `Job == Job` between retrieve_job() (the root job) and the given job")
    else:
        r.fail("Activity::has_same_job: root job", "the verdict is not `retrieve_job() == job` (no Job equality between the activity's root job and the argument)", F.loc(fid))
    eqs = [m for m in F.fns if m.startswith(f"<{JOB_T} as core::cmp::PartialEq") and m.endswith("::eq")]
    if len(eqs) != 1:
        raise AnchorError(f"Job::eq resolves to {eqs}")
    fn = F.fns[eqs[0]]
    pe = [(bi, t) for bi, t in mir.calls(fn) if t["callee"].endswith("::ptr_eq")]
    variants = [v["n"] for v in F.adts[JOB_T]["v"]]
    payload_tys = set()
    bad = None
    for bi, t in pe:
        srcs = [mir.expr(fn, a)[0] for a in t["args"]]
        if not (srcs[0] == ("arg", 1) and srcs[1] == ("arg", 2) or srcs[0] == ("arg", 2) and srcs[1] == ("arg", 1)):
            bad = (t["ln"], "the two pointers are not taken one from each side")
        payload_tys.add(t["ga"][0] if t["ga"] else "?")
    if bad:
        r.fail("Job::eq: pointer identity", bad[1] + ": equality of jobs no longer means identity", F.loc(eqs[0], bad[0]))
    elif len(payload_tys) != len(variants):
        r.fail("Job::eq: pointer identity", f"{len(payload_tys)} payload types compared by pointer for {len(variants)} variants: some variant is equal/unequal without looking at the job", F.loc(eqs[0]))
    else:
        r.ok("Job::eq: pointer identity", f"{len(variants)} variants, each compared by Arc::ptr_eq of the two sides' payloads (same payload type by typing)")
    hs = [m for m in F.fns if m.startswith(f"<{JOB_T} as core::hash::Hash") and m.endswith("::hash")]
    if len(hs) != 1:
        raise AnchorError(f"Job::hash resolves to {hs}")
    fn = F.fns[hs[0]]
    ptrs = {t["ga"][0] for bi, t in mir.calls(fn) if t["callee"].endswith("::as_ptr") and t["ga"]}
    hashed = [t for bi, t in mir.calls(fn) if t["callee"] == "core::hash::Hash::hash"]
    if len(ptrs) == len(variants) and all("*const" in (t["ga"][0] if t["ga"] else "") for t in hashed) and len(hashed) >= len(variants):
        r.ok("Job::hash: pointer identity", "every variant hashes its payload pointer (agrees with Job::eq)")
    else:
        r.fail("Job::hash: pointer identity", "hash no longer the payload pointer in every variant: equal jobs may hash differently / the tour's job set loses members", F.loc(hs[0]))


def run(ctx):
    ctx.explanation = (
        "Structural well-formedness: representation fields are private (E1), every Tour method that structurally mutates `activities` "
        "mutates `jobs` on every path in the matching direction (E2), Activity.job is never assigned or mutably borrowed after construction "
        "anywhere in the workspace (E3), the registry's available sets are mutated only by use_actor(remove)/free_actor(insert) whose boolean "
        "results are propagated and get_route is gated on use_actor (R1), deep copies share only immutable Arc data (D1, type-level).")
    ctx.explanation += ' Job identity (J1): has_same_job decides through Job equality on the root job; Job::eq / hash are payload pointer identity per variant.'
    ctx.not_decided = "depot ends in place, leg enumeration, counts (value-level index arithmetic); reference-model equivalence along histories."
    ctx.assumptions += ["safe Rust: an owned value built from &self can only clone", "std HashSet/Vec contracts"]
    ctx.run("C14-E1", "representation fields of Tour / Registry / RegistryContext are private", e1_privacy, floor=8)
    ctx.run("C14-G1", "Tour mutators keep the preconditions that hold the depot ends in place", g1_tour_guards, floor=7)
    ctx.run("C14-E2", "Tour mutators keep `jobs` in sync with `activities` on every path", e2_paired_mutation, floor=4)
    ctx.run("C14-J1", "job identity: activity ↔ root job through Job equality; Job equality / hash = payload pointer identity", j1_job_identity, floor=3)
    ctx.run("C14-E3", "job identity of an activity is immutable after construction", e3_job_identity, floor=1)
    ctx.run("C14-R1", "registry: available set mutated only by use/free with propagated results; get_route gated on use_actor; keep_routes frees", r1_registry, floor=6)
    ctx.run("C14-D1", "deep copies are independent: owned results, Arc-shared parts immutable, no Arc::get_mut", d1_independent_copies, floor=10)
