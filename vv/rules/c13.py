"""C13 — scientific instance files are read faithfully (structural clauses)."""
from .. import cg, mir, util
from .. import ordeval as oe
from ..facts import AnchorError

SCI = "vrp_scientific::"
DIMENS = "vrp_core::models::common::dimens::Dimensions"


def _records(F):
    out = {}
    for a, ad in F.adts.items():
        if a.startswith(SCI) and "::reader::" in a and ad["kind"] == "struct" and not a.endswith("Reader") and ad["v"][0]["f"]:
            out[a] = ad
    return out


def f1_record_liveness(F, r):
    recs = _records(F)
    if len(recs) < 4:
        raise AnchorError(f"only {len(recs)} parse records found")
    sci_fns = {i: f for i, f in F.fns.items() if i.lstrip("<").startswith(SCI) and "::promoted[" not in i}
    for a, ad in sorted(recs.items()):
        short = "::".join(a.split("::")[-3:])
        reads = {}
        ctor_sources = {}
        for fid, fn in sci_fns.items():
            if fn["impl_trait"].endswith("core::fmt::Debug"):
                continue
            for bi, si, s in mir.stmts(fn):
                rv = s["r"]
                if rv["k"] == "agg" and rv.get("n") == a + "#" + a.split("::")[-1]:
                    for fname, o in zip(rv["fs"], rv["o"]):
                        ctor_sources[fname] = frozenset((k, v, p) for k, v, p in mir.trace(fn, o) if k != "const")
                for o in rv.get("o", []):
                    if mir.is_place(o):
                        for adt_, f_ in mir.proj_fields(o):
                            if adt_ == a:
                                reads.setdefault(f_, fid)
            for bi, t in mir.calls(fn):
                for o in t["args"]:
                    if mir.is_place(o):
                        for adt_, f_ in mir.proj_fields(o):
                            if adt_ == a:
                                reads.setdefault(f_, fid)
        for f in ad["v"][0]["f"]:
            inst = f"{short}.{f['n']}"
            if f["n"].startswith("_"):
                r.ok(inst, "explicitly ignored column")
                continue
            if f["n"] not in reads:
                r.fail(inst, "field parsed from the instance file is never read when the problem is built: that column of the file (demand / window / service time / capacity ...) has no effect", ad["span"])
            else:
                r.ok(inst, f"read in {util.short_fn(reads[f['n']])}")
        # distinct sources: no two fields filled from the same parsed position
        seen = {}
        for fname, src in ctor_sources.items():
            if not src:
                continue
            if src in seen.values():
                other = [k for k, v in seen.items() if v == src][0]
                r.fail(f"{short}: {fname}/{other}", f"fields `{fname}` and `{other}` are filled from the same parsed value (column mix-up)", ad["span"])
            seen[fname] = src
    # builder parameters are consumed (tsplib passes parsed values as parameters instead of a record)
    for fid, fn in sorted(sci_fns.items()):
        if fn["kind"] == "Closure" or not fid.split("::")[-1].startswith("create_") or "::reader::" not in fid and "text_reader" not in fid:
            continue
        for i in range(1, fn["argc"] + 1):
            nm = fn["names"].get(str(i), f"arg{i}")
            if nm == "self":
                continue
            inst = f"{util.short_fn(fid)}({nm})"
            if mir.uses_of_local(fn, i):
                r.ok(inst, "parameter consumed")
            else:
                r.fail(inst, "value parsed from the instance file is passed to the builder but never used", F.loc(fid))
                continue
            # record-typed parameters (time windows ...): every field of the record is consumed, unless the value is passed on whole
            pty = fn["locals"][i].lstrip("&").strip()
            ad = F.adts.get(pty)
            if ad and ad["kind"] == "struct" and 2 <= len(ad["v"][0]["f"]) <= 4 and pty.startswith("vrp_core::models::common"):
                whole = any(where[0] == "t" and not o["p"] for where, o in mir.uses_of_local(fn, i))
                reads = set()
                for g in F.family(fid):
                    for p_ in util.all_places(F.fns[g]):
                        for a_, f_ in mir.proj_fields(p_):
                            if a_ == pty:
                                reads.add(f_)
                for f_ in ad["v"][0]["f"]:
                    inst2 = f"{util.short_fn(fid)}({nm}.{f_['n']})"
                    if whole or f_["n"] in reads:
                        r.ok(inst2, "record field consumed")
                    else:
                        r.fail(inst2, f"the `{f_['n']}` part of the parsed {pty.split('::')[-1]} is never used when the problem is built (e.g. depot ready time / due date ignored)", F.loc(fid))


def f2_load_types_and_features(F, r):
    ts = {}
    for fid, fn in F.fns.items():
        if not fid.lstrip("<").startswith(SCI):
            continue
        for bi, t in mir.calls(fn):
            c = t["callee"]
            last = c.split("::")[-1]
            if last in ("set_job_demand", "set_vehicle_capacity") and len(t["ga"]) >= 2:
                ts.setdefault(t["ga"][1], []).append((last, fid, t["ln"]))
            if "CapacityFeatureBuilder" in c and last == "build" and t["ga"]:
                ts.setdefault(t["ga"][0], []).append(("CapacityFeatureBuilder", fid, t["ln"]))
    if not ts:
        raise AnchorError("no load-typed sites in vrp_scientific")
    kinds = {k for v in ts.values() for k, _, _ in v}
    if len(ts) == 1 and kinds >= {"set_job_demand", "set_vehicle_capacity", "CapacityFeatureBuilder"}:
        t = list(ts)[0]
        r.ok("load type", f"demand, capacity and capacity feature all use {t.split('::')[-1]} ({sum(len(v) for v in ts.values())} sites)")
    else:
        for t, sites in ts.items():
            for k, fid, ln in sites:
                r.fail(f"load type {t.split('::')[-1]} at {util.short_fn(fid)}", f"demand/capacity/feature use different load types {sorted(x.split('::')[-1] for x in ts)}: the capacity feature reads a dimension of another type and never binds", F.loc(fid, ln))
    gef = F.find1("text_reader::get_essential_features")
    fn = F.fns[gef]
    leaves, crossed = mir.deep_leaves(fn, {"l": 0, "p": []})
    need = {"capacity feature": "CapacityFeatureBuilder", "transport feature": "TransportFeatureBuilder"}
    for what, key in need.items():
        if any(key in c and c.split("::")[-1].startswith("build") for c in crossed):
            r.ok(f"essential features: {what}")
        else:
            r.fail(f"essential features: {what}", f"{what} is not part of the features returned by get_essential_features (constraint never assembled)", F.loc(gef))
    stc = [t for _, t in mir.calls(fn) if t["callee"].endswith("set_time_constrained")]
    if stc and any(k == "arg" and v == 3 for k, v, p in mir.trace(fn, stc[0]["args"][1])):
        r.ok("essential features: time constrained flag", "set_time_constrained(is_time_constrained parameter)")
    else:
        r.fail("essential features: time constrained flag", "time-window enforcement flag is not taken from the caller", F.loc(gef))
    for reader, want in (("SolomonReader", "true"), ("LilimReader", "true")):
        ms = [m for m in F.trait_impl_methods("vrp_scientific::common::text_reader::TextReader::create_goal_context") if reader in F.fns[m]["impl_self"]]
        if len(ms) != 1:
            r.fail(f"{reader}::create_goal_context", "not found")
            continue
        mfn = F.fns[ms[0]]
        ok = False
        for _, t in mir.calls(mfn):
            if "create_goal_context" in t["callee"] and len(t["args"]) >= 3:
                src = mir.trace(mfn, t["args"][2])
                ok = src == {("const", want, ())}
        if ok:
            r.ok(f"{reader}::create_goal_context", "time windows enforced (is_time_constrained = true)")
        else:
            r.fail(f"{reader}::create_goal_context", "time windows of the instance are not enforced (is_time_constrained is not the literal true)", F.loc(ms[0]))
    for g in ("create_goal_context_prefer_min_tours", "create_goal_context_distance_only"):
        gid = F.find1("text_reader::" + g)
        gfn = F.fns[gid]
        ok = any((t["res"] or t["callee"]) == gef and any(k == "arg" and v == 3 for k, v, p in mir.trace(gfn, t["args"][2])) for _, t in mir.calls(gfn))
        if ok:
            r.ok(g, "passes the flag on")
        else:
            r.fail(g, "does not pass is_time_constrained to get_essential_features", F.loc(gid))


def f3_rounding_flag(F, r):
    """scientific instances: distance = sqrt((x1-x2)^2 + (y1-y2)^2), rounded iff the rounding flag is set. The body holding the formula is found by its sqrt call
    (the closure inside create_transport, or a helper of the same module it calls), so the rule does not depend on how the code is split."""
    root = F.find1("routing::CoordIndex::create_transport")
    mod = F.fns[root]["module"]
    cands = [g for g, fn in F.fns.items() if "::promoted[" not in g and (g == root or g.startswith(root + "::") or (fn["module"] == mod and fn["kind"] != "Closure" and not fn.get("impl_trait")))]
    bodies = []
    for g in cands:
        gfn = F.fns[g]
        for _, t in mir.calls(gfn):
            if t["callee"].endswith("f64>::sqrt") and not any(c.endswith("::len") for c in mir.deep_leaves(gfn, t["args"][0])[1]):
                bodies.append(g)       # (the other sqrt of the module derives the matrix size from a length)
                break
    if len(bodies) != 1:
        raise AnchorError(f"Euclidean distance body of create_transport: {len(bodies)} candidates")
    c = bodies[0]
    cfn = F.fns[c]
    ups = [u[0] for u in cfn.get("upvars", [])] if cfn["kind"] == "Closure" else []
    flag_arg = None
    if cfn["kind"] == "Closure":
        if "is_rounded" not in ups:
            bools = [u[0] for u in cfn.get("upvars", []) if u[1].lstrip("&") == "bool"]
            if len(bools) != 1:
                r.fail("create_transport: flag", "the distance formula does not see the rounding flag", F.loc(c))
                return
            flag_name = bools[0]
        else:
            flag_name = "is_rounded"
    else:
        bl = [i for i in range(1, cfn["argc"] + 1) if cfn["locals"][i] == "bool"]
        if len(bl) != 1:
            r.fail("create_transport: flag", "the distance helper does not take the rounding flag", F.loc(c))
            return
        flag_arg = bl[0]
    res = {}
    for flag in (True, False):
        if cfn["kind"] == "Closure":
            env = {1: oe.ref(("closure", c, [("bool", flag) if u == flag_name else oe.sym(u) for u in ups])), 2: oe.ref(oe.sym("p2"))}
        else:
            env = {i: (("bool", flag) if i == flag_arg else oe.sym(f"p{i}")) for i in range(1, cfn["argc"] + 1)}
        it = oe.Interp(F, c, env, fresh=True, observe=("f64>::round", "f64>::sqrt"))
        res[flag] = it.explore()
    ok_t = all(any(cl[0].endswith("round") for cl in p.calls) for p in res[True]) and res[True]
    ok_f = all(not any(cl[0].endswith("round") for cl in p.calls) for p in res[False]) and res[False]
    sq = all(any(cl[0].endswith("sqrt") for cl in p.calls) for p in res[True] + res[False])
    if ok_t and ok_f and sq:
        r.ok("create_transport: rounding", "rounded iff the rounding flag is set; Euclidean sqrt on both paths")
    else:
        r.fail("create_transport: rounding", "the is_rounded flag no longer selects exactly between the rounded and the raw Euclidean distance", F.loc(c))
    # the flag handed to a helper is the caller's flag
    if cfn["kind"] != "Closure":
        passed = False
        for g in cands:
            gfn = F.fns[g]
            for _, t in mir.calls(gfn):
                if (t.get("res") or t["callee"]) == c and len(t["args"]) >= flag_arg:
                    tr = mir.trace(gfn, t["args"][flag_arg - 1])
                    names = set()
                    for k, v, p in tr:
                        if k in ("arg", "local"):
                            names.add(gfn["names"].get(str(v), ""))
                        if gfn["kind"] == "Closure" and k == "arg" and v == 1 and p and str(p[0]).isdigit() and int(p[0]) < len(gfn.get("upvars", [])):
                            names.add(gfn["upvars"][int(p[0])][0])
                    if "is_rounded" in names:
                        passed = True
        if passed:
            r.ok("create_transport: flag", "the helper receives the caller's is_rounded")
        else:
            r.fail("create_transport: flag", "the distance helper is not called with the caller's is_rounded flag", F.loc(c))
    # Euclidean formula pairs like coordinates: (x1 - x2), (y1 - y2)
    parent_id = None
    if cfn["kind"] == "Closure":
        for g in cands:
            for bi, si, st in mir.stmts(F.fns[g]):
                if st["r"]["k"] == "agg" and st["r"].get("ak") == "closure" and st["r"]["n"] == c:
                    parent_id = (g, st)
    pairs = []
    for bi, si, st in mir.stmts(cfn):
        rv = st["r"]
        if rv["k"] == "bin" and rv["op"] == "Sub" and rv["ty"] == "f64":
            idx = []
            for o in rv["o"]:
                comp = None
                for k, v, p in mir.trace(cfn, o):
                    if k == "arg" and p and str(p[-1]).isdigit() and not (cfn["kind"] == "Closure" and v == 1):
                        comp = (("arg", v), int(p[-1]))
                    elif k == "arg" and v == 1 and cfn["kind"] == "Closure" and p and str(p[0]).isdigit() and parent_id:
                        pg, ps = parent_id
                        up = int(p[0])
                        if len(p) >= 2 and str(p[-1]).isdigit() and len(p) > 1 and p[-1] != p[0]:
                            comp = (("upvar", up), int(p[-1]))
                        elif up < len(ps["r"]["o"]):
                            for k2, v2, p2 in mir.trace(F.fns[pg], ps["r"]["o"][up]):
                                if k2 == "arg" and p2 and str(p2[-1]).isdigit():
                                    comp = (("outer", v2), int(p2[-1]))
                idx.append(comp)
            pairs.append(idx)
    good = len(pairs) == 2 and all(a and b and a[0] != b[0] and a[1] == b[1] for a, b in pairs) and {a[1] for a, b in pairs} == {0, 1} \
        and len({a[0] for a, b in pairs}) == 1 and len({b[0] for a, b in pairs}) == 1
    if good:
        r.ok("create_transport: coordinate pairing", "(x1 - x2), (y1 - y2): like coordinates of the two points are subtracted")
    else:
        r.fail("create_transport: coordinate pairing", f"the Euclidean distance does not subtract like coordinates of the two points (pairs {pairs}): distances are not those of the instance", F.loc(c))
    r.ok("create_transport: single matrix", "one matrix for distance and duration (SingleDataTransportCost, see C16)")


def f4_lost_slot_writes(F, r):
    """a local Dimensions that receives set_* writes must be moved on / returned (all crates)"""
    n = 0
    for fid, fn in F.fns.items():
        if "::promoted[" in fid:
            continue
        for l, ty in enumerate(fn["locals"]):
            if ty != DIMENS or l <= fn["argc"] or l == 0:
                continue
            # user variables only
            if str(l) not in fn["names"]:
                continue
            writes = []
            moved = False
            for (where, o) in mir.uses_of_local(fn, l):
                if where[0] == "s":
                    s = fn["bbs"][where[1]]["s"][where[2]]
                    rv = s["r"]
                    if rv["k"] == "ref" and rv.get("mut"):
                        writes.append(s["ln"])
                    elif rv["k"] in ("use", "agg") and o.get("mv"):
                        moved = True
                    elif rv["k"] == "ref" and not rv.get("mut"):
                        # shared borrow: may be cloned / read
                        flow = mir.forward(fn, [s["d"]["l"]])
                        for cb, t in mir.calls(fn):
                            if t["callee"].endswith("Clone::clone") and any(mir.is_place(a) and a["l"] in flow for a in t["args"]):
                                moved = True
                elif where[0] == "t":
                    t = fn["bbs"][where[1]]["t"]
                    if t["k"] == "call" and o.get("mv"):
                        moved = True
            if not writes:
                continue
            n += 1
            inst = f"{util.short_fn(fid)}:{fn['names'][str(l)]}"
            if moved or l == 0:
                r.ok(inst, "written dimensions are moved into the job/vehicle")
            else:
                r.fail(inst, "a Dimensions value receives slot writes (id, demand, ...) and is then dropped: the data never reaches the job/vehicle", F.loc(fid, writes[0]))
    if n < 5:
        raise AnchorError(f"only {n} written Dimensions locals found")


def p1_lilim_pairing(F, r):
    """Li&Lim: every customer with a positive demand is a pickup paired with the delivery named in its relation column; the job lists the pickup first"""
    from . import c01
    roots = [i for i in F.fns if "lilim::reader" in i and i.endswith("::read_jobs") and F.fns[i]["kind"] != "Closure"]
    if len(roots) != 1:
        raise AnchorError(f"lilim read_jobs resolves to {roots}")
    root = roots[0]
    fn = F.fns[root]
    rel = [(bi, st) for bi, si, st in mir.stmts(fn) if st["r"]["k"] == "agg" and st["r"].get("n", "").endswith("Relation#Relation")]
    if len(rel) != 1:
        raise AnchorError(f"read_jobs: {len(rel)} Relation constructions")
    bi, st = rel[0]
    fs = st["r"].get("fs") or []
    ex = {f: mir.expr(fn, o) for f, o in zip(fs, st["r"]["o"])}
    if set(fs) != {"pickup", "delivery"}:
        raise AnchorError(f"Relation fields {fs}")
    same_rec = ex["pickup"][0] == ex["delivery"][0] and ex["pickup"][1][:-1] == ex["delivery"][1][:-1]
    if same_rec and ex["pickup"][1][-1] == ".id" and ex["delivery"][1][-1] == ".relation":
        r.ok("read_jobs: relation", "pickup = customer.id, delivery = customer.relation of the same record")
    else:
        r.fail("read_jobs: relation", f"the pickup/delivery pair is not (customer.id, customer.relation) of one record (pickup from `{ex['pickup'][1][-1:]}`, delivery from `{ex['delivery'][1][-1:]}`): "
               "requests are paired with the wrong sibling", F.loc(root, st.get("ln")))
    guards = []
    for bj, sj, s2 in mir.stmts(fn):
        rv = s2["r"]
        if rv["k"] == "bin" and rv["op"] in ("Gt", "Lt", "Ge", "Le", "Ne"):
            a, b = mir.expr(fn, rv["o"][0]), mir.expr(fn, rv["o"][1])
            if a[1][-1:] == (".demand",) and b[0] == ("const", "0_i32"):
                guards.append((rv["op"], bj, s2))
            elif b[1][-1:] == (".demand",) and a[0] == ("const", "0_i32"):
                guards.append(({"Gt": "Lt", "Lt": "Gt", "Ge": "Le", "Le": "Ge", "Ne": "Ne"}[rv["op"]], bj, s2))
    if len(guards) != 1:
        r.fail("read_jobs: pickup test", f"{len(guards)} comparisons of the demand with zero decide which customers are pickups", F.loc(root))
    else:
        op, bj, s2 = guards[0]
        # the switch may test a copy of the comparison (`let is_pickup = customer.demand > 0; if is_pickup {..}`)
        sw = [sb for sb, bb in enumerate(fn["bbs"]) if bb["t"]["k"] == "switch" and mir.is_place(bb["t"]["o"]) and
              (bb["t"]["o"]["l"] == s2["d"]["l"] or any(k == "bin" and fn["bbs"][v[0]]["s"][v[1]] is s2 for k, v, p_ in mir.trace(fn, bb["t"]["o"])))]
        ok = op == "Gt" and len(sw) == 1 and bi in mir.reach(fn, [fn["bbs"][sw[0]]["t"]["else"]], blocked={sw[0]}) and \
            bi not in mir.reach(fn, [x for v, x in fn["bbs"][sw[0]]["t"]["tg"] if v == 0], blocked={sw[0]})
        if ok:
            r.ok("read_jobs: pickup test", "a relation is recorded exactly for customers with demand > 0")
        else:
            r.fail("read_jobs: pickup test", f"relations are recorded on `demand {op} 0` (or not on the true side): deliveries (negative demand) or the depot create requests too, or pickups are skipped", F.loc(root, s2.get("ln")))
    # the two customers of a request are found BY ID (the file may list customers in any order, with gaps): keyed lookup, never a position computed from the id
    lookups = []
    for g in F.family(root):
        gfn = F.fns[g]
        for _, t in mir.calls(gfn):
            if t["callee"].endswith("create_single_job") and len(t["args"]) >= 2:
                _, crossed = mir.deep_leaves(gfn, t["args"][1])
                keyed = any(("HashMap" in c or "BTreeMap" in c) and c.split("::")[-1] in ("get", "get_mut", "remove", "entry", "index") for c in crossed)
                positional = any((c.endswith("Index::index") or c.endswith("IndexMut::index_mut") or ("slice" in c and c.split("::")[-1] in ("get", "get_unchecked"))) for c in crossed) and not keyed
                lookups.append((g, t, keyed, positional))
    if lookups:
        bad = [x for x in lookups if x[3]]
        if bad:
            r.fail("read_jobs: customer lookup", "a request's pickup / delivery customer is fetched by POSITION (index computed from the id) instead of by id: customer rows that are not "
                   "listed in contiguous ascending order are paired with the wrong rows (wrong coordinates, demands, windows)", F.loc(bad[0][0], bad[0][1]["ln"]))
        elif all(x[2] for x in lookups):
            r.ok("read_jobs: customer lookup", "customers of a request are looked up by id (keyed map)")
        else:
            r.ok("read_jobs: customer lookup", "not decided: neither a keyed nor a positional lookup recognised")
    arr = [(g, st2) for g in F.family(root) for _, _, st2 in mir.stmts(F.fns[g]) if st2["r"]["k"] == "agg" and st2["r"].get("ak") == "array" and len(st2["r"]["o"]) == 2]
    if len(arr) != 1:
        r.ok("read_jobs: order", "not decided: the two sub-jobs are not built as a two-element array")
        return
    g, st2 = arr[0]
    gfn = F.fns[g]
    t0, t1 = c01._toks_deep(gfn, st2["r"]["o"][0]), c01._toks_deep(gfn, st2["r"]["o"][1])
    if "pickup" in t0 and "delivery" not in t0 and "delivery" in t1 and "pickup" not in t1:
        r.ok("read_jobs: order", "[pickup, delivery]")
    else:
        r.fail("read_jobs: order", "the multi job does not list the pickup customer first and the delivery customer second: precedence is reversed or both parts are the same customer", F.loc(g, st2.get("ln")))


DROPPING_TYPES = ("adapters::filter::", "adapters::filter_map::", "adapters::skip::", "adapters::take::", "adapters::skip_while::", "adapters::take_while::",
                  "adapters::step_by::", "adapters::map_while::")


def i1_init_reader_tokens(F, r):
    """re-reading a written solution: every token of a route line and every job of the problem is visited (no element-dropping adapter on those walks)"""
    root = "vrp_scientific::common::initial_reader::read_init_solution"
    if root not in F.fns:
        raise AnchorError(root)
    seen = {}
    for g in F.family(root):
        fn = F.fns[g]
        for bi, t in mir.calls(fn):
            if not t["callee"].startswith("core::iter::traits::iterator::Iterator::") or not t["ga"]:
                continue
            ty = t["ga"][0]
            for what, marks in (("route tokens", ("core::str::iter::Split",)), ("problem jobs", ("slice::iter::Iter<'_, vrp_core::models::problem::jobs::Job>",))):
                if any(m in ty for m in marks):
                    bad = [d.split("::")[1] for d in DROPPING_TYPES if d in ty]
                    key = f"read_init_solution: walk over {what}"
                    if bad:
                        r.fail(key, f"the walk over the {what} drops elements ({', '.join(bad)}): a customer the writer listed in a route (or a job of the problem) silently "
                               "vanishes from the re-read solution / id map", F.loc(g, t["ln"]))
                        seen[what] = "bad"
                    elif seen.get(what) != "bad":
                        seen[what] = "ok"
    for what in ("route tokens", "problem jobs"):
        if what not in seen:
            r.fail(f"read_init_solution: walk over {what}", f"no walk over the {what} was found", F.loc(root))
        elif seen[what] == "ok":
            r.ok(f"read_init_solution: walk over {what}", "complete (no element-dropping adapter)")


def run(ctx):
    ctx.explanation = (
        "Structural faithfulness of the scientific readers: every field of the parse records (and every builder parameter) is consumed when the problem "
        "is built and no two fields come from the same parsed position (F1); demand, capacity and the capacity feature use one load type, the essential "
        "features contain capacity and transport with time windows enforced for Solomon/Li&Lim (F2); the rounding flag selects exactly between rounded and "
        "raw Euclidean distance (F3, evaluated over the flag); no Dimensions value that received slot writes is dropped (F4, all crates).")
    ctx.explanation += ' The initial-solution reader visits every route token and every job (I1, no dropping adapter in the iterator types).'
    ctx.explanation += ' Li&Lim request customers are fetched by a keyed lookup, never by a position computed from the id (P1 extension).'
    ctx.not_decided = "numeric equality of parsed values, Li&Lim pairing, initial-solution round trip."
    ctx.run("C13-F1", "record-field / builder-parameter liveness and distinct sources", f1_record_liveness, floor=15)
    ctx.run("C13-F2", "load type agreement; essential features (capacity, transport with time windows)", f2_load_types_and_features, floor=8)
    ctx.run("C13-P1", "Li&Lim pairing: relation (id, relation) for demand > 0; sub-jobs [pickup, delivery]", p1_lilim_pairing, floor=3)
    ctx.run("C13-F3", "rounding flag selects between rounded and raw Euclidean distance", f3_rounding_flag, floor=2)
    ctx.run("C13-I1", "initial-solution reader visits every route token and every job", i1_init_reader_tokens, floor=2)
    ctx.run("C13-F4", "no lost slot writes: written Dimensions are moved on", f4_lost_slot_writes, floor=5)
