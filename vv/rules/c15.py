"""C15 — parallel evaluation results do not depend on how work is split: purity + sharing + reducer."""
from .. import adt, cg, effects, mir, util
from .. import ordeval as oe
from ..facts import AnchorError

H = "vrp_core::construction::heuristics::"
EVAL = H + "evaluators::eval_job_insertion_in_route"
CHOOSE = H + "insertions::InsertionResult::choose_best_result"
RS = H + "selectors::ResultSelector"
LEGSEL = H + "selectors::LegSelection"
PAR = "rosomaxa::utils::parallel::actual::"
PAR_FNS = ("fold_reduce", "map_reduce", "parallel_collect", "parallel_into_collect", "parallel_foreach_mut")
FC = "vrp_core::models::goal::FeatureConstraint"


def _exclusive_blocks(fn, edge):
    """blocks reachable only through `edge`"""
    allb = mir.reach(fn, [0])
    without = mir.reach(fn, [0], blocked_edges=[edge])
    return allb - without


def p1_purity(F, r):
    if EVAL not in F.fns:
        raise AnchorError(EVAL)
    pruned = {}
    # LegSelection::get_sample_data: prune the Stochastic arm; prove Exhaustive => None by E-C
    gsd = F.find1("LegSelection::get_sample_data")
    fn = F.fns[gsd]
    la = F.adts.get(LEGSEL)
    if la is None:
        raise AnchorError(LEGSEL)
    vidx = {v["n"]: i for i, v in enumerate(la["v"])}
    sw = None
    for sb, bb in enumerate(fn["bbs"]):
        for s in bb["s"]:
            if s["r"]["k"] == "discr" and s["r"]["o"][0]["l"] == 1 and bb["t"]["k"] == "switch":
                oe_ = {v: (sb, tb) for v, tb in bb["t"]["tg"]}
                oe_["else"] = (sb, bb["t"]["else"])
                sw = mir.variant_edge(oe_, vidx["Stochastic"], len(vidx))
    if sw is None:
        raise AnchorError("get_sample_data: match on self not found")
    pruned[gsd] = _exclusive_blocks(fn, sw)
    it = oe.Interp(F, gsd, {1: oe.ref(oe.sym("sel")), 2: oe.ref(oe.sym("route")), 3: oe.ref(oe.sym("job")), 4: oe.sym("skip")}, variants={"sel": vidx["Exhaustive"]})
    rets = {p.ret for p in it.explore()}
    if rets != {oe.NONE}:
        r.fail("LegSelection::get_sample_data[Exhaustive]", f"exhaustive leg selection can return sample data ({sorted(map(str, rets))}): sampled (random) leg search in deterministic mode", F.loc(gsd))
        return
    r.ok("LegSelection::get_sample_data[Exhaustive]", "returns None (no sampling) — evaluated over the enum variant")
    sb_ = F.find1("LegSelection::sample_best")
    sfn = F.fns[sb_]
    calls = [bi for bi, t in mir.calls(sfn) if (t["res"] or t["callee"]) == gsd]
    if len(calls) != 1:
        raise AnchorError("sample_best: get_sample_data call")
    some_edge = mir.variant_edge(mir.option_edges(sfn, calls[0]), 1)
    if some_edge is None:
        raise AnchorError("sample_best: match on sample data")
    pruned[sb_] = _exclusive_blocks(sfn, some_edge)

    def flt(x, kind, bi, tg, t):
        if x in pruned and bi in pruned[x]:
            return False
        if t is not None:
            c = t["callee"]
            if c.startswith(RS + "::"):
                tf = F.fns.get(tg)
                return tg == c or (tf is not None and tf["impl_self"].endswith("BestResultSelector"))
            if c.startswith(FC + "::"):
                tf = F.fns.get(tg)
                return not (tf is not None and tf["impl_self"].endswith("StochasticFeatureConstraint"))
        return True

    par, found = effects.reach_effects(F, [EVAL], edge_filter=flt)
    ws = [g for g in par if g in F.fns]
    # effects inside pruned blocks of the two pruned functions do not count
    real = []
    for g, e in found:
        if g in pruned:
            fn_g = F.fns[g]
            lines = {fn_g["bbs"][b]["t"].get("ln") for b in pruned[g]}
            if e[2] in lines:
                continue
        real.append((g, e))
    r.ok("reachable set", f"{len(ws)} workspace functions reachable from eval_job_insertion_in_route under the deterministic configuration")
    if not real:
        r.ok("effects", "no RNG / clock / IO / interior-mutability / thread-local / logger effect reachable")
    seen = set()
    for g, e in real:
        key = (util.short_fn(F.root_of(g)), e[0])
        if key in seen:
            continue
        seen.add(key)
        r.fail(f"{key[0]}:{e[0]}", f"`{e[1]}` ({e[0]} effect) is reachable from insertion evaluation with deterministic selection: the result can differ between runs / thread layouts",
               F.loc(g, e[2]), path=[util.short_fn(x) for x in cg.witness(par, g)][-6:])
    n_c = len([m for m in F.trait_impl_methods(FC + "::evaluate")])
    r.ok("constraints covered", f"{n_c} FeatureConstraint::evaluate impls (StochasticFeatureConstraint excluded)")


def p2_sharing(F, r):
    n = 0
    for fid, fn in F.fns.items():
        for bi, t in mir.calls(fn):
            c = t["callee"]
            if not (c.startswith("rosomaxa::utils::parallel::") and c.split("::")[-1] in PAR_FNS):
                continue
            for a in t["args"]:
                if not mir.is_place(a):
                    continue
                for k, v, p in mir.trace(fn, a):
                    if k != "agg":
                        continue
                    rv = fn["bbs"][v[0]]["s"][v[1]]["r"]
                    if rv.get("ak") != "closure":
                        continue
                    cfn = F.fns.get(rv["n"])
                    if cfn is None:
                        continue
                    n += 1
                    inst = f"{util.short_fn(rv['n'])} -> {c.split('::')[-1]}"
                    bad = [u for u in cfn.get("upvars", []) if u[1].startswith("&mut") or adt.interior_in(u[1])]
                    if c.split("::")[-1] == "parallel_foreach_mut":
                        bad = [u for u in bad if not u[1].startswith("&mut")] if False else bad
                    if not cfn["locals"][1].startswith("&{closure") and not cfn["locals"][1].startswith("&'"):
                        r.fail(inst, f"closure passed to a parallel primitive is not a shared `Fn` (self type `{cfn['locals'][1][:40]}`): sequential state leaks between work items", F.loc(rv["n"]))
                    elif bad:
                        r.fail(inst, f"closure run in parallel captures mutable/interior-mutable state {bad[0]}", F.loc(rv["n"]))
                    else:
                        r.ok(inst, f"Fn closure, {len(cfn.get('upvars', []))} shared captures")
    if n < 5:
        raise AnchorError(f"only {n} parallel closures found")


def r1_reducer(F, r):
    fn = F.fns.get(CHOOSE)
    if fn is None:
        raise AnchorError(CHOOSE)
    ir = F.adts.get(H + "insertions::InsertionResult")
    vi = {v["n"]: i for i, v in enumerate(ir["v"])}
    for lv in ("Success", "Failure"):
        for rvv in ("Success", "Failure"):
            rels = "LEG" if lv == rvv == "Success" else "E"
            for o in rels:
                it = oe.Interp(F, CHOOSE, {1: oe.sym("left"), 2: oe.sym("right")}, rel={("left", "right"): o}, variants={"left": vi[lv], "right": vi[rvv]}, fresh=True, enum_results=True)
                for p in it.explore():
                    inst = f"choose_best_result[{lv[0]},{rvv[0]},{o}]"
                    ret = p.ret[1] if p.ret and p.ret[0] == "sym" else None
                    if ret not in ("left", "right"):
                        r.fail(inst, f"result is not one of the two arguments ({p.ret})", F.loc(CHOOSE))
                        continue
                    okk = True
                    why = ""
                    if lv == "Success" and rvv == "Failure" and ret != "left":
                        okk, why = False, "a failure is preferred over a success"
                    if lv == "Failure" and rvv == "Success" and ret != "right":
                        okk, why = False, "a failure is preferred over a success"
                    if lv == rvv == "Success":
                        if o == "L" and ret != "left":
                            okk, why = False, "the greater cost is returned"
                        if o == "G" and ret != "right":
                            okk, why = False, "the greater cost is returned"
                    if okk:
                        r.ok(inst, f"returns {ret}")
                    else:
                        r.fail(inst, f"{why}: the reduction of partial results no longer yields the minimum-cost insertion (result depends on how work is split)", F.loc(CHOOSE))
    # default select_cost: min
    sc = RS + "::select_cost"
    if sc not in F.fns:
        raise AnchorError(sc)
    for o in "LEG":
        it = oe.Interp(F, sc, {1: oe.ref(oe.sym("self")), 2: oe.ref(oe.sym("left")), 3: oe.ref(oe.sym("right"))}, rel={("left", "right"): o})
        for p in it.explore():
            inst = f"ResultSelector::select_cost[{o}]"
            side = p.ret[1].split("#")[-1] if p.ret and p.ret[0] == "agg" else None
            val = None
            if side:
                vals = list(p.ret[2].values())
                val = oe.strip_refs(vals[0])[1] if vals and oe.strip_refs(vals[0]) and oe.strip_refs(vals[0])[0] == "sym" else None
            if side == "Left" and val == "left" and o in "LE":
                r.ok(inst, "Left(left)")
            elif side == "Right" and val == "right" and o in "GE":
                r.ok(inst, "Right(right)")
            else:
                r.fail(inst, f"default cost selector does not return the smaller cost (returns {side}({val}) for left {o} right)", F.loc(sc))
    # BestResultSelector delegates with (left, right)
    bs = [m for m in F.trait_impl_methods(RS + "::select_insertion") if F.fns[m]["impl_self"].endswith("BestResultSelector")]
    if len(bs) != 1:
        raise AnchorError("BestResultSelector::select_insertion")
    bfn = F.fns[bs[0]]
    cs = [t for _, t in mir.calls(bfn) if t["callee"] == CHOOSE]
    if cs and {(k, v) for k, v, p in mir.trace(bfn, cs[0]["args"][0])} == {("arg", 3)} and {(k, v) for k, v, p in mir.trace(bfn, cs[0]["args"][1])} == {("arg", 4)}:
        r.ok("BestResultSelector::select_insertion", "choose_best_result(left, right)")
    else:
        r.fail("BestResultSelector::select_insertion", "does not delegate to choose_best_result(left, right)", F.loc(bs[0]))
    # evaluate_all wiring
    ev = [m for m in F.trait_impl_methods(H + "selectors::InsertionEvaluator::evaluate_all") if F.fns[m]["impl_self"].endswith("PositionInsertionEvaluator")]
    if len(ev) != 1:
        raise AnchorError("PositionInsertionEvaluator::evaluate_all")
    efn = F.fns[ev[0]]
    fr = [t for _, t in mir.calls(efn) if t["callee"].startswith("rosomaxa::utils::parallel::") and t["callee"].endswith("fold_reduce")]
    if not fr:
        r.fail("evaluate_all: fold_reduce", "evaluation no longer uses fold_reduce (reducer wiring not decided)", F.loc(ev[0]))
        return
    t = fr[0]
    ident = mir.trace(efn, t["args"][1])
    if any(k == "fn" and v.endswith("InsertionResult::make_failure") for k, v, p in ident):
        r.ok("evaluate_all: identity", "make_failure (neutral for choose_best_result)")
    else:
        r.fail("evaluate_all: identity", "identity of the parallel fold is not InsertionResult::make_failure", F.loc(ev[0], t["ln"]))

    def closure_of(op):
        for k, v, p in mir.trace(efn, op):
            if k == "agg":
                rv = efn["bbs"][v[0]]["s"][v[1]]["r"]
                if rv.get("ak") == "closure":
                    return rv["n"]
        return None
    red = closure_of(t["args"][3])
    fold = closure_of(t["args"][2])
    okr = False
    if red:
        rf = F.fns[red]
        for _, ct in mir.calls(rf):
            if ct["callee"] == RS + "::select_insertion":
                a = {(k, v) for k, v, p in mir.trace(rf, ct["args"][2])}
                b = {(k, v) for k, v, p in mir.trace(rf, ct["args"][3])}
                okr = a == {("arg", 2)} and b == {("arg", 3)}
    if okr:
        r.ok("evaluate_all: reducer", "result_selector.select_insertion(ctx, left, right)")
    else:
        r.fail("evaluate_all: reducer", "partial results are not reduced by result_selector.select_insertion(left, right)", F.loc(ev[0], t["ln"]))
    okf = False
    if fold:
        ff = F.fns[fold]
        for _, ct in mir.calls(ff):
            if (ct["res"] or ct["callee"]) == EVAL and len(ct["args"]) == 5:
                a = {(k, v) for k, v, p in mir.trace(ff, ct["args"][4])}
                okf = a == {("arg", 2)}
    if okf:
        r.ok("evaluate_all: fold", "accumulator threaded as the `alternative` of eval_job_insertion_in_route")
    else:
        r.fail("evaluate_all: fold", "the fold step does not pass its accumulator as the alternative: earlier results of the chunk are dropped", F.loc(ev[0], t["ln"]))


def a1_accumulator_threaded(F, r):
    """the fold step of insertion evaluation never drops the best result found so far: every value it returns is the incoming `alternative` or the selector's
    choice between the alternative and a new candidate"""
    ev = F.find1("evaluators::eval_job_insertion_in_route")
    fn = F.fns[ev]
    alt = [int(k) for k, v in fn["names"].items() if v == "alternative" and int(k) <= fn["argc"]]
    if not alt:
        alt = [i for i in range(1, fn["argc"] + 1) if fn["locals"][i].endswith("InsertionResult")]
    if len(alt) != 1:
        raise AnchorError("eval_job_insertion_in_route: the incoming best-so-far parameter was not found")
    alt = alt[0]
    defs = mir.defs(fn).get(0, [])
    if not defs:
        raise AnchorError("eval_job_insertion_in_route: no definition of the return value")
    n = 0
    for d in defs:
        n += 1
        if d[0] == "s":
            st = d[3]
            ok = st["r"]["k"] == "use" and any(k == "arg" and v == alt and not p for k, v, p in mir.trace(fn, st["r"]["o"][0], through_calls=()))
            ln = st.get("ln")
            what = "returns the incoming alternative unchanged"
        else:
            t = d[2]
            ok = t["callee"].endswith("::select_insertion") and any(any(k == "arg" and v == alt and not p for k, v, p in mir.trace(fn, a, through_calls=())) for a in t["args"])
            ln = t["ln"]
            what = "selector's choice between the alternative and the new candidate"
        inst = f"eval_job_insertion_in_route: return#{n}"
        if ok:
            r.ok(inst, what)
        else:
            r.fail(inst, "this exit returns a result that does not involve the incoming `alternative`: the best insertion found so far in the same fold chunk is dropped, so the outcome depends on "
                   "how (route, job) pairs are split over threads", F.loc(ev, ln))


def n1_cpus_independent_of_layout(F, r):
    """the CPU count that sizes populations / selections does not depend on the thread-pool layout (non-interference in Parallelism::new)"""
    PN = "rosomaxa::utils::environment::Parallelism"
    ctors = [i for i in F.fns if i.startswith(PN + "::new") and F.fns[i]["kind"] != "Closure" and "::promoted[" not in i and i.split("::")[-1] == "new"]
    if len(ctors) != 1:
        raise AnchorError(f"Parallelism::new resolves to {ctors}")
    fn = F.fns[ctors[0]]
    aggs = [st for _, _, st in mir.stmts(fn) if st["r"]["k"] == "agg" and st["r"].get("n", "").startswith(PN + "#")]
    if not aggs:
        raise AnchorError("Parallelism::new: no construction")
    for st in aggs:
        fs = st["r"].get("fs") or []
        if "available_cpus" not in fs:
            raise AnchorError("Parallelism.available_cpus")
        o = st["r"]["o"][fs.index("available_cpus")]
        leaves, calls = mir.deep_leaves(fn, o)
        dep = sorted({fn["names"].get(str(v), f"arg{v}") for k, v, p in leaves if k == "arg"})
        if dep:
            r.fail("Parallelism::new: available_cpus", f"the reported CPU count depends on the pool layout ({', '.join(dep)}): population and selection sizes — and with a zero product the "
                   "very construction of the solver — vary with the parallelism configuration", F.loc(ctors[0], st.get("ln")))
        elif any(c.endswith("get_cpus") for c in calls):
            r.ok("Parallelism::new: available_cpus", "get_cpus() only: independent of (num_thread_pools, threads_per_pool)")
        else:
            r.fail("Parallelism::new: available_cpus", "the reported CPU count no longer comes from get_cpus()", F.loc(ctors[0], st.get("ln")))


def run(ctx):
    ctx.explanation = (
        "Effect reachability over the CHA call graph from eval_job_insertion_in_route under the deterministic configuration (BestResultSelector, "
        "exhaustive leg selection proved by evaluating get_sample_data over the enum variant, stochastic constraint wrapper excluded): no RNG, clock, "
        "IO, interior-mutability, thread-local or logger effect; closures handed to the parallel primitives are shared Fn closures without mutable "
        "captures; the reducer choose_best_result / select_cost is evaluated exhaustively over {Success,Failure}^2 x {<,=,>} and returns a success "
        "whenever one exists and never the greater cost; evaluate_all wires make_failure / select_insertion / accumulator correctly.")
    ctx.not_decided = "order-insensitivity of the cost-based pruning inside eval_job_insertion_in_route; validity of full runs under every layout (C01-C03)."
    ctx.assumptions += ["calls through stored Arc<dyn Fn> fields (feature closures) are not followed", "rayon executes Fn closures without hidden state",
                        "ties between equal-cost successes may be resolved differently per layout (property speaks about the cost vector)"]
    ctx.run("C15-P1", "purity: no nondeterministic effect reachable from insertion evaluation under the deterministic configuration", p1_purity, floor=4)
    ctx.run("C15-P2", "closures run by parallel primitives are shared Fn closures without mutable or interior-mutable captures", p2_sharing, floor=5)
    ctx.run("C15-N1", "the CPU count used for sizing is independent of the pool layout", n1_cpus_independent_of_layout, floor=1)
    ctx.run("C15-A1", "the fold step never drops the best-so-far: every exit returns the alternative or select_insertion(alternative, candidate)", a1_accumulator_threaded, floor=3)
    try:
        from . import c09
        ctx.run("C09-I1", "the reducer's cost order is a total order (lexicographic fold of total_cmp): needed for an associative, split-independent reduction", c09.i1_insertion_cost_order, floor=9)
    except (ImportError, AttributeError):
        pass
    ctx.run("C15-R1", "reducer returns a success whenever one exists and a minimal-cost one of two successes; evaluate_all wiring", r1_reducer, floor=14)
