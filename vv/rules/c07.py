"""C07 — interrupting the solver at any moment still yields a valid solution (structural clauses)."""
from .. import cg, mir, util
from .. import ordeval as oe
from ..facts import AnchorError

TERM = "rosomaxa::termination::Termination"
QUOTA = "rosomaxa::utils::environment::Quota::is_reached"
STRAT = "rosomaxa::evolution::strategies::EvolutionStrategy::run"
HH = "rosomaxa::hyper::HyperHeuristic::"
PROCESS = "vrp_core::construction::heuristics::insertions::InsertionHeuristic::process"
FINALIZE = "vrp_core::construction::heuristics::insertions::finalize_insertion_ctx"
EVALUATE_ALL = "vrp_core::construction::heuristics::selectors::InsertionEvaluator::evaluate_all"
POLL_ANCHORS = ("Iterative", "InsertionHeuristic::process", "DecomposeSearch::refine_decomposed", "exchange_swap_star::try_exchange_jobs_in_routes")


def _quota_poll_blocks(F, fn):
    """blocks of fn where the quota is polled: direct call or a call taking a closure that calls Quota::is_reached"""
    out = []
    for bi, t in mir.calls(fn):
        if t["callee"] == QUOTA or mir.closure_arg_calls(F, fn, t, lambda c: c == QUOTA):
            out.append(bi)
    return out


def l1_loop_guard(F, r):
    impls = [m for m in F.trait_impl_methods(STRAT) if m != STRAT]
    if not impls:
        raise AnchorError("no EvolutionStrategy::run impl")
    for m in impls:
        fn = F.fns[m]
        name = util.short_fn(m)
        S = [bi for bi, t in mir.calls(fn) if t["callee"] in (HH + "search_many", HH + "diversify_many")]
        T = [bi for bi, t in mir.calls(fn) if t["callee"] == TERM + "::is_termination"]
        Q = _quota_poll_blocks(F, fn)
        if not S:
            r.fail(name, "strategy does not call search_many/diversify_many (anchor changed)", F.loc(m))
            continue
        for kind, G in (("termination", T), ("quota", Q)):
            if not G:
                r.fail(f"{name}: {kind}", f"evolution loop does not poll the {kind} at all", F.loc(m))
                continue
            for sb in S:
                callee = fn["bbs"][sb]["t"]["callee"].split("::")[-1]
                inst = f"{name}: {kind} before {callee}"
                first = sb not in mir.reach(fn, [0], blocked=G)
                per_iter = sb not in mir.reach_from_succs(fn, sb, blocked=G)
                # a positive poll must leave the loop: the search is not reachable from the True edge without a new poll
                exits = True
                for g in G:
                    for sw in mir.switches_on_call(fn, g):
                        if sb in mir.reach(fn, [sw[True][1]], blocked=G):
                            exits = False
                    if not mir.switches_on_call(fn, g):
                        exits = False
                if first and per_iter and exits:
                    r.ok(inst, "polled before the search in every iteration; a positive poll leaves the loop")
                elif not first:
                    r.fail(inst, f"the first generation can start without checking the {kind} (k = 0 quota / zero generations not honoured)", F.loc(m, fn["bbs"][sb]["t"]["ln"]))
                elif not per_iter:
                    r.fail(inst, f"a further generation can start without re-checking the {kind}: the loop runs one generation more than allowed (check moved to the end of the body?)", F.loc(m, fn["bbs"][sb]["t"]["ln"]))
                else:
                    r.fail(inst, f"a positive {kind} poll does not prevent the next search call", F.loc(m, fn["bbs"][sb]["t"]["ln"]))
    # MaxGeneration::is_termination by E-C: terminates iff generation >= limit
    mg = [m for m in F.trait_impl_methods(TERM + "::is_termination") if "MaxGeneration" in F.fns[m]["impl_self"]]
    if len(mg) != 1:
        raise AnchorError("MaxGeneration::is_termination")
    it = oe.Interp(F, mg[0], {1: oe.ref(oe.sym("self")), 2: oe.ref(oe.sym("ctx"))}, heap={("self", "limit"): oe.sym("limit")}, fresh=True)
    n = 0
    for p in it.explore():
        rel = [a for a in p.assumptions if len(a) == 3 and a[2] in "LEG"]
        if not rel:
            r.fail("MaxGeneration::is_termination", f"not a comparison of the generation counter with the limit (returns {p.ret}, not decidable)", F.loc(mg[0]))
            continue
        a, b, o = rel[0]
        if "limit" in a and "limit" not in b:
            o = oe.rev(o)
        n += 1
        inst = f"MaxGeneration::is_termination[generation {'<=>'['LEG'.index(o)]} limit]"
        want = o in "GE"
        if p.ret == ("bool", want):
            r.ok(inst, f"returns {want}")
        else:
            r.fail(inst, f"returns {p.ret} — with `>` instead of `>=` the solver runs limit+1 generations; with `<` it never starts", F.loc(mg[0]))
    # CompositeTermination: any criterion terminates
    ct = [m for m in F.trait_impl_methods(TERM + "::is_termination") if "CompositeTermination" in F.fns[m]["impl_self"]]
    if len(ct) != 1:
        raise AnchorError("CompositeTermination::is_termination")
    cf = F.fns[ct[0]]
    anyc = [t for _, t in mir.calls(cf) if t["callee"].endswith("Iterator::any") and mir.closure_arg_calls(F, cf, t, lambda c: c == TERM + "::is_termination")]
    if anyc:
        r.ok("CompositeTermination::is_termination", "any(criterion.is_termination)")
    else:
        r.fail("CompositeTermination::is_termination", "composite no longer terminates as soon as ANY criterion fires: a max-generations/max-time limit can be overrun when combined with another criterion", F.loc(ct[0]))


def f1_finalize_after_quota(F, r):
    fn = F.fns.get(PROCESS)
    if fn is None:
        raise AnchorError(PROCESS)
    fin = [bi for bi, t in mir.calls(fn) if t["callee"] == FINALIZE]
    rets = set(mir.ret_blocks(fn))
    if fin and not (rets & mir.reach(fn, [0], blocked=fin)):
        r.ok("process: finalize", "every path to return passes finalize_insertion_ctx")
    else:
        r.fail("process: finalize", "a path returns from the insertion loop without finalize_insertion_ctx: jobs still `required` are neither assigned nor reported unassigned, caches not accepted", F.loc(PROCESS))
    ev = [bi for bi, t in mir.calls(fn) if t["callee"] == EVALUATE_ALL]
    Q = _quota_poll_blocks(F, fn)
    if not ev:
        r.fail("process: loop", "no evaluate_all call (anchor changed)", F.loc(PROCESS))
    elif not Q:
        r.fail("process: quota", "insertion loop does not poll the quota: construction of a large problem cannot be interrupted", F.loc(PROCESS))
    else:
        for e in ev:
            first = e not in mir.reach(fn, [0], blocked=Q)
            per = e not in mir.reach_from_succs(fn, e, blocked=Q)
            if first and per:
                r.ok("process: quota", "quota polled before every insertion round")
            else:
                r.fail("process: quota", "an insertion round can start without polling the quota", F.loc(PROCESS))
    # finalize moves leftovers to unassigned
    fu = F.find1("insertions::finalize_unassigned")
    fam = F.family(fu)
    drains = ext = False
    for f_ in fam:
        for _, t in mir.calls(F.fns[f_]):
            last = t["callee"].split("::")[-1]
            if last == "drain" and t["args"] and any(p[-1:] == ("required",) for k, v, p in mir.trace(F.fns[f_], t["args"][0])):
                drains = True
            if last == "extend" and t["args"] and any(p[-1:] == ("unassigned",) for k, v, p in mir.trace(F.fns[f_], t["args"][0])):
                ext = True
    ffn = F.fns[FINALIZE]
    calls_fu = any((t["res"] or t["callee"]) == fu for _, t in mir.calls(ffn))
    if drains and ext and calls_fu:
        r.ok("finalize_unassigned", "required.drain(..) -> unassigned.extend(..), called from finalize_insertion_ctx")
    else:
        r.fail("finalize_unassigned", "leftover required jobs are not moved into `unassigned` at finalize", F.loc(fu))


def _term_at(fn, ln, callee):
    for bi, t in mir.calls(fn):
        if t["ln"] == ln and t["callee"] == callee:
            return t
    return {"args": []}


def q1_poll_inventory(F, r):
    pollers = set()
    for fid, fn in F.fns.items():
        if any(t["callee"] == QUOTA for _, t in mir.calls(fn)):
            pollers.add(util.short_fn(F.root_of(fid)))
    for a in POLL_ANCHORS:
        hit = [p for p in pollers if a in p]
        if hit:
            r.ok(f"poll in {a}", hit[0])
        else:
            r.fail(f"poll in {a}", "long-running loop no longer polls Quota::is_reached: interruption is not honoured inside this step", None)
    # quota wrappers keep the wrapped quota
    for m in F.trait_impl_methods(QUOTA):
        fn = F.fns[m]
        self_adt = F.adts.get(fn["impl_self"].split("<")[0])
        if not self_adt:
            continue
        inner = [f["n"] for f in self_adt["v"][0]["f"] if "dyn rosomaxa::utils::environment::Quota" in f["ty"]]
        if not inner:
            r.skip()
            continue
        # lines of calls that poll the wrapped quota (directly or through a closure argument)
        poll_lines = {t["ln"] for bi, t in mir.calls(fn) if t["callee"] == QUOTA or mir.closure_arg_calls(F, fn, t, lambda c: c == QUOTA)}
        it = oe.Interp(F, m, {1: oe.ref(oe.sym("self"))}, fresh=True, enum_results=True)
        ok = bool(poll_lines)
        for p in it.explore():
            polls = [a for a in p.assumptions if a[0] == "callret" and a[4] in poll_lines and a[3] and (a[3] == QUOTA or mir.closure_arg_calls(F, fn, _term_at(fn, a[4], a[3]), lambda c: c == QUOTA))]
            inner_true = any(a[2] is True for a in polls)
            if p.ret == ("bool", False) and not polls:
                ok = False
            if inner_true and p.ret != ("bool", True):
                ok = False
        name = util.short_fn(m)
        if ok:
            r.ok(name, "reached whenever the wrapped quota is reached")
        else:
            r.fail(name, "quota wrapper can answer `not reached` without consulting (or against) the wrapped user quota: external cancellation is lost", F.loc(m))
    ce = F.find1("termination::create_environment_with_custom_quota")
    fn = F.fns[ce]
    envs = [(bi, si, s) for bi, si, s in mir.stmts(fn) if s["r"]["k"] == "agg" and s["r"].get("n", "").endswith("Environment#Environment")]
    if not envs:
        r.fail("create_environment_with_custom_quota", "no Environment construction found", F.loc(ce))
    for bi, si, s in envs:
        o = s["r"]["o"][s["r"]["fs"].index("quota")]
        leaves, _ = mir.deep_leaves(fn, o)
        if any(k == "arg" and v == 2 and "quota" in p for k, v, p in leaves):
            r.ok("create_environment_with_custom_quota", "new quota derives from the environment's quota")
        else:
            r.fail("create_environment_with_custom_quota", "the derived environment drops the caller's quota (inner searches can no longer be cancelled)", F.loc(ce, s["ln"]))


def t1_estimates_clamped(F, r):
    for m in F.trait_impl_methods(TERM + "::estimate"):
        fn = F.fns[m]
        name = util.short_fn(m)
        roots = mir.trace(fn, {"l": 0, "p": []}, through_calls=())
        good = True
        why = []
        for k, v, p in roots:
            if k == "const":
                try:
                    val = float(str(v).replace("f64", "").replace("_", ""))
                    good = good and 0.0 <= val <= 1.0
                    why.append(f"literal {val}")
                except ValueError:
                    good = False
            elif k == "call":
                t = fn["bbs"][v]["t"]
                last = t["callee"].split("::")[-1]
                if last == "min" and any(mir.is_const(a) and str(a["c"]).startswith("1") for a in t["args"]):
                    why.append("min(_, 1.0)")
                elif last == "clamp":
                    why.append("clamp")
                elif last in ("unwrap_or_default", "unwrap_or"):
                    # max of other estimates
                    leaves, crossed = mir.deep_leaves(fn, t["args"][0])
                    if any(c.endswith("max_by") or c.endswith("Iterator::max") or c.endswith("fold") for c in crossed) and \
                            any(mir.closure_arg_calls(F, fn, tt, lambda c: c == TERM + "::estimate") for _, tt in mir.calls(fn)):
                        why.append("max of member estimates")
                    else:
                        good = False
                else:
                    good = False
            else:
                good = False
        if good and why:
            r.ok(name, ", ".join(why))
        else:
            r.fail(name, "termination estimate is not a literal in [0,1], a value clamped by min(_, 1.0)/clamp, or the max of member estimates: progress can leave [0,1] (drives phase switching and learning rates)", F.loc(m))


def r1_solve_result(F, r):
    sv = F.find1("vrp_core::solver::Solver::solve")
    fn = F.fns[sv]
    has_err = any(t["callee"].endswith("ok_or_else") or t["callee"].endswith("ok_or") for _, t in mir.calls(fn))
    conv = any("InsertionContext" in " ".join(t["ga"]) and t["callee"].endswith("Into::into") for _, t in mir.calls(fn)) or any(t["callee"].endswith("From::from") for _, t in mir.calls(fn))
    if has_err:
        r.ok("Solver::solve: empty", "an empty result is mapped to Err")
    else:
        r.fail("Solver::solve: empty", "empty population not mapped to an error (would panic or return garbage)", F.loc(sv))
    if conv:
        r.ok("Solver::solve: conversion", "first ranked individual converted through Solution::from (reports required + unassigned)")
    else:
        r.fail("Solver::solve: conversion", "result not produced by Solution::from(InsertionContext)", F.loc(sv))


def run(ctx):
    ctx.explanation = (
        "Loop-guard analysis on MIR: in every EvolutionStrategy::run the termination criterion and the quota are polled before the search of every "
        "generation (entry and per-iteration must-pass; a positive poll leaves the loop), MaxGeneration fires iff generation >= limit (evaluated over "
        "<,=,>), composite criteria fire on ANY member; InsertionHeuristic::process polls the quota every round and every path to return passes "
        "finalize_insertion_ctx which moves leftovers to unassigned; the four long-running loops still poll the quota and quota wrappers keep the "
        "wrapped quota; termination estimates are clamped; Solver::solve maps an empty result to Err.")
    ctx.not_decided = "validity of the returned solution itself (C01-C03 value-level), wall-clock timing."
    ctx.assumptions += ["Quota implementations outside the workspace are monotone", "closures are analysed at their construction site"]
    ctx.run("C07-L1", "termination and quota are checked before every generation; MaxGeneration/Composite semantics", l1_loop_guard, floor=7)
    ctx.run("C07-F1", "insertion loop polls the quota each round and always finalizes (leftovers -> unassigned)", f1_finalize_after_quota, floor=3)
    ctx.run("C07-Q1", "quota poll inventory; quota wrappers and derived environments keep the user's quota", q1_poll_inventory, floor=5)
    ctx.run("C07-T1", "termination estimates stay within [0,1] by construction", t1_estimates_clamped, floor=5)
    ctx.run("C07-R1", "Solver::solve maps an empty result to Err and converts through Solution::from", r1_solve_result, floor=2)
