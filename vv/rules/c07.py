"""C07 — interrupting the solver at any moment still yields a valid solution (structural clauses)."""
from .. import cg, mir, util
from .. import ordeval as oe
from ..facts import AnchorError

TERM = "rosomaxa::termination::Termination"
QUOTA = "rosomaxa::utils::environment::Quota::is_reached"
STRAT = "rosomaxa::evolution::strategies::EvolutionStrategy::run"
HH = "rosomaxa::hyper::HyperHeuristic::"
PROCESS = "vrp_core::construction::heuristics::insertions::InsertionHeuristic::process"
FINALIZE = "vrp_core::construction::heuristics::insertions::finalize_insertion_ctx"
EVALUATE_ALL = "vrp_core::construction::heuristics::selectors::InsertionEvaluator::evaluate_all"
POLL_ANCHORS = ("Iterative", "InsertionHeuristic::process", "DecomposeSearch::refine_decomposed", "exchange_swap_star::try_exchange_jobs_in_routes")


def _quota_poll_blocks(F, fn):
    """blocks of fn where the quota is polled: direct call or a call taking a closure that calls Quota::is_reached"""
    out = []
    for bi, t in mir.calls(fn):
        if t["callee"] == QUOTA or mir.closure_arg_calls(F, fn, t, lambda c: c == QUOTA):
            out.append(bi)
    return out


def _composite_loop_form(F, r, m):
    """CompositeTermination::is_termination written as a loop: evaluated over 0, 1 and 2 member criteria (Iterator::next as a finite script, each member's answer enumerated)"""
    for length in (0, 1, 2):
        state = {"i": 0}

        def nxt(i_, a, h, rl, state=state, length=length):
            state["i"] += 1
            return oe.some(oe.ref(oe.sym(f"member{state['i']}"))) if state["i"] <= length else oe.NONE
        it = oe.Interp(F, m, {1: oe.ref(oe.sym("self")), 2: oe.ref(oe.sym("ctx"))}, fresh=True, enum_results=True, max_steps=3000, call_models={"Iterator::next": nxt})
        orig = it._run

        def run(choices, orig=orig, state=state):
            state["i"] = 0
            return orig(choices)
        it._run = run
        try:
            paths = it.explore(max_paths=200)
        except oe.Undecided as e:
            r.ok("CompositeTermination::is_termination", f"not decided: the loop form is not evaluable ({e})")
            return
        for p in paths:
            ans = [a[2] for a in p.assumptions if a[0] == "callret" and a[3] and a[3].endswith("::is_termination")]
            want = any(ans)
            inst = f"CompositeTermination::is_termination [{length} member(s): " + ",".join("fires" if x else "silent" for x in ans) + "]"
            if p.ret == ("bool", want) and (want or len(ans) == length):
                r.ok(inst, "terminates" if want else "continues")
            else:
                r.fail(inst, f"answers {p.ret} after asking {len(ans)} of {length} member(s): the composite must terminate as soon as ANY criterion fires and only then", F.loc(m))


def l1_loop_guard(F, r):
    impls = [m for m in F.trait_impl_methods(STRAT) if m != STRAT]
    if not impls:
        raise AnchorError("no EvolutionStrategy::run impl")
    for m in impls:
        fn = F.fns[m]
        name = util.short_fn(m)
        S = [bi for bi, t in mir.calls(fn) if t["callee"] in (HH + "search_many", HH + "diversify_many")]
        T = [bi for bi, t in mir.calls(fn) if t["callee"] == TERM + "::is_termination"]
        Q = _quota_poll_blocks(F, fn)
        if not S:
            r.fail(name, "strategy does not call search_many/diversify_many (anchor changed)", F.loc(m))
            continue
        for kind, G in (("termination", T), ("quota", Q)):
            if not G:
                r.fail(f"{name}: {kind}", f"evolution loop does not poll the {kind} at all", F.loc(m))
                continue
            for sb in S:
                callee = fn["bbs"][sb]["t"]["callee"].split("::")[-1]
                inst = f"{name}: {kind} before {callee}"
                first = sb not in mir.reach(fn, [0], blocked=G)
                per_iter = sb not in mir.reach_from_succs(fn, sb, blocked=G)
                # a positive poll must leave the loop: the search is not reachable from the True edge without a new poll
                exits = True
                for g in G:
                    for sw in mir.switches_on_call(fn, g):
                        if sb in mir.reach(fn, [sw[True][1]], blocked=G):
                            exits = False
                    if not mir.switches_on_call(fn, g):
                        exits = False
                if first and per_iter and exits:
                    r.ok(inst, "polled before the search in every iteration; a positive poll leaves the loop")
                elif not first:
                    r.fail(inst, f"the first generation can start without checking the {kind} (k = 0 quota / zero generations not honoured)", F.loc(m, fn["bbs"][sb]["t"]["ln"]))
                elif not per_iter:
                    r.fail(inst, f"a further generation can start without re-checking the {kind}: the loop runs one generation more than allowed (check moved to the end of the body?)", F.loc(m, fn["bbs"][sb]["t"]["ln"]))
                else:
                    r.fail(inst, f"a positive {kind} poll does not prevent the next search call", F.loc(m, fn["bbs"][sb]["t"]["ln"]))
    # MaxGeneration::is_termination by E-C: terminates iff generation >= limit
    mg = [m for m in F.trait_impl_methods(TERM + "::is_termination") if "MaxGeneration" in F.fns[m]["impl_self"]]
    if len(mg) != 1:
        raise AnchorError("MaxGeneration::is_termination")
    it = oe.Interp(F, mg[0], {1: oe.ref(oe.sym("self")), 2: oe.ref(oe.sym("ctx"))}, heap={("self", "limit"): oe.sym("limit")}, fresh=True)
    n = 0
    for p in it.explore():
        rel = [a for a in p.assumptions if len(a) == 3 and isinstance(a[2], str) and a[2] in "LEG" and a[0] != "switch"]
        if not rel:
            r.fail("MaxGeneration::is_termination", f"not a comparison of the generation counter with the limit (returns {p.ret}, not decidable)", F.loc(mg[0]))
            continue
        a, b, o = rel[0]
        if "limit" in a and "limit" not in b:
            o = oe.rev(o)
        n += 1
        inst = f"MaxGeneration::is_termination[generation {'<=>'['LEG'.index(o)]} limit]"
        want = o in "GE"
        if p.ret == ("bool", want):
            r.ok(inst, f"returns {want}")
        else:
            r.fail(inst, f"returns {p.ret} — with `>` instead of `>=` the solver runs limit+1 generations; with `<` it never starts", F.loc(mg[0]))
    # MaxTime::is_termination by E-C: fires when the elapsed time exceeds the limit, never before it
    mt = [m for m in F.trait_impl_methods(TERM + "::is_termination") if "MaxTime" in F.fns[m]["impl_self"]]
    if len(mt) != 1:
        raise AnchorError("MaxTime::is_termination")
    it = oe.Interp(F, mt[0], {1: oe.ref(oe.sym("self")), 2: oe.ref(oe.sym("ctx"))}, heap={("self", "limit_in_secs"): oe.sym("limit")}, fresh=True,
                   call_models={"::elapsed_secs_as_float": lambda i_, a, h, rl: oe.sym("elapsed")})
    n = 0
    for p in it.explore():
        rel = [a for a in p.assumptions if len(a) == 3 and isinstance(a[2], str) and a[2] in "LEG" and a[0] != "switch"]
        if not rel:
            r.fail("MaxTime::is_termination", f"not a comparison of the elapsed time with the limit (returns {p.ret})", F.loc(mt[0]))
            continue
        a, b, o = rel[0]
        if "limit" in a and "limit" not in b:
            o = oe.rev(o)
        n += 1
        inst = f"MaxTime::is_termination[elapsed {'<=>'['LEG'.index(o)]} limit]"
        if o == "E" or p.ret == ("bool", o == "G"):
            r.ok(inst, f"returns {p.ret[1] if p.ret else p.ret}")
        else:
            r.fail(inst, f"returns {p.ret}: the time limit fires before it is reached or never fires after it", F.loc(mt[0]))
    if n < 3:
        r.fail("MaxTime::is_termination: coverage", f"only {n} orderings explored", F.loc(mt[0]))
    # CompositeTermination: any criterion terminates
    ct = [m for m in F.trait_impl_methods(TERM + "::is_termination") if "CompositeTermination" in F.fns[m]["impl_self"]]
    if len(ct) != 1:
        raise AnchorError("CompositeTermination::is_termination")
    cf = F.fns[ct[0]]
    anyc = [t for _, t in mir.calls(cf) if t["callee"].endswith("Iterator::any") and mir.closure_arg_calls(F, cf, t, lambda c: c == TERM + "::is_termination")]
    if anyc:
        r.ok("CompositeTermination::is_termination", "any(criterion.is_termination)")
    elif any(t["callee"].endswith("Iterator::next") for _, t in mir.calls(cf)):
        _composite_loop_form(F, r, ct[0])
    else:
        r.fail("CompositeTermination::is_termination", "composite no longer terminates as soon as ANY criterion fires: a max-generations/max-time limit can be overrun when combined with another criterion", F.loc(ct[0]))


def f1_finalize_after_quota(F, r):
    fn = F.fns.get(PROCESS)
    if fn is None:
        raise AnchorError(PROCESS)
    fin = [bi for bi, t in mir.calls(fn) if t["callee"] == FINALIZE]
    rets = set(mir.ret_blocks(fn))
    if fin and not (rets & mir.reach(fn, [0], blocked=fin)):
        r.ok("process: finalize", "every path to return passes finalize_insertion_ctx")
    else:
        r.fail("process: finalize", "a path returns from the insertion loop without finalize_insertion_ctx: jobs still `required` are neither assigned nor reported unassigned, caches not accepted", F.loc(PROCESS))
    ev = [bi for bi, t in mir.calls(fn) if t["callee"] == EVALUATE_ALL]
    Q = _quota_poll_blocks(F, fn)
    if not ev:
        r.fail("process: loop", "no evaluate_all call (anchor changed)", F.loc(PROCESS))
    elif not Q:
        r.fail("process: quota", "insertion loop does not poll the quota: construction of a large problem cannot be interrupted", F.loc(PROCESS))
    else:
        for e in ev:
            first = e not in mir.reach(fn, [0], blocked=Q)
            per = e not in mir.reach_from_succs(fn, e, blocked=Q)
            if first and per:
                r.ok("process: quota", "quota polled before every insertion round")
            else:
                r.fail("process: quota", "an insertion round can start without polling the quota", F.loc(PROCESS))
    # finalize moves leftovers to unassigned
    fu = F.find1("insertions::finalize_unassigned")
    fam = F.family(fu)
    drains = ext = False
    for f_ in fam:
        for _, t in mir.calls(F.fns[f_]):
            last = t["callee"].split("::")[-1]
            if last == "drain" and t["args"] and any(p[-1:] == ("required",) for k, v, p in mir.trace(F.fns[f_], t["args"][0])):
                drains = True
            if last == "extend" and t["args"] and any(p[-1:] == ("unassigned",) for k, v, p in mir.trace(F.fns[f_], t["args"][0])):
                ext = True
    ffn = F.fns[FINALIZE]
    calls_fu = any((t["res"] or t["callee"]) == fu for _, t in mir.calls(ffn))
    if drains and ext and calls_fu:
        r.ok("finalize_unassigned", "required.drain(..) -> unassigned.extend(..), called from finalize_insertion_ctx")
    else:
        r.fail("finalize_unassigned", "leftover required jobs are not moved into `unassigned` at finalize", F.loc(fu))


def _term_at(fn, ln, callee):
    for bi, t in mir.calls(fn):
        if t["ln"] == ln and t["callee"] == callee:
            return t
    return {"args": []}


def q1_poll_inventory(F, r):
    pollers = set()
    for fid, fn in F.fns.items():
        if any(t["callee"] == QUOTA for _, t in mir.calls(fn)):
            pollers.add(util.short_fn(F.root_of(fid)))
    for a in POLL_ANCHORS:
        hit = [p for p in pollers if a in p]
        if hit:
            r.ok(f"poll in {a}", hit[0])
        else:
            r.fail(f"poll in {a}", "long-running loop no longer polls Quota::is_reached: interruption is not honoured inside this step", None)
    # quota wrappers keep the wrapped quota
    for m in F.trait_impl_methods(QUOTA):
        fn = F.fns[m]
        self_adt = F.adts.get(fn["impl_self"].split("<")[0])
        if not self_adt:
            continue
        inner = [f["n"] for f in self_adt["v"][0]["f"] if "dyn rosomaxa::utils::environment::Quota" in f["ty"]]
        if not inner:
            r.skip()
            continue
        # lines of calls that poll the wrapped quota (directly or through a closure argument)
        poll_lines = {t["ln"] for bi, t in mir.calls(fn) if t["callee"] == QUOTA or mir.closure_arg_calls(F, fn, t, lambda c: c == QUOTA)}
        it = oe.Interp(F, m, {1: oe.ref(oe.sym("self"))}, fresh=True, enum_results=True)
        ok = bool(poll_lines)
        for p in it.explore():
            polls = [a for a in p.assumptions if a[0] == "callret" and a[4] in poll_lines and a[3] and (a[3] == QUOTA or mir.closure_arg_calls(F, fn, _term_at(fn, a[4], a[3]), lambda c: c == QUOTA))]
            inner_true = any(a[2] is True for a in polls)
            absent = any(a[0] == "optional" and a[2] is False and any(a[1].endswith("." + f) or a[1] == f for f in inner) for a in p.assumptions)
            if absent:
                continue          # no wrapped quota configured on this path (Option::None): nothing to consult
            if p.ret == ("bool", False) and not polls:
                ok = False
            if inner_true and p.ret != ("bool", True):
                ok = False
        name = util.short_fn(m)
        if ok:
            r.ok(name, "reached whenever the wrapped quota is reached")
        else:
            r.fail(name, "quota wrapper can answer `not reached` without consulting (or against) the wrapped user quota: external cancellation is lost", F.loc(m))
    ce = F.find1("termination::create_environment_with_custom_quota")
    fn = F.fns[ce]
    envs = [(bi, si, s) for bi, si, s in mir.stmts(fn) if s["r"]["k"] == "agg" and s["r"].get("n", "").endswith("Environment#Environment")]
    if not envs:
        r.fail("create_environment_with_custom_quota", "no Environment construction found", F.loc(ce))
    for bi, si, s in envs:
        o = s["r"]["o"][s["r"]["fs"].index("quota")]
        leaves, _ = mir.deep_leaves(fn, o)
        if any(k == "arg" and v == 2 and "quota" in p for k, v, p in leaves):
            r.ok("create_environment_with_custom_quota", "new quota derives from the environment's quota")
        else:
            r.fail("create_environment_with_custom_quota", "the derived environment drops the caller's quota (inner searches can no longer be cancelled)", F.loc(ce, s["ln"]))


def t1_estimates_clamped(F, r):
    from .. import signs
    need_sign = []
    # lower bound by sign analysis; assumptions: configured limits are positive (the property speaks about positive limits), elapsed time is >= 0
    inv = {("rosomaxa::termination::max_time::MaxTime", "limit_in_secs"): signs.num(signs.POS), ("rosomaxa::termination::max_generation::MaxGeneration", "limit"): signs.num(signs.POS)}
    E = signs.Engine(F, inv, {"::elapsed_secs_as_float": lambda e, a, vn: signs.num(signs.NONNEG, None, vn), "::as_secs_f64": lambda e, a, vn: signs.num(signs.NONNEG, None, vn)})
    for m in F.trait_impl_methods(TERM + "::estimate"):
        fn = F.fns[m]
        name = util.short_fn(m)
        roots = mir.trace(fn, {"l": 0, "p": []}, through_calls=())
        good = True
        why = []
        for k, v, p in roots:
            if k == "const":
                try:
                    val = float(str(v).replace("f64", "").replace("_", ""))
                    good = good and 0.0 <= val <= 1.0
                    why.append(f"literal {val}")
                except ValueError:
                    good = False
            elif k == "call":
                t = fn["bbs"][v]["t"]
                last = t["callee"].split("::")[-1]
                consts = [signs.parse_const(a) for a in t["args"] if mir.is_const(a)]
                if last == "min" and consts and all(c is not None and 0.0 <= c <= 1.0 for c in consts):
                    why.append(f"min(_, {consts[0]})")
                    need_sign.append(m)
                elif last == "clamp" and len(consts) == 2 and all(c is not None and 0.0 <= c <= 1.0 for c in consts):
                    why.append(f"clamp({consts[0]}, {consts[1]})")
                    # f64::clamp propagates NaN (f64::min / max absorb it): a ratio whose divisor can be zero must not be clamped
                    E0 = signs.Engine(F, {}, {"::elapsed_secs_as_float": lambda e, a, vn: signs.num(signs.NONNEG, None, vn), "::as_secs_f64": lambda e, a, vn: signs.num(signs.NONNEG, None, vn)})
                    hz = [h for h in E0.analyse(m).hazards if h.kind == "div-by-zero"]
                    if hz:
                        good = False
                        r.fail(name + ": NaN", "the progress ratio can be 0/0 (limit 0 at generation / time 0, as polled while the initial solutions are built) and f64::clamp propagates the NaN — "
                               "f64::min(_, 1.) absorbs it: the estimate leaves [0,1] and, being maximal under total_cmp, wins the composite estimate", F.loc(m, hz[0].ln))
                        continue
                elif last in ("unwrap_or_default", "unwrap_or"):
                    # max of other estimates
                    leaves, crossed = mir.deep_leaves(fn, t["args"][0])
                    if any(c.endswith("max_by") or c.endswith("Iterator::max") or c.endswith("fold") for c in crossed) and \
                            any(mir.closure_arg_calls(F, fn, tt, lambda c: c == TERM + "::estimate") for _, tt in mir.calls(fn)):
                        why.append("max of member estimates")
                    else:
                        good = False
                else:
                    good = False
            else:
                good = False
        if good and why and m in need_sign:
            a = E.analyse(m)
            S = signs.as_num(a.ret)[1] if a.ret else signs.TOP
            if not (S <= signs.NONNEG) or a.hazards:
                good = False
                r.fail(name + ": lower bound", f"the clamped ratio can have sign {{{','.join(sorted(S))}}}" + (f" ({a.hazards[0].detail})" if a.hazards else "") +
                       ": progress below 0 (assuming positive limits and non-negative elapsed time)", F.loc(m))
                continue
            why.append("ratio >= 0 by sign analysis")
        if good and why:
            r.ok(name, ", ".join(why))
        else:
            r.fail(name, "termination estimate is not a literal in [0,1], a value clamped by min(_, 1.0)/clamp, or the max of member estimates: progress can leave [0,1] (drives phase switching and learning rates)", F.loc(m))


def r1_solve_result(F, r):
    sv = F.find1("vrp_core::solver::Solver::solve")
    fn = F.fns[sv]
    has_err = any(t["callee"].endswith("ok_or_else") or t["callee"].endswith("ok_or") for _, t in mir.calls(fn))
    conv = any("InsertionContext" in " ".join(t["ga"]) and t["callee"].endswith("Into::into") for _, t in mir.calls(fn)) or any(t["callee"].endswith("From::from") for _, t in mir.calls(fn))
    if has_err:
        r.ok("Solver::solve: empty", "an empty result is mapped to Err")
    else:
        r.fail("Solver::solve: empty", "empty population not mapped to an error (would panic or return garbage)", F.loc(sv))
    if conv:
        r.ok("Solver::solve: conversion", "first ranked individual converted through Solution::from (reports required + unassigned)")
    else:
        r.fail("Solver::solve: conversion", "result not produced by Solution::from(InsertionContext)", F.loc(sv))


# ---- I1: initial construction is not cut short by the quota ------------------------------------------------------
def i1_initial_population(F, r):
    sim = [i for i in F.fns if i.startswith("rosomaxa::evolution::simulator::EvolutionSimulator") and i.endswith("::run")]
    if len(sim) != 1:
        raise AnchorError(f"EvolutionSimulator::run resolves to {sim}")
    sim = sim[0]
    fam = F.family(sim)
    creates = [(g, t) for g in fam for _, t in mir.calls(F.fns[g]) if t["callee"].endswith("InitialOperator::create")]
    if not creates:
        r.fail("EvolutionSimulator::run: create", "initial operators are no longer run", F.loc(sim))
        return
    for g, t in creates:
        fn = F.fns[g]
        # the closure that builds an individual: its early exit may depend on the termination criterion only
        polls = [(h, tt) for h in [g] + [c for c in fam if c.startswith(g + "::")] for bi, tt in mir.calls(F.fns[h])
                 if tt["callee"] == QUOTA or mir.closure_arg_calls(F, F.fns[h], tt, lambda c: c == QUOTA)]
        name = util.short_fn(g)
        if polls:
            h, tt = polls[0]
            r.fail(f"{name}: quota poll", "initial construction consults the environment quota itself: when the quota is already exhausted no individual is built, "
                   "the population stays empty and Solver::solve answers Err instead of a solution with unassigned jobs (operators poll the quota and finalize)", F.loc(h, tt["ln"]))
        else:
            r.ok(f"{name}: quota poll", "construction loop exits early only on the termination criterion; the quota is left to the operators, which finalize")
        on_init = [bi for bi, tt in mir.calls(fn) if tt["callee"].endswith("::on_initial")]
        cb = [bi for bi, tt in mir.calls(fn) if tt["callee"].endswith("InitialOperator::create")]
        if not on_init:
            r.fail(f"{name}: on_initial", "built individual is not added to the population", F.loc(g))
            continue
        S = mir.reach_from_succs(fn, cb[0], blocked=set(on_init))
        if S & set(mir.ret_blocks(fn)):
            r.fail(f"{name}: create -> on_initial", "a built individual can be dropped without reaching the population", F.loc(g, t["ln"]))
        else:
            r.ok(f"{name}: create -> on_initial", "every built individual is added to the population")


def i2_initial_individual_complete(F, r):
    """an individual produced by an initial operator knows every job of the problem: on EVERY return path of `InitialOperator::create` the result is computed from
    `InsertionContext::new(problem, ..)` (which lists all jobs as required) — never from `new_empty` or another shortcut, whatever the quota says. A context that does not
    know the jobs reports nothing as unassigned, has the best possible fitness and is returned as the solution."""
    impls = [m for m in F.trait_impl_methods("rosomaxa::evolution::config::InitialOperator::create") if m.startswith("<vrp_core::")]
    if not impls:
        raise AnchorError("no InitialOperator::create impl in vrp-core")

    def is_source(fn, kind, x):
        return kind == "call" and (x["callee"] or "").endswith(("heuristics::context::InsertionContext::new", "heuristics::factories::create_insertion_context",
                                                                 "heuristics::context::InsertionContext::new_from_solution", "heuristics::factories::create_insertion_context_from_solution"))
    for m in impls:
        fn = F.fns[m]
        v = mir.must_derive(F, fn, {"l": 0, "p": []}, is_source)
        name = util.short_fn(m)
        if v is True:
            r.ok(f"{name}: complete individual", "every return derives from InsertionContext::new(problem, environment)")
        elif v is None:
            r.ok(f"{name}: complete individual", "not decided (result completed through a mutable borrow or an indirect call)")
        else:
            r.fail(f"{name}: complete individual", "on some path the initial individual is NOT built from InsertionContext::new (e.g. `new_empty` when the quota is exhausted): it knows no jobs, "
                   "reports nothing as unassigned, beats every real individual and is returned as the solution with all jobs lost", F.loc(m))


# ---- D1: decomposition is lossless under interruption --------------------------------------------------------------
DROPPING = ("filter", "filter_map", "flatten", "flat_map", "take", "skip", "take_while", "skip_while", "step_by", "map_while", "find", "find_map", "nth", "last", "next",
            "dedup", "dedup_by_key", "truncate", "pop", "drain", "retain")
LOSSLESS = ("into_iter", "iter", "iter_mut", "map", "rev", "enumerate", "chain", "cloned", "copied", "collect", "parallel_into_collect", "parallel_collect", "inspect",
            "peekable", "by_ref", "into_par_iter", "par_iter", "zip", "from_iter", "into", "from", "to_vec", "into_vec", "new")


def d1_decompose_lossless(F, r):
    rd = F.find1("decompose_search::DecomposeSearch::refine_decomposed")
    fn = F.fns[rd]
    folds = [(bi, t) for bi, t in mir.calls(fn) if t["callee"].endswith("Iterator::fold") and mir.closure_arg_calls(F, fn, t, lambda c: c.endswith("decompose_search::merge_best"))]
    chain = []
    if len(folds) == 1:
        bi, t = folds[0]
        op = t["args"][0]
    else:
        # loop form: `for part in parts { acc = merge_best(part, ..) }` — one loop, advanced by one next(), left only when next() answers None, merge on every iteration
        merges = [(bi, t) for bi, t in mir.calls(fn) if t["callee"].endswith("decompose_search::merge_best")]
        if len(folds) > 1 or len(merges) != 1:
            raise AnchorError(f"refine_decomposed: {len(folds)} merge folds, {len(merges)} direct merge calls")
        mb, mt = merges[0]
        loops = [(h, body) for h, body in mir.natural_loops(fn).items() if mb in body]
        if len(loops) != 1:
            raise AnchorError("refine_decomposed: merge_best is not called in exactly one loop")
        h, body = loops[0]
        nexts = [(bi, t) for bi, t in mir.calls(fn) if bi in body and t["callee"] == "core::iter::traits::iterator::Iterator::next"]
        if len(nexts) != 1:
            raise AnchorError("refine_decomposed: merge loop does not advance exactly one iterator")
        nb, nt = nexts[0]
        S = mir.succs(fn)
        dropping_ty = [d for d in ("filter::", "filter_map::", "skip::", "take::", "skip_while::", "take_while::", "step_by::", "map_while::", "flatten::") if "adapters::" + d in (nt["ga"][0] if nt["ga"] else "")]
        leaving = sorted({b for b in body for y in S[b] if y not in body})
        guards = []
        for b in sorted(body):
            tt = fn["bbs"][b]["t"]
            if tt["k"] == "switch" and (b in leaving or mir.dominates(fn, b, mb)):
                # the loop's own test: a switch on the discriminant of next()'s result (anything else — also a test of the ELEMENT next() yielded — is a guard)
                dd = [d for d in mir.defs(fn).get(tt["o"].get("l"), []) if d[0] == "s"] if mir.is_place(tt["o"]) else []
                own = len(dd) == 1 and dd[0][3]["r"]["k"] == "discr" and mir.is_place(dd[0][3]["r"]["o"][0]) and not dd[0][3]["r"]["o"][0]["p"] \
                    and dd[0][3]["r"]["o"][0]["l"] == nt["dest"]["l"]
                if not own:
                    guards.append(b)
        early = [b for b in leaving if fn["bbs"][b]["t"]["k"] != "switch" or b in guards]
        if dropping_ty or guards or early:
            r.fail("refine_decomposed: parts -> merge", "the merge loop drops elements (" + ", ".join(dropping_ty + (["guarded merge / early exit"] if guards or early else [])) + "): a part that is skipped "
                   "(e.g. when the quota is exhausted) is never merged back, its tours and jobs vanish from the offspring", F.loc(rd, mt["ln"]))
            return
        t = mt
        op = nt["args"][0]
    D = mir.defs(fn)
    for _ in range(30):
        if not mir.is_place(op):
            break
        ds = D.get(op["l"], [])
        if 1 <= op["l"] <= fn["argc"] and not ds:
            chain.append(("arg", op["l"]))
            break
        if len(ds) != 1:
            raise AnchorError("refine_decomposed: merge input has several definitions")
        d = ds[0]
        if d[0] == "s":
            if d[3]["r"]["k"] in ("use", "ref", "cast") and d[3]["r"]["o"]:
                op = d[3]["r"]["o"][0]
                continue
            raise AnchorError("refine_decomposed: merge input built by an unrecognised statement")
        tt = d[2]
        chain.append(("call", tt))
        if not tt["args"]:
            break
        op = tt["args"][0]
    names = [c[1]["callee"].split("::")[-1].split("<")[0] for c in chain if c[0] == "call"]
    if not chain or chain[-1][0] != "arg":
        raise AnchorError(f"refine_decomposed: merge input does not trace back to the decomposed parts ({names})")
    bad = [n for n in names if n in DROPPING]
    unknown = [n for n in names if n not in DROPPING and n not in LOSSLESS]
    if bad:
        r.fail("refine_decomposed: parts -> merge", f"the pipeline from the decomposed parts to the merge drops elements ({', '.join(bad)}): a part that is skipped (e.g. when the quota "
               "is exhausted) is never merged back, its tours and jobs vanish from the offspring", F.loc(rd, t["ln"]))
    elif unknown:
        raise AnchorError(f"refine_decomposed: unclassified adapter(s) {unknown} between the parts and the merge")
    else:
        r.ok("refine_decomposed: parts -> merge", " <- ".join(names) + " <- decomposed (element-preserving)")
    pic = [tt for c, tt in [(c[0], c[1]) for c in chain if c[0] == "call"] if tt["callee"].endswith("parallel_into_collect") or tt["callee"].endswith("parallel_collect")]
    for tt in pic:
        ga = tt["ga"]
        if len(ga) >= 3 and ga[0] == ga[-1]:
            r.ok("refine_decomposed: refine step type", "each part maps to a part (T == R)")
        else:
            r.fail("refine_decomposed: refine step type", f"the per-part refinement no longer returns a part for every part (maps `{ga[0][:60]}` to `{ga[-1][:60]}`)", F.loc(rd, tt["ln"]))
    if not pic:
        r.ok("refine_decomposed: refine step type", "no parallel map between parts and merge")


# ---- G1: configured limits always reach the termination criterion ----------------------------------------------------
def _is_arg(fn, place, n, depth=0):
    """is this place (by copies / tuple packing) exactly argument n?"""
    if not mir.is_place(place) or depth > 6:
        return False
    fl = [p for p in place["p"] if isinstance(p, list) and p[0] == "f"]
    if place["l"] == n and not place["p"]:
        return True
    ds = mir.defs(fn).get(place["l"], [])
    if len(ds) != 1 or ds[0][0] != "s":
        return False
    rv = ds[0][3]["r"]
    if rv["k"] == "use" and not place["p"]:
        return _is_arg(fn, rv["o"][0], n, depth + 1)
    if rv["k"] == "agg" and rv.get("ak") == "tuple" and len(place["p"]) == 1 and fl:
        idx = fl[0][3]
        return idx < len(rv["o"]) and _is_arg(fn, {"l": rv["o"][idx]["l"], "p": rv["o"][idx]["p"]}, n, depth + 1) if mir.is_place(rv["o"][idx]) else False
    return False


def _assume_some_edges(fn, n):
    """edges contradicting `argument n is Some`: for every switch on the discriminant of (a copy of) argument n, all edges but the Some one"""
    blocked = set()
    found = 0
    for sb, bb in enumerate(fn["bbs"]):
        tt = bb["t"]
        if tt["k"] != "switch" or not mir.is_place(tt["o"]):
            continue
        for st in bb["s"]:
            if st["r"]["k"] == "discr" and st["d"]["l"] == tt["o"]["l"] and _is_arg(fn, st["r"]["o"][0], n):
                found += 1
                some_t = None
                for v, tb in tt["tg"]:
                    if v == 1:
                        some_t = tb
                if some_t is None:
                    some_t = tt["else"]
                for y in mir.succs(fn)[sb]:
                    if y != some_t:
                        blocked.add((sb, y))
    return blocked, found


LIMITS = (("max_generations", 2, "max_generation::MaxGeneration"), ("max_time", 3, "max_time::MaxTime"))


def g1_limits_wired(F, r):
    gt = [i for i in F.fns if i.startswith("rosomaxa::evolution::config::EvolutionConfigBuilder") and i.endswith("::get_termination")]
    bd = [i for i in F.fns if i.startswith("rosomaxa::evolution::config::EvolutionConfigBuilder") and i.endswith("::build")]
    if len(gt) != 1 or len(bd) != 1:
        raise AnchorError(f"EvolutionConfigBuilder::get_termination/build resolve to {gt} / {bd}")
    gt, bd = gt[0], bd[0]
    fn = F.fns[gt]
    comp = [bi for bi, t in mir.calls(fn) if "CompositeTermination" in t["callee"] and t["callee"].split("::")[-1].startswith("new")]
    if not comp:
        raise AnchorError("get_termination: no CompositeTermination::new")
    for name, argn, ty in LIMITS:
        if name not in fn["names"].get(str(argn), name) and fn["names"].get(str(argn)) not in (None, name):
            pass
        news = [bi for bi, t in mir.calls(fn) if ty in t["callee"] and t["callee"].split("::")[-1].startswith("new")]
        blocked_edges, found = _assume_some_edges(fn, argn)
        if not found:
            raise AnchorError(f"get_termination: no test of `{name}`")
        seen = mir.reach(fn, [0], blocked=set(news), blocked_edges=blocked_edges)
        if any(c in seen for c in comp):
            r.fail(f"get_termination: {name}", f"with `{name}` configured the composite criterion can be built without a {ty.split('::')[-1]} member: the limit is ignored", F.loc(gt))
            continue
        # the created criterion is handed to the list
        flows = False
        for bi in news:
            t = fn["bbs"][bi]["t"]
            fw = mir.forward(fn, [t["dest"]["l"]])
            for bj, tt in mir.calls(fn):
                if tt["callee"].split("::")[-1].split("<")[0] in ("push", "into_vec", "box_assume_init_into_vec_unsafe") or "CompositeTermination" in tt["callee"]:
                    if any(mir.is_place(a) and a["l"] in fw for a in tt["args"]):
                        flows = True
            for bj, sj, st in mir.stmts(fn):
                if st["r"]["k"] == "agg" and st["r"].get("ak") == "array" and any(mir.is_place(a) and a["l"] in fw for a in st["r"]["o"]):
                    flows = True
        if flows:
            r.ok(f"get_termination: {name}", f"Some(limit) => {ty.split('::')[-1]} created on every path to the composite criterion and added to it")
        else:
            r.fail(f"get_termination: {name}", f"the {ty.split('::')[-1]} built for `{name}` is never added to the criterion list", F.loc(gt))
    # build(): every successfully built config takes its criterion from get_termination(self.max_generations, self.max_time, ..)
    bfn = F.fns[bd]
    gcalls = [(bi, t) for bi, t in mir.calls(bfn) if t["callee"].endswith("::get_termination")]
    aggs = [(bi, si, st) for bi, si, st in mir.stmts(bfn) if st["r"]["k"] == "agg" and st["r"].get("n", "").endswith("EvolutionConfig#EvolutionConfig")]
    if not aggs:
        raise AnchorError("build: no EvolutionConfig construction")
    if not gcalls:
        r.fail("build: get_termination", "the configured limits are no longer turned into a termination criterion", F.loc(bd))
        return
    seen = mir.reach(bfn, [0], blocked={bi for bi, _ in gcalls})
    for bi, si, st in aggs:
        if bi in seen:
            r.fail("build: limits on every path", "a path builds the configuration without get_termination(max_generations, max_time, ..): the configured generation/time limits are dropped "
                   "(e.g. when a custom termination is supplied)", F.loc(bd, st["ln"]))
        else:
            r.ok("build: limits on every path", "every built configuration passes get_termination")
        o = st["r"]["o"][st["r"]["fs"].index("termination")]
        leaves, _ = mir.deep_leaves(bfn, o)
        calls_in = {v for k, v, p in leaves if k == "call"}
        if any(bi2 in calls_in for bi2, _ in gcalls) or any(k == "call" for k, v, p in mir.trace(bfn, o) if v in {b for b, _ in gcalls}):
            r.ok("build: termination field", "derives from get_termination")
        else:
            r.fail("build: termination field", "the `termination` of the built configuration does not derive from get_termination", F.loc(bd, st["ln"]))
    for bi, t in gcalls:
        for name, argn, _ in LIMITS:
            a = t["args"][argn - 1]
            tr = mir.trace(bfn, a)
            if any(name in p for k, v, p in tr):
                r.ok(f"build: {name} argument", f"self.{name}")
            else:
                r.fail(f"build: {name} argument", f"get_termination is not given the configured `{name}`", F.loc(bd, t["ln"]))


def run(ctx):
    ctx.explanation = (
        "Loop-guard analysis on MIR: in every EvolutionStrategy::run the termination criterion and the quota are polled before the search of every "
        "generation (entry and per-iteration must-pass; a positive poll leaves the loop), MaxGeneration fires iff generation >= limit (evaluated over "
        "<,=,>), composite criteria fire on ANY member; InsertionHeuristic::process polls the quota every round and every path to return passes "
        "finalize_insertion_ctx which moves leftovers to unassigned; the four long-running loops still poll the quota and quota wrappers keep the "
        "wrapped quota; termination estimates are clamped; Solver::solve maps an empty result to Err; the initial-population loop never consults the quota itself "
        "and every built individual joins the population (I1); decomposed parts reach the merge through element-preserving adapters only and refine maps part to part "
        "(D1); with a limit configured every path of get_termination to the composite criterion creates and adds the corresponding member, and every built "
        "configuration passes get_termination(self.max_generations, self.max_time, ..) (G1).")
    ctx.explanation += ' Initial operators build a complete individual on every return path (I2, must-derive from InsertionContext::new); the decomposition merge is decided in fold and in loop form (D1).'
    ctx.not_decided = "validity of the returned solution itself (C01-C03 value-level), wall-clock timing."
    ctx.assumptions += ["Quota implementations outside the workspace are monotone", "closures are analysed at their construction site"]
    ctx.run("C07-L1", "termination and quota are checked before every generation; MaxGeneration/Composite semantics", l1_loop_guard, floor=7)
    ctx.run("C07-F1", "insertion loop polls the quota each round and always finalizes (leftovers -> unassigned)", f1_finalize_after_quota, floor=3)
    ctx.run("C07-Q1", "quota poll inventory; quota wrappers and derived environments keep the user's quota", q1_poll_inventory, floor=5)
    ctx.run("C07-T1", "termination estimates stay within [0,1] by construction", t1_estimates_clamped, floor=5)
    ctx.run("C07-I1", "initial construction is not cut short by the quota; every built individual joins the population", i1_initial_population, floor=2)
    ctx.run("C07-I2", "initial operators always build a complete individual (InsertionContext::new on every return path)", i2_initial_individual_complete, floor=1)
    ctx.run("C07-D1", "decomposition merges every part back (no element-dropping adapter between parts and merge)", d1_decompose_lossless, floor=2)
    ctx.run("C07-G1", "configured generation/time limits always become members of the termination criterion", g1_limits_wired, floor=6)
    ctx.run("C07-R1", "Solver::solve maps an empty result to Err and converts through Solution::from", r1_solve_result, floor=2)
