"""C03 — reported schedule, load, distance and cost are reproducible (narrow structural clauses)."""
from .. import cg, mir, util
from ..facts import AnchorError

STAT = "vrp_pragmatic::format::solution::model::Statistic"
TIMING = "vrp_pragmatic::format::solution::model::Timing"
TCOST = "vrp_core::models::problem::costs::TransportCost::"

PER_DIST = ("per_distance",)
PER_TIME = ("per_driving_time", "per_service_time", "per_waiting_time")
DIST_NAMES = ("distance", "location_distance", "total_distance", "dist", "total_dist")
TIME_NAMES = ("duration", "waiting", "service", "serving", "commuting", "driving", "parking", "total_duration", "total_dur")
DIST_CALLS = ("distance", "distance_approx", "get_total_distance")
TIME_CALLS = ("duration", "duration_approx", "get_total_duration")


def _bin_of(fn, op):
    """the bin statement (looking through the (value, overflow) tuple) that defines operand op, or None"""
    for k, v, p in mir.trace(fn, op, through_calls=()):
        if k == "bin":
            return fn["bbs"][v[0]]["s"][v[1]]
    return None


def _fieldwise(fn, agg_stmt, prefix, r, label, want_ops=("Add", "AddWithOverflow")):
    rv = agg_stmt["r"]
    n = 0
    for fname, o in zip(rv["fs"], rv["o"]):
        if fname == "times":
            # nested aggregate
            for k, v, p in mir.trace(fn, o, through_calls=()):
                if k == "agg":
                    n += _fieldwise(fn, fn["bbs"][v[0]]["s"][v[1]], prefix + ("times",), r, label, want_ops)
            continue
        n += 1
        inst = f"{label}: {'.'.join(prefix + (fname,))}"
        b = _bin_of(fn, o)
        if b is None or b["r"]["op"] not in want_ops:
            r.fail(inst, "field is not computed as a sum of the two operands' fields", None)
            continue
        la = {(k, v, p) for k, v, p in mir.trace(fn, b["r"]["o"][0], through_calls=())}
        lb = {(k, v, p) for k, v, p in mir.trace(fn, b["r"]["o"][1], through_calls=())}
        want_a = {("arg", 1, prefix + (fname,))}
        want_b = {("arg", 2, prefix + (fname,))}
        if (la == want_a and lb == want_b) or (la == want_b and lb == want_a):
            r.ok(inst, "self.f + rhs.f")
        else:
            pa = sorted(".".join(p) for k, v, p in la | lb)
            r.fail(inst, f"statistic field `{fname}` of the sum is computed from {pa}: totals mix different quantities (e.g. waiting + serving)", None)
    return n


def h1_statistic_sum(F, r):
    adds = [m for im in F.impls_of.get("core::ops::arith::Add", []) if im["self"] == STAT for tm, m in im["m"]]
    if len(adds) != 1:
        raise AnchorError(f"impl Add for Statistic: {len(adds)}")
    fn = F.fns[adds[0]]
    root = [s for bi, si, s in mir.stmts(fn) if s["r"]["k"] == "agg" and s["r"].get("n") == STAT + "#Statistic"]
    if not root:
        raise AnchorError("Statistic aggregate in add")
    n = _fieldwise(fn, root[0], (), r, "Statistic::add")
    sa = F.adts.get(STAT)
    ta = F.adts.get(TIMING)
    total = len(sa["v"][0]["f"]) - 1 + len(ta["v"][0]["f"])
    if n == total:
        r.ok("Statistic::add: all fields", f"{n} scalar fields of Statistic and Timing are summed")
    else:
        r.fail("Statistic::add: all fields", f"{n} of {total} scalar fields are summed", F.loc(adds[0]))
    # the overall statistic folds tour statistics with that Add
    cs = F.find1("solution_writer::create_solution")
    ok = False
    for g in F.family(cs):
        for _, t in mir.calls(F.fns[g]):
            if t["callee"] == "core::ops::arith::Add::add" and t["res"] == adds[0]:
                ok = True
    if ok:
        r.ok("create_solution: statistic", "overall statistic = fold of tour statistics with Statistic::add")
    else:
        r.fail("create_solution: statistic", "the overall statistic is not the sum of the tour statistics", F.loc(cs))


def h2_leg_accumulation(F, r):
    ct = F.find1("solution_writer::create_tour")
    n = 0
    for g in F.family(ct):
        fn = F.fns[g]
        for bi, si, s in mir.stmts(fn):
            rv = s["r"]
            if rv["k"] == "agg" and rv.get("n") in (STAT + "#Statistic", TIMING + "#Timing"):
                if all(mir.is_const(o) for o in rv["o"]):
                    continue
                for fname, o in zip(rv["fs"], rv["o"]):
                    if fname == "times":
                        continue
                    leaves, crossed = mir.deep_leaves(fn, o)
                    srcs = {p[p.index("statistic") + 1:] for k, v, p in leaves if "statistic" in p}
                    srcs = {x[-1] for x in srcs if x}
                    if not srcs:
                        continue
                    n += 1
                    inst = f"create_tour: {fname}"
                    if srcs == {fname}:
                        r.ok(inst, f"leg.statistic.{fname} + delta")
                    else:
                        r.fail(inst, f"accumulated `{fname}` is computed from leg.statistic.{sorted(srcs)}: per-leg accumulation mixes statistic fields", F.loc(g, s["ln"]))
    if n < 8:
        raise AnchorError(f"only {n} accumulated statistic fields found in create_tour")


def _unit(fn, op):
    leaves, crossed = mir.deep_leaves(fn, op)
    units = set()
    for k, v, p in leaves:
        for f in p:
            if f in PER_DIST:
                units.add("cost/dist")
            elif f in PER_TIME:
                units.add("cost/time")
        if k in ("arg", "local") and not any(f in PER_DIST + PER_TIME for f in p):
            nm = fn["names"].get(str(v))
            if nm in DIST_NAMES:
                units.add("dist")
            elif nm in TIME_NAMES:
                units.add("time")
    for c in crossed:
        last = c.split("::")[-1]
        if c.startswith(TCOST) or last.startswith("get_total_"):
            if last in DIST_CALLS:
                units.add("dist")
            elif last in TIME_CALLS:
                units.add("time")
    return units


def u1_units(F, r):
    roots = [F.find1("InsertionContext::get_total_cost"), "vrp_core::models::problem::costs::TransportCost::cost", "vrp_core::models::problem::costs::ActivityCost::cost",
             F.find1("solution_writer::create_tour")]
    for i in F.fns:
        if i.startswith("vrp_core::construction::features::transport::") and F.fns[i]["kind"] != "Closure" and "::promoted[" not in i and "CostObjective" in i:
            roots.append(i)
    n = 0
    for root in roots:
        if root not in F.fns:
            r.fail(util.short_fn(root), "accounting function not found")
            continue
        for g in F.family(root):
            fn = F.fns[g]
            for bi, si, s in mir.stmts(fn):
                rv = s["r"]
                if rv["k"] != "bin" or rv["op"] != "Mul" or rv["ty"] != "f64":
                    continue
                ua, ub = _unit(fn, rv["o"][0]), _unit(fn, rv["o"][1])
                if len(ua) != 1 or len(ub) != 1:
                    r.skip()
                    continue
                a, b = list(ua)[0], list(ub)[0]
                pair = {a, b}
                if not (pair & {"cost/dist", "cost/time"}):
                    r.skip()
                    continue
                n += 1
                inst = f"{util.short_fn(g)}@{a}*{b}"
                if pair == {"cost/dist", "dist"} or pair == {"cost/time", "time"}:
                    r.ok(inst, "coefficient multiplied with a quantity of its own unit")
                else:
                    r.fail(inst, f"unit clash: a `{a}` coefficient is multiplied with a `{b}` quantity — reported cost is not fixed + d*cd + T*ct", F.loc(g, s["ln"]))
    if n < 1:
        raise AnchorError("no unit-resolved cost product found in the accounting functions")
    r.ok("unit-resolved products", f"{n} products of a cost coefficient with a quantity were resolved (operands whose unit is not declared by a name are silent)")


TC = "vrp_core::models::problem::costs::TransportCost::"
EXACT_ONLY = ("vrp_pragmatic::format::solution", "vrp_pragmatic::checker", "vrp_core::construction::enablers::schedule_update", "vrp_core::models::solution",
              "vrp_core::construction::features::transport", "vrp_core::construction::enablers::departure_time")
DROPPING_TYPES = ("adapters::filter::", "adapters::filter_map::", "adapters::skip::", "adapters::take::", "adapters::skip_while::", "adapters::take_while::",
                  "adapters::flatten::", "adapters::step_by::", "adapters::map_while::", "adapters::peekable::")


def r1_exact_routing_only(F, r):
    """reported / verified / enforced schedules are computed with the exact routing queries, never the time-independent `_approx` variants"""
    n = 0
    for fid, fn in sorted(F.fns.items()):
        if "::promoted[" in fid:
            continue
        mod = F.fns.get(F.root_of(fid), fn)["module"]
        if not mod.startswith(EXACT_ONLY):
            continue
        for bi, t in mir.calls(fn):
            if not t["callee"].startswith(TC):
                continue
            n += 1
            last = t["callee"].split("::")[-1]
            if last.endswith("_approx"):
                r.fail(f"{util.short_fn(F.root_of(fid))}: {last}", f"`{last}` ignores the departure time (first matrix of a time-dependent profile): a reported / checked / enforced value no longer equals "
                       "what the routing data gives for the actual departure", F.loc(fid, t["ln"]))
    if n < 10:
        raise AnchorError(f"only {n} routing queries found in schedule/report code")
    r.ok("exact routing queries", f"{n} TransportCost queries in {len(EXACT_ONLY)} report/verify/schedule modules, none approximate")


def l1_leg_queries_agree(F, r):
    """wherever one body asks the routing provider for both the distance and the duration (and cost) of a leg, it asks for the same (from, to[, departure])"""
    import collections
    n = 0
    writer_seen = False
    for fid, fn in sorted(F.fns.items()):
        if "::promoted[" in fid:
            continue
        qs = [(bi, t) for bi, t in mir.calls(fn) if t["callee"].startswith(TC) and t["callee"].split("::")[-1] in ("distance", "duration", "cost", "distance_approx", "duration_approx")]
        kinds = {t["callee"].split("::")[-1].replace("_approx", "") for _, t in qs}
        if not ({"distance", "duration"} <= kinds):
            if "solution_writer::create_tour" in fid and qs:
                r.fail(f"{util.short_fn(fid)}: leg queries", f"the reported leg is no longer described by both distance and duration queries (found {sorted(kinds)})", F.loc(fid))
                writer_seen = True
            continue
        memo = {}
        by = collections.defaultdict(list)
        for bi, t in qs:
            a = t["args"]
            exact = not t["callee"].endswith("_approx")
            key = (mir.expr(fn, a[2], 0, memo), mir.expr(fn, a[3], 0, memo))
            by[key].append((t, mir.expr(fn, a[4], 0, memo) if exact and len(a) > 4 else None))
            n += 1
        name = util.short_fn(fid)
        if "solution_writer::create_tour" in fid:
            writer_seen = True
        bad = False
        for key, items in by.items():
            ks = {t["callee"].split("::")[-1].replace("_approx", "") for t, _ in items}
            deps = {d for _, d in items if d is not None}
            if not ({"distance", "duration"} <= ks):
                t = items[0][0]
                bad = True
                r.fail(f"{name}: leg queries", f"`{t['callee'].split('::')[-1]}` is asked for a (from, to) that the sibling distance/duration query of the same body does not use: "
                       "distance and time of one leg no longer describe the same trip", F.loc(fid, t["ln"]))
            elif len(deps) > 1:
                t = items[-1][0]
                bad = True
                r.fail(f"{name}: leg departure", "the routing queries of one leg use different departure times (time-dependent matrices give inconsistent distance / duration / cost)", F.loc(fid, t["ln"]))
        if not bad:
            r.ok(f"{name}: leg queries", f"{len(qs)} queries over {len(by)} leg(s): distance and duration always asked for the same (from, to, departure)")
    if n < 8 or not writer_seen:
        raise AnchorError(f"only {n} paired routing queries found (writer seen: {writer_seen})")


def g2_tag_of_used_place(F, r):
    """the tag written with an activity is looked up for the place that was actually used: the writer hands `get_job_tag` the activity's place location and the place's own
    time window (`act.place.time`) — not the interval in which the activity happened to be scheduled (two places at one location with different windows and tags)"""
    from . import c01
    n = 0
    for fid, fn in sorted(F.fns.items()):
        if "::promoted[" in fid or not F.fns.get(F.root_of(fid), fn)["module"].startswith("vrp_pragmatic::format::solution::solution_writer"):
            continue
        for bi, t in mir.calls(fn):
            if not t["callee"].endswith("activity_matcher::get_job_tag") or len(t["args"]) < 2:
                continue
            n += 1
            toks = c01._toks_deep(fn, t["args"][1])
            inst = f"{util.short_fn(F.root_of(fid))}: tag lookup"
            if "place" in toks and "time" in toks and "location" in toks and "arrival" not in toks:
                r.ok(inst, "get_job_tag(single, (act.place.location, (act.place.time, start departure)))")
            elif "arrival" in toks:
                r.fail(inst, "the tag is looked up by the activity's schedule interval (arrival .. departure) instead of the time window of the place that was used: when two places "
                       "share a location the tag of the wrong place is reported", F.loc(fid, t["ln"]))
            else:
                r.fail(inst, "the tag lookup is not fed with the used place's location and time window", F.loc(fid, t["ln"]))
    if n == 0:
        raise AnchorError("solution_writer no longer looks place tags up through get_job_tag")


def g1_tag_positions(F, r):
    """place tags are indexed by the position of the place in the task (the writer looks the tag up by place index)"""
    gs = F.find1("job_reader::get_single")
    fn = F.fns[gs]
    en = [(bi, t) for bi, t in mir.calls(fn) if t["callee"].endswith("Iterator::enumerate")]
    setters = [t for g in [gs] + [x for x in F.fns if x.startswith("vrp_pragmatic::format::problem::job_reader::get_single")] for _, t in mir.calls(F.fns[g]) if t["callee"].endswith("set_place_tags")]
    if not en:
        r.fail("get_single: tag index", "place tags are no longer paired with their place index by enumerate()", F.loc(gs))
        return
    for bi, t in en:
        ty = t["ga"][0] if t["ga"] else ""
        bad = [d.split("::")[1] for d in DROPPING_TYPES if d in ty]
        if bad:
            r.fail("get_single: tag index", f"enumerate() runs after an element-dropping adapter ({', '.join(bad)}): the stored index is the ordinal among tagged places, not the place index "
                   "the solution writer looks up — the reported tag belongs to another place", F.loc(gs, t["ln"]))
        else:
            r.ok("get_single: tag index", "enumerate() over all places (no filtering before it)")
    if setters:
        r.ok("get_single: set_place_tags", "tags stored in the job dimensions")


def c1_load_and_fixed_cost(F, r):
    """reported load after an activity = load before - static and dynamic delivery + static and dynamic pickup; the vehicle's fixed cost enters the tour cost exactly once"""
    cl = F.find1("solution_writer::calculate_load")
    fn = F.fns[cl]
    seen = {}
    bad = False
    for bi, t in mir.calls(fn):
        if not t["callee"].startswith("core::ops::arith::") or len(t["args"]) != 2:
            continue
        op = t["callee"].split("::")[-1]
        e = mir.expr(fn, t["args"][1])
        part = [x for x in e[1] if x in (".delivery", ".pickup")]
        comp = [x for x in e[1] if x in (".0", ".1")]
        if len(part) != 1 or len(comp) != 1:
            r.ok("calculate_load", "not decided: the demand parts are not read as demand.<delivery|pickup>.<0|1>")
            return
        want = "sub" if part[0] == ".delivery" else "add"
        seen[(part[0], comp[0])] = op
        if op != want:
            bad = True
            r.fail(f"calculate_load: {part[0][1:]}{comp[0]}", f"the {part[0][1:]} part of the demand is {'added to' if op == 'add' else 'subtracted from'} the load: deliveries leave the vehicle, pickups enter it", F.loc(cl, t["ln"]))
    need = {(".delivery", ".0"), (".delivery", ".1"), (".pickup", ".0"), (".pickup", ".1")}
    if set(seen) != need:
        r.fail("calculate_load: parts", f"only {sorted(seen)} of static/dynamic delivery and pickup change the reported load", F.loc(cl))
    elif not bad:
        r.ok("calculate_load", "load - delivery.0 - delivery.1 + pickup.0 + pickup.1")
    ct = F.find1("solution_writer::create_tour")
    fams = F.family(ct)
    adds = []
    for g in fams:
        gfn = F.fns[g]
        for bi, si, st in mir.stmts(gfn):
            if st["r"]["k"] == "bin" and st["r"]["op"] == "Add":
                for o in st["r"]["o"]:
                    e = mir.expr(gfn, o)
                    if e[1][-2:] == (".costs", ".fixed"):
                        adds.append((g, bi, st))
    if len(adds) != 1:
        r.fail("create_tour: fixed cost", f"the vehicle's fixed cost is added {len(adds)} times to the tour statistic (expected exactly once)", F.loc(ct))
        return
    g, bi, st = adds[0]
    gfn = F.fns[g]
    pf = mir.proj_fields(st["d"])
    in_loop = any(bi in body for _, body in mir.natural_loops(gfn).items()) if isinstance(mir.natural_loops(gfn), dict) else any(bi in l for l in mir.natural_loops(gfn))
    if g != ct or in_loop:
        r.fail("create_tour: fixed cost", "the fixed cost is added inside a per-leg / per-interval step: tours with reloads or several stops are charged the fixed cost repeatedly", F.loc(g, st.get("ln")))
    elif not (pf and pf[-1][1] == "cost"):
        r.fail("create_tour: fixed cost", "the fixed cost is not added to the statistic's cost field", F.loc(g, st.get("ln")))
    else:
        r.ok("create_tour: fixed cost", "statistic.cost += vehicle.costs.fixed, once, after all legs")


def run(ctx):
    ctx.explanation = (
        "Structure of the accounting formulas: the pragmatic Statistic sum is field-wise over every scalar field of Statistic and Timing and the overall "
        "statistic folds tour statistics with it (H1); the per-leg accumulator of create_tour computes every field from the same field of the running "
        "statistic (H2); in get_total_cost / TransportCost::cost / ActivityCost::cost / create_tour / CostObjective every product of a cost coefficient "
        "pairs a per-distance coefficient with a distance and a per-time coefficient with a time (U1, units-of-measure over def-use); report / checker / schedule "
        "modules use the exact routing queries only, never `_approx` (R1, who-may-call); in every body that asks the provider for both distance and duration "
        "(and cost) of a leg the canonical (from, to, departure) expressions agree (L1); place tags are paired with the place position by an enumerate() that no "
        "element-dropping adapter precedes (G1, decided on the adapter type).")
    ctx.explanation += ' The reported tag is looked up for the place that was used (G2); provider durations scaled by the profile (C16-F1) and legs queried in travel direction (C01-D1) are shared rules evaluated here because their files are C03 anchors.'
    ctx.not_decided = "equality up to rounding with an independent replay of the tour; load profiles; tag lookup on the writer side; time-point vs duration arithmetic."
    ctx.assumptions += ["parameter/local names distance/duration/waiting/... and the Costs field names act as unit declarations; unknown units are silent"]
    ctx.run("C03-H1", "Statistic::add is a field-wise sum over all fields; overall statistic = fold over tours", h1_statistic_sum, floor=10)
    ctx.run("C03-H2", "per-leg accumulation keeps statistic fields apart", h2_leg_accumulation, floor=8)
    ctx.run("C03-R1", "report / check / schedule code uses exact routing queries only (no `_approx`)", r1_exact_routing_only, floor=1)
    ctx.run("C03-L1", "distance, duration and cost of a leg are queried for the same (from, to, departure) in every body that asks for both", l1_leg_queries_agree, floor=4)
    ctx.run("C03-G2", "the reported tag is the tag of the place that was used (lookup by the place's own location and window)", g2_tag_of_used_place, floor=1)
    ctx.run("C03-G1", "place tags are indexed by place position", g1_tag_positions, floor=1)
    try:
        from . import c05
        ctx.run("C05-R1", "schedule recurrence of the forward pass (arrival / departure / carry / total duration)", c05.r1_schedule_recurrence, floor=1)
    except (ImportError, AttributeError):
        pass
    from . import c01 as _c01
    ctx.run("C01-D1", "routing legs are queried in travel direction (the cached tour distance / duration feeds the fitness and the report)", _c01.d1_leg_direction, floor=4)
    from . import c16 as _c16
    ctx.run("C16-F1", "routing providers: duration / distance methods read their own data, durations scaled by the profile (schedules are replayed from these values)", _c16.f1_field_roles, floor=18)
    ctx.run("C03-C1", "reported load change signs (deliveries out, pickups in); fixed cost charged exactly once per tour", c1_load_and_fixed_cost, floor=2)
    ctx.run("C03-U1", "cost coefficients multiply quantities of their own unit", u1_units, floor=1)
