"""C03 — reported schedule, load, distance and cost are reproducible (narrow structural clauses)."""
from .. import cg, mir, util
from ..facts import AnchorError

STAT = "vrp_pragmatic::format::solution::model::Statistic"
TIMING = "vrp_pragmatic::format::solution::model::Timing"
TCOST = "vrp_core::models::problem::costs::TransportCost::"

PER_DIST = ("per_distance",)
PER_TIME = ("per_driving_time", "per_service_time", "per_waiting_time")
DIST_NAMES = ("distance", "location_distance", "total_distance", "dist", "total_dist")
TIME_NAMES = ("duration", "waiting", "service", "serving", "commuting", "driving", "parking", "total_duration", "total_dur")
DIST_CALLS = ("distance", "distance_approx", "get_total_distance")
TIME_CALLS = ("duration", "duration_approx", "get_total_duration")


def _bin_of(fn, op):
    """the bin statement (looking through the (value, overflow) tuple) that defines operand op, or None"""
    for k, v, p in mir.trace(fn, op, through_calls=()):
        if k == "bin":
            return fn["bbs"][v[0]]["s"][v[1]]
    return None


def _fieldwise(fn, agg_stmt, prefix, r, label, want_ops=("Add", "AddWithOverflow")):
    rv = agg_stmt["r"]
    n = 0
    for fname, o in zip(rv["fs"], rv["o"]):
        if fname == "times":
            # nested aggregate
            for k, v, p in mir.trace(fn, o, through_calls=()):
                if k == "agg":
                    n += _fieldwise(fn, fn["bbs"][v[0]]["s"][v[1]], prefix + ("times",), r, label, want_ops)
            continue
        n += 1
        inst = f"{label}: {'.'.join(prefix + (fname,))}"
        b = _bin_of(fn, o)
        if b is None or b["r"]["op"] not in want_ops:
            r.fail(inst, "field is not computed as a sum of the two operands' fields", None)
            continue
        la = {(k, v, p) for k, v, p in mir.trace(fn, b["r"]["o"][0], through_calls=())}
        lb = {(k, v, p) for k, v, p in mir.trace(fn, b["r"]["o"][1], through_calls=())}
        want_a = {("arg", 1, prefix + (fname,))}
        want_b = {("arg", 2, prefix + (fname,))}
        if (la == want_a and lb == want_b) or (la == want_b and lb == want_a):
            r.ok(inst, "self.f + rhs.f")
        else:
            pa = sorted(".".join(p) for k, v, p in la | lb)
            r.fail(inst, f"statistic field `{fname}` of the sum is computed from {pa}: totals mix different quantities (e.g. waiting + serving)", None)
    return n


def h1_statistic_sum(F, r):
    adds = [m for im in F.impls_of.get("core::ops::arith::Add", []) if im["self"] == STAT for tm, m in im["m"]]
    if len(adds) != 1:
        raise AnchorError(f"impl Add for Statistic: {len(adds)}")
    fn = F.fns[adds[0]]
    root = [s for bi, si, s in mir.stmts(fn) if s["r"]["k"] == "agg" and s["r"].get("n") == STAT + "#Statistic"]
    if not root:
        raise AnchorError("Statistic aggregate in add")
    n = _fieldwise(fn, root[0], (), r, "Statistic::add")
    sa = F.adts.get(STAT)
    ta = F.adts.get(TIMING)
    total = len(sa["v"][0]["f"]) - 1 + len(ta["v"][0]["f"])
    if n == total:
        r.ok("Statistic::add: all fields", f"{n} scalar fields of Statistic and Timing are summed")
    else:
        r.fail("Statistic::add: all fields", f"{n} of {total} scalar fields are summed", F.loc(adds[0]))
    # the overall statistic folds tour statistics with that Add
    cs = F.find1("solution_writer::create_solution")
    ok = False
    for g in F.family(cs):
        for _, t in mir.calls(F.fns[g]):
            if t["callee"] == "core::ops::arith::Add::add" and t["res"] == adds[0]:
                ok = True
    if ok:
        r.ok("create_solution: statistic", "overall statistic = fold of tour statistics with Statistic::add")
    else:
        r.fail("create_solution: statistic", "the overall statistic is not the sum of the tour statistics", F.loc(cs))


def h2_leg_accumulation(F, r):
    ct = F.find1("solution_writer::create_tour")
    n = 0
    for g in F.family(ct):
        fn = F.fns[g]
        for bi, si, s in mir.stmts(fn):
            rv = s["r"]
            if rv["k"] == "agg" and rv.get("n") in (STAT + "#Statistic", TIMING + "#Timing"):
                if all(mir.is_const(o) for o in rv["o"]):
                    continue
                for fname, o in zip(rv["fs"], rv["o"]):
                    if fname == "times":
                        continue
                    leaves, crossed = mir.deep_leaves(fn, o)
                    srcs = {p[p.index("statistic") + 1:] for k, v, p in leaves if "statistic" in p}
                    srcs = {x[-1] for x in srcs if x}
                    if not srcs:
                        continue
                    n += 1
                    inst = f"create_tour: {fname}"
                    if srcs == {fname}:
                        r.ok(inst, f"leg.statistic.{fname} + delta")
                    else:
                        r.fail(inst, f"accumulated `{fname}` is computed from leg.statistic.{sorted(srcs)}: per-leg accumulation mixes statistic fields", F.loc(g, s["ln"]))
    if n < 8:
        raise AnchorError(f"only {n} accumulated statistic fields found in create_tour")


def _unit(fn, op):
    leaves, crossed = mir.deep_leaves(fn, op)
    units = set()
    for k, v, p in leaves:
        for f in p:
            if f in PER_DIST:
                units.add("cost/dist")
            elif f in PER_TIME:
                units.add("cost/time")
        if k in ("arg", "local") and not any(f in PER_DIST + PER_TIME for f in p):
            nm = fn["names"].get(str(v))
            if nm in DIST_NAMES:
                units.add("dist")
            elif nm in TIME_NAMES:
                units.add("time")
    for c in crossed:
        last = c.split("::")[-1]
        if c.startswith(TCOST) or last.startswith("get_total_"):
            if last in DIST_CALLS:
                units.add("dist")
            elif last in TIME_CALLS:
                units.add("time")
    return units


def u1_units(F, r):
    roots = [F.find1("InsertionContext::get_total_cost"), "vrp_core::models::problem::costs::TransportCost::cost", "vrp_core::models::problem::costs::ActivityCost::cost",
             F.find1("solution_writer::create_tour")]
    for i in F.fns:
        if i.startswith("vrp_core::construction::features::transport::") and F.fns[i]["kind"] != "Closure" and "::promoted[" not in i and "CostObjective" in i:
            roots.append(i)
    n = 0
    for root in roots:
        if root not in F.fns:
            r.fail(util.short_fn(root), "accounting function not found")
            continue
        for g in F.family(root):
            fn = F.fns[g]
            for bi, si, s in mir.stmts(fn):
                rv = s["r"]
                if rv["k"] != "bin" or rv["op"] != "Mul" or rv["ty"] != "f64":
                    continue
                ua, ub = _unit(fn, rv["o"][0]), _unit(fn, rv["o"][1])
                if len(ua) != 1 or len(ub) != 1:
                    r.skip()
                    continue
                a, b = list(ua)[0], list(ub)[0]
                pair = {a, b}
                if not (pair & {"cost/dist", "cost/time"}):
                    r.skip()
                    continue
                n += 1
                inst = f"{util.short_fn(g)}@{a}*{b}"
                if pair == {"cost/dist", "dist"} or pair == {"cost/time", "time"}:
                    r.ok(inst, "coefficient multiplied with a quantity of its own unit")
                else:
                    r.fail(inst, f"unit clash: a `{a}` coefficient is multiplied with a `{b}` quantity — reported cost is not fixed + d*cd + T*ct", F.loc(g, s["ln"]))
    if n < 4:
        raise AnchorError(f"only {n} unit-resolved products found")


def run(ctx):
    ctx.explanation = (
        "Structure of the accounting formulas: the pragmatic Statistic sum is field-wise over every scalar field of Statistic and Timing and the overall "
        "statistic folds tour statistics with it (H1); the per-leg accumulator of create_tour computes every field from the same field of the running "
        "statistic (H2); in get_total_cost / TransportCost::cost / ActivityCost::cost / create_tour / CostObjective every product of a cost coefficient "
        "pairs a per-distance coefficient with a distance and a per-time coefficient with a time (U1, units-of-measure over def-use).")
    ctx.not_decided = "equality up to rounding with an independent replay of the tour; load profiles; tag correctness; time-point vs duration arithmetic."
    ctx.assumptions += ["parameter/local names distance/duration/waiting/... and the Costs field names act as unit declarations; unknown units are silent"]
    ctx.run("C03-H1", "Statistic::add is a field-wise sum over all fields; overall statistic = fold over tours", h1_statistic_sum, floor=10)
    ctx.run("C03-H2", "per-leg accumulation keeps statistic fields apart", h2_leg_accumulation, floor=8)
    ctx.run("C03-U1", "cost coefficients multiply quantities of their own unit", u1_units, floor=4)
