"""C19 — the self-organising population keeps a well-formed map (narrow structural clauses)."""
from .. import cg, mir, util
from .. import ordeval as oe
from ..facts import AnchorError

G = "rosomaxa::algorithms::gsom::"
NET = G + "network::Network"
NODE = G + "node::Node"
NETI = G + "network::Network::<C, I, S, F>::"
ROSO_ADT = "rosomaxa::population::rosomaxa::Rosomaxa"
PHASES = "rosomaxa::population::rosomaxa::RosomaxaPhases"
MUT = ("insert", "extend", "remove", "drain", "clear", "retain", "remove_entry", "entry")


def _is_node_map(ty):
    return "HashMap<rosomaxa::algorithms::gsom::node::Coordinate, rosomaxa::algorithms::gsom::node::Node<" in ty


def m1_key_is_coordinate(F, r):
    net = F.adts.get(NET)
    if net is None:
        raise AnchorError(NET)
    f = {x["n"]: x for x in net["v"][0]["f"]}
    if f.get("nodes", {}).get("vis", "").startswith("in:"):
        r.ok("Network.nodes private")
    else:
        r.fail("Network.nodes private", "the node map is accessible outside network.rs: keys and node coordinates can be desynchronised", net["span"])
    n_ins = 0
    for fid, fn in F.fns.items():
        if not fid.lstrip("<").startswith("rosomaxa::"):
            continue
        root = F.root_of(fid)
        for bi, t in mir.calls(fn):
            if not t["argtys"] or not t["argtys"][0].startswith("&mut") or not _is_node_map(t["argtys"][0]):
                continue
            last = t["callee"].split("::")[-1]
            if last not in MUT:
                continue
            mod = F.fns.get(root, fn)["module"]
            inst = f"{util.short_fn(root)}: nodes.{last}"
            if mod != G + "network":
                r.fail(inst, "the node map is structurally mutated outside network.rs", F.loc(fid, t["ln"]))
                continue
            if last == "insert":
                n_ins += 1
                key = {(k, v, p) for k, v, p in mir.trace(fn, t["args"][1])}
                node_src = mir.trace(fn, t["args"][2])
                coord_src = set()
                for k, v, p in node_src:
                    if k == "call":
                        ct = fn["bbs"][v]["t"]
                        cname = ct["callee"]
                        if cname.endswith("Node::<I, S>::new"):
                            coord_src |= {(a, b, c) for a, b, c in mir.trace(fn, ct["args"][0])}
                        elif cname.endswith("::create_node"):
                            coord_src |= {(a, b, c) for a, b, c in mir.trace(fn, ct["args"][2])}
                if key and key == coord_src:
                    r.ok(inst, "key and the inserted node's coordinate are the same value")
                else:
                    r.fail(inst, f"a node is inserted under a key that is not its own coordinate (key from {sorted(map(str, key))[:2]}, node coordinate from {sorted(map(str, coord_src))[:2]}): lookup by coordinate finds another node", F.loc(fid, t["ln"]))
            elif last == "extend":
                # remap: re-keyed by node.coordinate
                ok = False
                for g in F.family(root):
                    gfn = F.fns[g]
                    if gfn["kind"] != "Closure":
                        continue
                    for b2, si, s in mir.stmts(gfn):
                        rv = s["r"]
                        if rv["k"] == "agg" and rv["ak"] == "tuple" and len(rv["o"]) == 2 and s["d"]["l"] == 0:
                            k0 = mir.trace(gfn, rv["o"][0])
                            k1 = mir.trace(gfn, rv["o"][1])
                            if any(p[-1:] == ("coordinate",) and k == "arg" for k, v, p in k0) and any(k == "arg" and not p for k, v, p in k1):
                                if {v for k, v, p in k0} == {v for k, v, p in k1}:
                                    ok = True
                if ok:
                    r.ok(inst, "re-keyed by (node.coordinate, node)")
                else:
                    r.fail(inst, "nodes are re-inserted under a key that is not node.coordinate", F.loc(fid, t["ln"]))
            else:
                r.ok(inst, "removal in network.rs")
    if n_ins < 2:
        raise AnchorError(f"only {n_ins} node insertions found")
    # create_node / Node::new pass the coordinate through
    cn = F.fns.get(NETI + "create_node")
    if cn is None:
        raise AnchorError("create_node")
    nn = [t for _, t in mir.calls(cn) if t["callee"].endswith("Node::<I, S>::new")]
    if nn and {(k, v) for k, v, p in mir.trace(cn, nn[0]["args"][0])} == {("arg", 3)}:
        r.ok("create_node", "Node::new(coord, ..) with the coord parameter")
    else:
        r.fail("create_node", "create_node does not pass its coord parameter to Node::new", F.loc(NETI + "create_node"))
    nnew = [i for i in F.fns if i.startswith(G + "node::Node") and i.endswith("::new") and "::promoted[" not in i]
    okn = False
    for i in nnew:
        nf = F.fns[i]
        for b2, si, s in mir.stmts(nf):
            rv = s["r"]
            if rv["k"] == "agg" and rv.get("n") == NODE + "#Node":
                o = rv["o"][rv["fs"].index("coordinate")]
                okn = {(k, v) for k, v, p in mir.trace(nf, o)} == {("arg", 1)}
    if okn:
        r.ok("Node::new", "coordinate field = first parameter")
    else:
        r.fail("Node::new", "Node::new does not store its coordinate parameter", None)
    # who writes Node.coordinate after construction
    for fid, fn in F.fns.items():
        for b2, si, s in mir.stmts(fn):
            pf = mir.proj_fields(s["d"])
            if pf and pf[-1] == (NODE, "coordinate"):
                root = F.root_of(fid)
                if root.endswith("contraction::contract_graph"):
                    r.ok(f"{util.short_fn(root)}: node.coordinate=", "inside the remap closure (map re-keyed by node.coordinate afterwards)")
                else:
                    r.fail(f"{util.short_fn(root)}: node.coordinate=", "node coordinate changed outside the contraction remap: key and identity diverge", F.loc(fid, s["ln"]))


def m2_compaction(F, r):
    cg_ = G + "contraction::contract_graph"
    fn = F.fns.get(cg_)
    if fn is None:
        raise AnchorError(cg_)
    rem_sites = [rb for (cf, bi, t, rb) in util.family_call_sites(F, cg_, lambda t: t["callee"] == NETI + "remove") if rb is not None]
    gates = []
    for bi, si, s in mir.stmts(fn):
        rv = s["r"]
        if rv["k"] == "bin" and rv["op"] in ("Lt", "Le") and rv["ty"] == "usize" and mir.is_const(rv["o"][1]):
            try:
                c = int(str(rv["o"][1]["c"]).split("_")[0])
            except ValueError:
                continue
            if (rv["op"] == "Lt" and c >= 4) or (rv["op"] == "Le" and c >= 3):
                sw = fn["bbs"][bi]["t"]
                if sw["k"] == "switch":
                    f_ = [tb for v, tb in sw["tg"] if v == 0]
                    if f_:
                        gates.append((bi, f_[0]))
    if rem_sites and gates and all(b not in mir.reach(fn, [0], blocked_edges=gates) for b in rem_sites):
        r.ok("contract_graph: size guard", "nodes are removed only when at least four would remain")
    else:
        r.fail("contract_graph: size guard", "node removal is not dominated by the `fewer than four nodes would remain` early return", F.loc(cg_))
    tr = [t for _, t in mir.calls(fn) if t["callee"] == NETI + "train_on_data"]
    if tr and all(mir.is_const(t["args"][3]) and t["args"][3]["c"] == "false" for t in tr):
        r.ok("contract_graph: retrain", "data of removed nodes re-trained with is_new_input = false")
    else:
        r.fail("contract_graph: retrain", "compaction re-trains with growth allowed (is_new_input is not the literal false): compaction can grow the map", F.loc(cg_))
    # Network::update grows only for new input (evaluated over the flag)
    up = NETI + "update"
    ufn = F.fns.get(up)
    if ufn is None:
        raise AnchorError(up)
    for flag in (False, True):
        loop_blocks = set().union(*mir.natural_loops(ufn).values()) if mir.natural_loops(ufn) else set()
        has_loop = any(t["callee"].endswith("Iterator::next") and bi in loop_blocks for bi, t in mir.calls(ufn))
        paths = []
        for length in ((0, 1, 2) if has_loop else (None,)):
            it = oe.Interp(F, up, {1: oe.ref(oe.sym("self")), 2: oe.ref(oe.sym("ctx")), 3: oe.ref(oe.sym("coord")), 4: oe.ref(oe.sym("input")), 5: oe.sym("error"), 6: ("bool", flag)},
                           fresh=True, enum_results=True, observe=("::grow_nodes", "::insert"), max_steps=3000 if has_loop else 800)
            if length is not None:
                oe.script_next(it, length)      # `for (coord, weights) in self.grow_nodes(..)`: evaluated over 0, 1 and 2 grown nodes
            paths += it.explore(max_paths=512)
        grows = [p for p in paths if any(c[0] == "::grow_nodes" for c in p.calls)]
        inst = f"Network::update[is_new_input={flag}]"
        if not flag:
            if grows:
                r.fail(inst, "the network can grow while re-training existing data (compaction / smoothing grow the map)", F.loc(up))
            else:
                r.ok(inst, f"{len(paths)} paths, none reaches grow_nodes")
        else:
            if grows:
                r.ok(inst, f"{len(grows)} of {len(paths)} paths grow (sanity: growth is reachable for new input)")
            else:
                r.fail(inst, "growth unreachable even for new input (evaluator lost track: rule not decidable)", F.loc(up))
    # train_on_data / train_batch pass the flag through
    for m, argi in (("train_on_data", 4), ("train_batch", 4)):
        fid = NETI + m
        mfn = F.fns.get(fid)
        if mfn is None:
            r.fail(f"Network::{m}", "not found")
            continue
        ok = False
        for g in F.family(fid):
            gfn = F.fns[g]
            for _, t in mir.calls(gfn):
                if t["callee"] in (NETI + "update", NETI + "train_batch") and t["args"]:
                    last = t["args"][-1]
                    src = mir.trace(gfn, last)
                    if any((k == "arg" and (v == argi or g != fid)) for k, v, p in src):
                        ok = True
        if ok:
            r.ok(f"Network::{m}", "is_new_input passed through")
        else:
            r.fail(f"Network::{m}", "is_new_input is not passed through to update", F.loc(fid))


def m3_phases_forward(F, r):
    ph = F.adts.get(PHASES)
    if ph is None:
        raise AnchorError(PHASES)
    rank = {v["n"]: i for i, v in enumerate(ph["v"])}
    if list(rank) != ["Initial", "Exploration", "Exploitation"]:
        r.fail("RosomaxaPhases order", f"phase enum variants changed to {list(rank)}: rank table must be re-confirmed", ph["span"])
        return
    n = 0
    for fid, fn in F.fns.items():
        if not fid.lstrip("<").startswith("rosomaxa::population::rosomaxa"):
            continue
        stores = []
        for bi, si, s in mir.stmts(fn):
            pf = mir.proj_fields(s["d"])
            if pf and pf[-1][1] == "phase" and pf[-1][0] == ROSO_ADT:
                var = None
                srcs = mir.trace(fn, s["r"]["o"][0]) if s["r"]["k"] == "use" else ({("agg", (bi, si), ())} if s["r"]["k"] == "agg" else set())
                for k, v, p in srcs:
                    if k == "agg":
                        nm = fn["bbs"][v[0]]["s"][v[1]]["r"].get("n", "")
                        if nm.startswith(PHASES + "#"):
                            var = nm.split("#")[1]
                stores.append((bi, s, var))
        if not stores:
            continue
        # the match on self.phase
        sw = None
        for sb, bb in enumerate(fn["bbs"]):
            tt = bb["t"]
            if tt["k"] == "switch" and mir.is_place(tt["o"]):
                for s in bb["s"]:
                    if s["r"]["k"] == "discr" and s["d"]["l"] == tt["o"]["l"]:
                        pf = mir.proj_fields(s["r"]["o"][0])
                        via = any(p[-1:] == ("phase",) for k, v, p in mir.trace(fn, s["r"]["o"][0]))
                        if (pf and pf[-1] == (ROSO_ADT, "phase")) or via:
                            oe_ = {v: (sb, tb) for v, tb in tt["tg"]}
                            oe_["else"] = (sb, tt["else"])
                            sw = (sb, oe_)
        live = mir.reach(fn, [0])
        for bi, s, var in stores:
            if bi not in live:
                continue  # unwind-only cleanup copy of the assignment
            n += 1
            inst = f"{util.short_fn(fid)}: phase = {var}"
            if var is None:
                r.fail(inst, "phase assigned from a value that is not a literal phase variant (not decidable)", F.loc(fid, s["ln"]))
                continue
            if sw is None:
                r.fail(inst, "phase assigned outside a match on the current phase", F.loc(fid, s["ln"]))
                continue
            sb, oe_ = sw
            from_arms = []
            for name, idx in rank.items():
                e = mir.variant_edge(oe_, idx, len(rank))
                if e and bi in mir.reach(fn, [e[1]], blocked=[sb]):
                    from_arms.append(name)
            bad = [a for a in from_arms if rank[a] >= rank[var]]
            if from_arms and not bad:
                r.ok(inst, f"only from {from_arms}")
            else:
                r.fail(inst, f"phase can move from {bad or from_arms} to {var}: phases must only move forward (Initial < Exploration < Exploitation)", F.loc(fid, s["ln"]))
    if n < 3:
        raise AnchorError(f"only {n} phase assignments found")


ELIT = "rosomaxa::population::elitism::Elitism"


def e1_capacity_reestablished(F, r):
    """every node holds at most its capacity: (a) every function that re-assigns an elite's capacity truncates afterwards, the truncation keeps len <= capacity;
    (b) after construction the network creates and resizes node storages with config.node_size; (c) grown nodes use the network's storage factory"""
    from .. import ordeval as oe
    # (a) the capacity field is the Elitism field the stored individuals are truncated to (found, not named: a private field may be renamed)
    cap_fields = set()
    for fid, fn in F.fns.items():
        if "::promoted[" in fid or not fid.startswith(ELIT):
            continue
        for _, t in mir.calls(fn):
            if t["callee"].endswith("Vec::<T, A>::truncate") and len(t["args"]) == 2:
                for k, v, p in mir.trace(fn, t["args"][1]):
                    if p:
                        cap_fields.add(p[-1])
    if len(cap_fields) != 1:
        raise AnchorError(f"Elitism: the capacity field (argument of truncate) is not unique: {sorted(cap_fields)}")
    cap = next(iter(cap_fields))
    n = 0
    for fid, fn in sorted(F.fns.items()):
        if "::promoted[" in fid or not fid.startswith(ELIT):
            continue
        stores = [(bi, st) for bi, si, st in mir.stmts(fn) if mir.proj_fields(st["d"]) and mir.proj_fields(st["d"])[-1][1] == cap and mir.proj_fields(st["d"])[-1][0].endswith("::Elitism")]
        if not stores:
            continue
        n += 1
        trunc = [bi for bi, t in mir.calls(fn) if t["callee"].endswith("::ensure_max_population_size") or t["callee"].endswith("Vec::<T, A>::truncate")]
        name = util.short_fn(fid)
        rets = set(mir.ret_blocks(fn))
        for bi, st in stores:
            seen = mir.reach_from_succs(fn, bi, blocked=set(trunc)) | ({bi} if bi in rets else set())
            same_block_after = any(b == bi for b in trunc)
            if (seen & rets) and not same_block_after:
                r.fail(f"{name}: capacity", "the elite's capacity is re-assigned without truncating the stored individuals afterwards: a node keeps more individuals than its capacity "
                       "until it happens to be hit again", F.loc(fid, st.get("ln")))
            else:
                r.ok(f"{name}: capacity", "re-assignment is followed by the truncation on every path")
    if n < 1:
        raise AnchorError(f"no function re-assigns the elite capacity field `{cap}`")
    em = [i for i in F.fns if i.startswith(ELIT) and i.endswith("::ensure_max_population_size")]
    if len(em) == 1:
        efn = F.fns[em[0]]
        tr = [t for _, t in mir.calls(efn) if t["callee"].endswith("Vec::<T, A>::truncate")]
        if tr and any(p and p[-1] == cap for k, v, p in mir.trace(efn, tr[0]["args"][1])):
            r.ok("Elitism::ensure_max_population_size", f"truncate({cap})")
        else:
            r.fail("Elitism::ensure_max_population_size", "the truncation no longer cuts to the capacity field", F.loc(em[0]))
    # (b) Network::new ends with node_size everywhere
    nn = [i for i in F.fns if i.startswith("rosomaxa::algorithms::gsom::network::Network") and i.endswith("::new") and F.fns[i]["kind"] != "Closure" and "::promoted[" not in i]
    if len(nn) != 1:
        raise AnchorError(f"Network::new resolves to {nn}")
    fn = F.fns[nn[0]]
    good, bad = set(), set()
    for bi, t in mir.calls(fn):
        pf = mir.proj_fields(t["dest"])
        if pf and pf[-1][1] == "storage_factory":
            arg_toks = set()
            for a in t["args"]:
                for k, v, p in mir.trace(fn, a):
                    arg_toks |= set(map(str, p))
                    if k in ("arg", "local"):
                        arg_toks.add(fn["names"].get(str(v), ""))
            (good if "node_size" in arg_toks else bad).add(bi)
    for bi, si, st in mir.stmts(fn):
        if st["r"]["k"] == "agg" and st["r"].get("n", "").endswith("Network#Network"):
            bad.add(bi)
        pf = mir.proj_fields(st["d"])
        if pf and pf[-1][1] == "storage_factory" and st["r"]["k"] == "use":
            toks = set()
            for k, v, p in mir.deep_leaves(fn, st["r"]["o"][0])[0]:
                toks |= set(map(str, p))
            (good if "node_size" in toks else bad).add(bi)
    rets = set(mir.ret_blocks(fn))
    if not good:
        r.fail("Network::new: storage factory", "after the initial balancing the network's storage factory is not reset to config.node_size: every node grown later gets the capacity of the "
               "initial batch instead of node_size", F.loc(nn[0]))
    else:
        leak = any(mir.reach_from_succs(fn, b, blocked=good) & rets for b in bad - good)
        later_bad = any(mir.reach_from_succs(fn, g, blocked=set()) & (bad - good) for g in good)
        if leak or later_bad:
            r.fail("Network::new: storage factory", "a path returns the network with a storage factory that is not built from config.node_size", F.loc(nn[0]))
        else:
            r.ok("Network::new: storage factory", "every returned network creates node storages with config.node_size")
    rs = [(g, t) for g in F.family(nn[0]) for _, t in mir.calls(F.fns[g]) if t["callee"].endswith("::resize")]
    okr = False
    for g, t in rs:
        gfn = F.fns[g]
        toks = set()
        for k, v, p in mir.trace(gfn, t["args"][-1]):
            toks |= set(map(str, p))
            if gfn["kind"] == "Closure" and k == "arg" and v == 1 and p and str(p[0]).isdigit() and int(p[0]) < len(gfn.get("upvars", [])):
                toks.add(gfn["upvars"][int(p[0])][0])
        if "node_size" in toks or any("node_size" in x for x in toks):
            okr = True
    # ... and EVERY node storage: `resize` also sets the capacity (the storages were created oversized for the initial balancing), so the walk over the nodes that resizes
    # them may not drop nodes (a filter on the current size leaves sparse nodes with the oversized capacity) nor guard the call
    DROP = ("adapters::filter::", "adapters::filter_map::", "adapters::skip::", "adapters::take::", "adapters::skip_while::", "adapters::take_while::", "adapters::step_by::")
    partial = None
    for g, t in rs:
        gfn = F.fns[g]
        rb = [bi for bi, tt in mir.calls(gfn) if tt is t][0]
        guarded = [sb for sb, bb in enumerate(gfn["bbs"]) if bb["t"]["k"] == "switch" and mir.dominates(gfn, sb, rb) and sb != rb and
                   any(rb not in mir.reach(gfn, [e]) and (set(mir.ret_blocks(gfn)) & mir.reach(gfn, [e])) for e in [x for _, x in bb["t"]["tg"]] + [bb["t"]["else"]])]
        if guarded and gfn["kind"] == "Closure":
            partial = (g, t, "the resize is guarded by a test inside the per-node step")
        if gfn["kind"] == "Closure":
            parent = F.fns[gfn["parent"]]
            for _, ct in mir.calls(parent):
                if ct["callee"].startswith("core::iter::traits::iterator::Iterator::") and ct["ga"] and any(g.split("::")[-1] in a_ or "closure" in a_ for a_ in ct["ga"][1:] or [""]):
                    bad = [d.split("::")[1] for d in DROP if d in ct["ga"][0]]
                    if bad and "Node" in ct["ga"][0]:
                        partial = (gfn["parent"], ct, f"the walk over the nodes drops some of them ({', '.join(bad)})")
    if okr and partial:
        r.fail("Network::new: resize", f"not every node storage is resized to config.node_size — {partial[2]}: `resize` also resets the capacity, so a node that is sparse after the initial "
               "balancing keeps the oversized initial capacity and later holds more individuals than node_size", F.loc(partial[0], partial[1]["ln"]))
    elif okr:
        r.ok("Network::new: resize", "existing node storages are resized to config.node_size")
    else:
        r.fail("Network::new: resize", "the storages filled during the initial balancing are not resized to config.node_size", F.loc(nn[0]))


AXES = ("x", "y")


def a1_axis_agreement(F, r):
    """compaction: each coordinate is shifted with the bounds and the decimation step of ITS OWN axis (x with x_*, y with y_*)"""
    cg_ = [i for i in F.fns if i.endswith("contraction::contract_graph")]
    if len(cg_) != 1:
        raise AnchorError("contraction::contract_graph")
    n = 0
    undecided = 0
    for g in F.family(cg_[0]):
        fn = F.fns[g]
        for bi, t in mir.calls(fn):
            if not t["callee"].endswith("contraction::get_offset"):
                continue
            n += 1
            axes = []
            for a in t["args"]:
                names = set()
                for k, v, p in mir.deep_leaves(fn, a)[0]:
                    if k in ("arg", "local"):
                        nm = fn["names"].get(str(v), "")
                        if nm:
                            names.add(nm)
                    if fn["kind"] == "Closure" and k == "arg" and v == 1 and p and str(p[0]).isdigit() and int(p[0]) < len(fn.get("upvars", [])):
                        names.add(fn["upvars"][int(p[0])][0])
                ax = {nm[0] for nm in names if nm[:1] in AXES and (len(nm) == 1 or nm[1] == "_")}
                for k, v, p in mir.deep_leaves(fn, a)[0]:
                    if k == "arg" and v < len(fn["locals"]) and fn["locals"][v].endswith("::Coordinate") and p and str(p[0]) in ("0", "1"):
                        ax.add(AXES[int(p[0])])          # Coordinate(x, y): component 0 is x, component 1 is y
                axes.append(ax)
            flat = set().union(*axes) if axes else set()
            if any(len(ax) == 0 for ax in axes):
                undecided += 1
                continue
            if len(flat) == 1 and all(len(ax) == 1 for ax in axes):
                r.ok(f"contract_graph: get_offset({next(iter(flat))})", "value, bounds and decimation step of one axis")
            else:
                r.fail(f"contract_graph: get_offset#{n}", f"a coordinate is shifted with the bounds / decimation step of the OTHER axis (arguments belong to axes {[sorted(a) for a in axes]}): on a non-square "
                       "map surviving rows collide and nodes overwrite each other", F.loc(g, t["ln"]))
    if n < 2:
        raise AnchorError(f"only {n} get_offset calls in contract_graph")
    if undecided:
        r.ok("contract_graph: axis names", f"not decided for {undecided} call(s): arguments are not held in variables named x*/y*")


def h1_node_error_finite(F, r):
    """error measures stay finite: the per-node error `Node::mse` divides by the number of stored individuals — the division must be unreachable for an empty node (sign
    analysis E-S: the size is refined to > 0 by the early return; both `size()` calls on the immutable receiver denote the same number). The other float divisions of the GSOM
    code depend on configuration invariants (radius, learning rate) and are reported as not decided."""
    from .. import signs
    E = signs.Engine(F, {}, {})
    decided = 0
    for fid in sorted(F.fns):
        if not fid.lstrip("<").startswith("rosomaxa::algorithms::gsom") or "::promoted[" in fid:
            continue
        fn = F.fns[fid]
        if not any(s_["r"]["k"] == "bin" and s_["r"].get("op") == "Div" and s_["r"].get("ty") in ("f64", "f32") for _, _, s_ in mir.stmts(fn)):
            continue
        name = util.short_fn(fid)
        a = E.analyse(fid)
        hz = [h for h in a.hazards if h.kind == "div-by-zero"]
        if fid.endswith("node::Node::<I, S>::mse") or (F.root_of(fid).endswith("node::Node::<I, S>::mse")):
            decided += 1
            if hz:
                r.fail(f"{name}: division", "the per-node error divides by a storage size that may be zero (an empty node — freshly grown or drained — yields 0/0 = NaN in the "
                       "network state)", F.loc(fid, hz[0].ln))
            else:
                r.ok(f"{name}: division", "divisor refined to > 0 (empty node answered before the division)")
        else:
            r.ok(f"{name}: division", "not decided (divisor bounded by configuration invariants, if at all)" if hz else "divisor never zero by sign analysis")
    if decided == 0:
        raise AnchorError("Node::mse with a float division not found")


def run(ctx):
    ctx.explanation = (
        "Structural well-formedness of the GSOM behind the default population: the node map is private, mutated only in network.rs, every insertion keys "
        "a node by its own coordinate (insert / create_initial_nodes / remap), Node.coordinate is rewritten only inside the contraction remap (M1); "
        "compaction removes nodes only when four would remain, re-trains with is_new_input=false and Network::update — evaluated over the flag — cannot "
        "reach grow_nodes without new input (M2); every assignment of the population phase moves strictly forward (M3).")
    ctx.explanation += ' Every node storage is resized after the initial balancing (E1 extension); Node::mse never divides by a possibly-zero size (H1, sign analysis with expression-based value numbers for size observers).'
    ctx.not_decided = "finiteness of weights/errors, node capacity, lookup results, elite bounds (value-level)."
    ctx.run("C19-M1", "node map key == node.coordinate on every insertion; coordinate rewritten only in remap", m1_key_is_coordinate, floor=8)
    ctx.run("C19-H1", "per-node error never divides by a possibly-zero size (sign analysis)", h1_node_error_finite, floor=1)
    ctx.run("C19-M2", "compaction never grows the map nor leaves fewer than four nodes", m2_compaction, floor=6)
    ctx.run("C19-E1", "node capacity: capacity re-assignment truncates; after construction storages are created and resized with node_size", e1_capacity_reestablished, floor=4)
    ctx.run("C19-A1", "compaction shifts each coordinate with its own axis' bounds and step", a1_axis_agreement, floor=1)
    ctx.run("C19-M3", "population phases only move forward", m3_phases_forward, floor=3)
