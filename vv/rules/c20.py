"""C20 — insertion cost estimates equal objective changes for additive objectives (narrow structural clauses)."""
from .. import cg, kv, mir, util
from ..facts import AnchorError

H = "vrp_core::construction::heuristics::"
EV = H + "evaluators::"
GOAL_EST = "vrp_core::models::goal::GoalContext::estimate"
SINGLE_CTX = EV + "SingleContext"
FO = "vrp_core::models::goal::FeatureObjective"
TCOST = "vrp_core::models::problem::costs::TransportCost::"


def _arg_leaves(fn, t, idx):
    return mir.deep_leaves(fn, t["args"][idx])


def q1_quote_composition(F, r):
    # (1) leg level: cost stored = goal.estimate(activity move) + route_costs (parameter 7)
    leg = EV + "analyze_insertion_in_route_leg"
    fn = F.fns.get(leg)
    if fn is None:
        raise AnchorError(leg)
    ok = False
    for bi, si, s in mir.stmts(fn):
        pf = mir.proj_fields(s["d"])
        if pf and pf[-1] == (SINGLE_CTX, "cost") and s["r"].get("o"):
            leaves, crossed = mir.deep_leaves(fn, s["r"]["o"][0])
            has_est = GOAL_EST in crossed
            has_add = any(c.endswith("Add::add") for c in crossed)
            has_route = any(k == "arg" and v == 7 for k, v, p in leaves)
            if has_est and has_add and has_route:
                ok = True
            elif has_est:
                r.fail("leg: quote", f"the quoted cost of a position is goal.estimate(activity move) {'without' if not has_route else 'with'} the route-level part "
                                     f"({'no addition' if not has_add else 'added'}): quotes of different routes are not comparable / do not equal the objective change", F.loc(leg, s["ln"]))
    if ok:
        r.ok("leg: quote", "Some(goal.estimate(activity move) + route_costs)")
    else:
        r.fail("leg: quote missing", "no store of `estimate + route_costs` into SingleContext.cost found", F.loc(leg))
    # (2) route_costs is threaded: eval_job_insertion_in_route -> eval_job_constraint_in_route -> eval_single -> analyze_insertion_in_route -> leg
    chain = [
        (EV + "eval_job_insertion_in_route", EV + "eval_job_constraint_in_route", 4, "estimate"),
        (EV + "eval_job_constraint_in_route", EV + "eval_single", 5, 5),
        (EV + "eval_job_constraint_in_route", EV + "eval_multi", 5, 5),
        (EV + "eval_single", EV + "analyze_insertion_in_route", 6, 6),
        (EV + "eval_single_constraint_in_route", EV + "eval_single", 5, 6),  # (caller, callee, 0-based arg position at the call, MIR local of the caller's route_costs parameter)
    ]
    for caller, callee, argi, want in chain:
        cfn = F.fns.get(caller)
        if cfn is None:
            r.fail(f"{util.short_fn(caller)} -> {util.short_fn(callee)}", "caller not found")
            continue
        sites = [t for g in F.family(caller) for _, t in mir.calls(F.fns[g]) if (t["res"] or t["callee"]) == callee]
        if not sites:
            r.fail(f"{util.short_fn(caller)} -> {util.short_fn(callee)}", "call not found (chain changed)", F.loc(caller))
            continue
        for t in sites:
            leaves, crossed = mir.deep_leaves(cfn, t["args"][argi])
            inst = f"{util.short_fn(caller)} -> {util.short_fn(callee)}"
            if want == "estimate":
                good = GOAL_EST in crossed or any(c.endswith("Goal::estimate") for c in crossed)
            else:
                good = any(k == "arg" and v == want for k, v, p in leaves)
            if good:
                r.ok(inst, "route-level estimate passed on")
            else:
                r.fail(inst, "the route-level cost estimate is not passed on to the position analysis (replaced / defaulted)", F.loc(caller, t["ln"]))
    # leg closure in analyze_insertion_in_route passes route_costs (cloned) to the leg function
    air = EV + "analyze_insertion_in_route"
    ok = False
    for g in F.family(air):
        gfn = F.fns[g]
        for _, t in mir.calls(gfn):
            if (t["res"] or t["callee"]) == leg and len(t["args"]) >= 7:
                leaves, crossed = mir.deep_leaves(gfn, t["args"][6])
                if any("route_costs" == (gfn.get("upvars", [[None]])[int(p[0])][0] if p and p[0].isdigit() and int(p[0]) < len(gfn.get("upvars", [])) else None) for k, v, p in leaves if k == "arg" and v == 1) or \
                        any(k == "arg" and v == 7 for k, v, p in leaves):
                    ok = True
    if ok:
        r.ok("analyze_insertion_in_route -> leg", "route_costs passed to every leg")
    else:
        r.fail("analyze_insertion_in_route -> leg", "route_costs not passed to the leg analysis", F.loc(air))
    # (3) success carries the analysed cost
    es = EV + "eval_single"
    efn = F.fns[es]
    ms = [t for _, t in mir.calls(efn) if t["callee"].endswith("InsertionResult::make_success")]
    if ms and any(p and "cost" in p for k, v, p in mir.trace(efn, ms[0]["args"][0])):
        r.ok("eval_single: success cost", "make_success(result.cost, ..)")
    else:
        r.fail("eval_single: success cost", "the success does not carry the analysed cost", F.loc(es))
    # (4) multi: accumulated cost = (previous or route_costs) + sub-job cost
    em = EV + "eval_multi"
    okm = False
    for g in F.family(em):
        gfn = F.fns[g]
        for _, t in mir.calls(gfn):
            if t["callee"].endswith("MultiContext::success"):
                leaves, crossed = mir.deep_leaves(gfn, t["args"][0])
                if any(c.endswith("Add::add") for c in crossed):
                    okm = True
    if okm:
        r.ok("eval_multi: accumulation", "cost accumulated by addition over sub-jobs")
    else:
        r.fail("eval_multi: accumulation", "multi-job cost is not the sum over its sub-jobs", F.loc(em))
    # (5) Goal::estimate: one component per layer in layer order
    ge = "vrp_core::models::goal::Goal::estimate"
    gfn = F.fns.get(ge)
    if gfn is None:
        raise AnchorError(ge)
    names = [t["callee"].split("::")[-1] for _, t in mir.calls(gfn)]
    if "map" in names and "collect" in names and "rev" not in names and "filter" not in names and "skip" not in names:
        r.ok("Goal::estimate", "layers.iter().map(estimate).collect(): component k belongs to layer k")
    else:
        r.fail("Goal::estimate", f"estimate components are not one per layer in layer order ({names})", F.loc(ge))


def q2_same_measure(F, r):
    impls = F.impls_of.get(FO, [])
    if len(impls) < 10:
        raise AnchorError("FeatureObjective impls")
    for im in impls:
        name = im["self"].split("<")[0].split("::")[-1]
        ms = {tm.split("::")[-1]: m for tm, m in im["m"]}
        est, fit = ms.get("estimate"), ms.get("fitness")
        if not est or not fit:
            continue
        # (a) objectives that estimate through a TransportCost measure and report a cached total
        ecalls = set()
        for g in F.family(est):
            gfn = F.fns[g]
            if gfn["kind"] != "Closure":
                continue
            for _, t in mir.calls(gfn):
                if t["callee"].startswith(TCOST):
                    ecalls.add(t["callee"].split("::")[-1])
        fops, fpar = kv.reach_ops(F, fit)
        fslots = {o.key for o in fops if o.store == "route" and o.op == "get"}
        if ecalls and fslots and name in ("DistanceObjective",):
            wcalls = set()
            for o in kv.ops(F):
                if o.store == "route" and o.op == "set" and o.key in fslots:
                    # find the callers of the wrapper to see what feeds the value
                    wfn = F.fns[o.fid]
                    t = wfn["bbs"][o.bi]["t"]
                    srcs = [(o.fid, t["args"][1])]
                    if any(k == "arg" for k, v, p in mir.trace(wfn, t["args"][1])):
                        srcs = []
                        for (cf, kind, bi, ct) in cg.callers(F, o.fid):
                            if ct is not None and len(ct["args"]) > 1:
                                srcs.append((cf, ct["args"][1]))
                    for cf, op in srcs:
                        cfn = F.fns[cf]
                        leaves, crossed = mir.deep_leaves(cfn, op)
                        for c in crossed:
                            if c.startswith(TCOST):
                                wcalls.add(c.split("::")[-1])
                        # folded totals: the value is an accumulator local fed in a closure of the same family
                        for g in F.family(F.root_of(cf)):
                            for _, tt in mir.calls(F.fns[g]):
                                if tt["callee"].startswith(TCOST):
                                    wcalls.add(tt["callee"].split("::")[-1])
            slot = sorted(kv.short(s) for s in fslots)
            want = "distance" if name == "DistanceObjective" else "duration"
            if ecalls == {want} and want in wcalls and any(want in s.lower() for s in slot):
                r.ok(name, f"estimate uses TransportCost::{want}; fitness reads {slot} which is written from TransportCost::{want}")
            else:
                r.fail(name, f"estimate measures {sorted(ecalls)} but fitness reads {slot} (written from {sorted(wcalls)}): the quote is in another unit than the objective", F.loc(est))
            continue
        # (b) objectives driven by one value closure: both methods must use it
        a = F.adts.get(im["self"].split("<")[0])
        if not a:
            continue
        fnf = [f["n"] for f in a["v"][0]["f"] if "Fn(" in f["ty"]]
        if len(fnf) != 1:
            r.skip()
            continue

        def reads(m):
            out = set()
            for g in F.family(m):
                for p in util.all_places(F.fns[g]):
                    for ad, f in mir.proj_fields(p):
                        if f in fnf:
                            out.add(f)
                for u in F.fns[g].get("upvars", []):
                    pass
            return out
        re_, rf = reads(est), reads(fit)
        if re_ == rf == set(fnf):
            r.ok(name, f"estimate and fitness both evaluate `{fnf[0]}`")
        elif not re_ and not rf:
            r.skip()
        else:
            r.fail(name, f"only {'estimate' if re_ else 'fitness'} uses `{fnf[0]}`: quoted change and objective value are computed by different measures", F.loc(est))


# ---- S1: sign agreement between the quoted change and the objective value (E-S) ----------------------------------------
FEAT = "vrp_core::construction::features::"


def s1_sign_agreement(F, r):
    from .. import signs
    # (a) unassigned jobs: fitness adds estimator(job) per unassigned job, the quote for assigning a job is its negative
    E = signs.Engine(F, {}, {"function::Fn::call": lambda e, a, vn: signs.num(signs.POS, None, vn)})
    est = [m for m in F.trait_impl_methods("vrp_core::models::goal::FeatureObjective::estimate") if "MinimizeUnassignedObjective" in m]
    fit = [m for m in F.trait_impl_methods("vrp_core::models::goal::FeatureObjective::fitness") if "MinimizeUnassignedObjective" in m]
    if len(est) != 1 or len(fit) != 1:
        raise AnchorError("MinimizeUnassignedObjective::estimate/fitness")
    a = E.analyse(est[0])
    S = signs.as_num(a.ret)[1] if a.ret else signs.TOP
    if S <= signs.NONPOS and "-" in S:
        r.ok("MinimizeUnassigned::estimate", "assigning a job is quoted as -estimator(job) (sign {-,0} for a positive estimator)")
    else:
        r.fail("MinimizeUnassigned::estimate", f"for a positive job estimator the quote has sign {{{','.join(sorted(S))}}}: assigning a job must be quoted as the DECREASE of the "
               "unassigned-jobs objective (−estimator), otherwise the cheapest quote is not the cheapest change", F.loc(est[0]))
    cls = [c for c in F.children.get(fit[0], []) if any(t["callee"].endswith("function::Fn::call") for _, t in mir.calls(F.fns[c]))]
    if len(cls) != 1:
        raise AnchorError(f"MinimizeUnassigned::fitness: {len(cls)} closures apply the estimator")
    a = E.analyse(cls[0])
    S = signs.as_num(a.ret)[1] if a.ret else signs.TOP
    if S == signs.POS:
        r.ok("MinimizeUnassigned::fitness", "sums +estimator(job) over unassigned jobs")
    else:
        r.fail("MinimizeUnassigned::fitness", f"each unassigned job contributes a term of sign {{{','.join(sorted(S))}}} (expected +estimator)", F.loc(cls[0]))
    # (b) number of tours: opening a tour is quoted as exactly the change of the tour count
    E2 = signs.Engine(F, {}, {})
    n = 0
    for fid in sorted(F.fns):
        fn = F.fns[fid]
        if fn["kind"] == "Closure" or "::promoted[" in fid or not fid.startswith(FEAT + "fleet_usage::create_"):
            continue
        route_cl = [c for c in F.children.get(fid, []) if F.fns[c]["parent"] == fid and any("RouteContext" in t for t in F.fns[c]["locals"][2:3])]
        sol_cl = [c for c in F.children.get(fid, []) if F.fns[c]["parent"] == fid and any("SolutionContext" in t for t in F.fns[c]["locals"][2:3])]
        if len(route_cl) != 1 or len(sol_cl) != 1:
            continue
        ra, sa = E2.analyse(route_cl[0]), E2.analyse(sol_cl[0])
        rv, sv = signs.as_num(ra.ret) if ra.ret else signs.num(signs.TOP), signs.as_num(sa.ret) if sa.ret else signs.num(signs.TOP)
        name = util.short_fn(fid)
        counts_tours = any(t["callee"].endswith(("::len", "::count")) for g in F.family(sol_cl[0]) if g in F.fns for _, t in mir.calls(F.fns[g])) and sv[1] != signs.TOP
        if not counts_tours:
            r.ok(f"{name}", "not a tour-count objective (solution estimate is not a route count): not additive, not decided")
            continue
        n += 1
        unit = 1.0 if "+" in sv[1] else -1.0
        e_empty = signs.Engine(F, {}, {"Tour::job_count": lambda e, a, vn: signs.num(signs.ZERO, {0}, vn), "Tour::has_jobs": lambda e, a, vn: ("bool", False)})
        e_used = signs.Engine(F, {}, {"Tour::job_count": lambda e, a, vn: signs.num(signs.POS, None, vn), "Tour::has_jobs": lambda e, a, vn: ("bool", True)})
        ve = signs.as_num(e_empty.analyse(route_cl[0]).ret or signs.num(signs.TOP))
        vu = signs.as_num(e_used.analyse(route_cl[0]).ret or signs.num(signs.TOP))
        if ve[2] == frozenset({unit}) and vu[2] == frozenset({0.0}):
            r.ok(f"{name}: quote", f"inserting into an unused tour is quoted as {unit:+.0f} (the change of the solution value {signs.show(sv)} per tour), into a used tour as 0")
        else:
            r.fail(f"{name}: quote", f"inserting into an unused tour is quoted as {signs.show(ve)} and into a used tour as {signs.show(vu)}, but the objective value "
                   f"({signs.show(sv)}) changes by {unit:+.0f} exactly when a tour gets its first job: quote and objective change disagree", F.loc(route_cl[0]))
    if n < 2:
        raise AnchorError(f"only {n} tour-count features found")


def q3_value_counted_once(F, r):
    """served value: the fitness counts every served JOB once (tour.jobs()), as the evaluator quotes a job's value once at route level — not once per activity"""
    fit = [m for m in F.trait_impl_methods("vrp_core::models::goal::FeatureObjective::fitness") if "MaximizeTotalValueObjective" in m]
    if len(fit) != 1:
        raise AnchorError("MaximizeTotalValueObjective::fitness")
    fam = F.family(fit[0])
    calls = {t["callee"] for g in fam for _, t in mir.calls(F.fns[g])}
    per_job = any(c.endswith("tour::Tour::jobs") for c in calls)
    per_act = any(c.endswith("tour::Tour::all_activities") or c.endswith("tour::Tour::activities_slice") or c.endswith("tour::Tour::get") for c in calls)
    if per_job and not per_act:
        r.ok("MaximizeTotalValue::fitness", "sums the value of tour.jobs(): each served job once")
    else:
        r.fail("MaximizeTotalValue::fitness", "the fitness walks over ACTIVITIES instead of the tour's job set: a multi-activity job (pickup + delivery) is counted once per activity, while its value "
               "is quoted once when it is inserted — quote and objective change disagree", F.loc(fit[0]))


def e1_estimate_leg_law(F, r):
    """distance / duration quote of a position: new legs prev->target->next minus the replaced leg prev->next; for a tour without jobs (its start->end leg is not part of
    the objective yet) and at an open end nothing is subtracted. Finite evaluation of estimate_leg."""
    from .. import ordeval as oe
    el = F.find1("transport::estimate_leg")
    fn = F.fns[el]
    cnt = {"i": 0}

    def est(i_, a, h, rl):
        cnt["i"] += 1
        return oe.sym(f"leg{cnt['i']}")
    actx = [i for i in range(1, fn["argc"] + 1) if fn["locals"][i].endswith("ActivityContext<'_>") or "ActivityContext" in fn["locals"][i]]
    if len(actx) != 1:
        raise AnchorError("estimate_leg: ActivityContext parameter")
    actx = actx[0]
    seen = set()
    for has_jobs in (False, True):
        for has_next in (False, True):
            heap = {(f"a{actx}", "next"): (oe.some(oe.ref(oe.sym("nxt"))) if has_next else oe.NONE)}
            it = oe.Interp(F, el, {i: oe.ref(oe.sym(f"a{i}")) for i in range(1, fn["argc"] + 1)}, fresh=True, enum_results=True, max_steps=3000, heap=heap,
                           call_models={"function::Fn::call": est, "tour::Tour::has_jobs": lambda i_, a, h, rl, v=has_jobs: ("bool", v)})
            it.name_values = True
            orig = it._run

            def run(choices, orig=orig):
                cnt["i"] = 0
                return orig(choices)
            it._run = run
            try:
                paths = it.explore(max_paths=200)
            except oe.Undecided as e:
                r.ok("estimate_leg", f"not decided: not evaluable over the finite orderings ({e})")
                return
            for p in paths:
                ret = p.ret[1] if p.ret and p.ret[0] == "sym" else str(p.ret)
                legs = cnt["i"]
                inst = f"estimate_leg [tour has jobs={has_jobs}, next={'Some' if has_next else 'None'}]"
                seen.add((has_jobs, has_next))
                subtract_expected = has_jobs and has_next
                # the replaced leg is the third leg estimate (prev->target, target->next, prev->next); a result that is the plain sum is named after prev_target_next
                subtracted = legs >= 3 and not ret.startswith("prev_target_next")
                if subtract_expected and not subtracted:
                    r.fail(inst, "the replaced leg prev->next is not subtracted: inserting between two served activities is quoted with the full new legs", F.loc(el))
                elif not subtract_expected and (legs >= 3 or (has_next and legs >= 3)):
                    r.fail(inst, "the leg prev->next is estimated and subtracted although it is not part of the objective yet (tour without jobs) or does not exist (open end): the "
                           "first job of a tour whose end differs from its start is quoted too cheap", F.loc(el))
                else:
                    r.ok(inst, "new legs - replaced leg" if subtract_expected else "new legs only")
    if len(seen) < 4:
        r.fail("estimate_leg: coverage", f"only {sorted(seen)} combinations evaluated", F.loc(el))


def run(ctx):
    ctx.explanation = (
        "Structure of the quote: the cost stored for a position is goal.estimate(activity move) + the route-level estimate, which is threaded unchanged "
        "from eval_job_insertion_in_route down to every leg, carried into the success and accumulated by addition for multi jobs; Goal::estimate yields one "
        "component per layer in layer order (Q1). Estimate and fitness use the same measure: Distance/Duration objectives estimate with the TransportCost "
        "method that also feeds the cached total their fitness reads; single-closure objectives evaluate the same closure in both methods (Q2). Sign / unit "
        "agreement by abstract interpretation (S1): assigning a job is quoted as -estimator(job) while the fitness sums +estimator(job); inserting into an unused "
        "tour is quoted as exactly the +-1 by which the tour-count value changes, into a used tour as 0.")
    ctx.explanation += ' The cached tour distance that the distance fitness reads is accumulated over legs queried in travel direction (shared rule C01-D1).'
    ctx.not_decided = "numeric equality of quote and objective change; objectives with two independent closures beyond the tour count (arrival time, WorkBalance)."
    ctx.run("C20-Q1", "quote = route-level estimate + activity-level estimate, threaded to every leg; one component per layer", q1_quote_composition, floor=9)
    ctx.run("C20-S1", "sign/size agreement of quote and objective change: unassigned jobs (−estimator vs +estimator), tour count (±1 per opened tour)", s1_sign_agreement, floor=4)
    ctx.run("C20-Q3", "served value: every served job counted once in the fitness", q3_value_counted_once, floor=1)
    ctx.run("C20-E1", "distance/duration quote: new legs minus the replaced leg, nothing subtracted for a tour without jobs or an open end", e1_estimate_leg_law, floor=1)
    try:
        from . import c09
        ctx.run("C09-I2", "InsertionCost Add/Sub are element-wise over ALL layers (quotes are sums of layer vectors)", c09.i2_arith, floor=4)
    except (ImportError, AttributeError):
        pass
    from . import c01 as _c01
    ctx.run("C01-D1", "routing legs are queried in travel direction (the cached tour distance / duration feeds the fitness and the report)", _c01.d1_leg_direction, floor=4)
    ctx.run("C20-Q2", "estimate and fitness use the same measure", q2_same_measure, floor=4)
