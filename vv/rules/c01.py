"""C01 — returned tours never violate a hard constraint: structural gate / assembly / guard clauses."""
import re

from .. import cg, kv, mir, util
from ..facts import AnchorError, strip_generics, tyname

H = "vrp_core::construction::heuristics::"
EVAL_MOD = H + "evaluators"
GOAL_EVAL = "vrp_core::models::goal::GoalContext::evaluate"
MOVE_ROUTE = H + "context::MoveContext::<'a>::route"
MOVE_ACT = H + "context::MoveContext::<'a>::activity"
SINGLE_CTX = EVAL_MOD + "::SingleContext"
ACTIVITY = "vrp_core::models::solution::route::Activity"
MAKE_SUCCESS = H + "insertions::InsertionResult::make_success"
SUCCESS_ADT = H + "insertions::InsertionSuccess"
TOUR = "vrp_core::models::solution::tour::Tour::"
SOLCTX = H + "context::SolutionContext"


def _eval_calls(fn, kind=None):
    """(bi, term, level) for GoalContext::evaluate calls; level 'route'|'activity'|'?' from the MoveContext ctor"""
    out = []
    for bi, t in mir.calls(fn):
        if t["callee"] != GOAL_EVAL:
            continue
        lvl = "?"
        if len(t["args"]) > 1:
            for k, v, p in mir.trace(fn, t["args"][1]):
                if k == "call":
                    c = fn["bbs"][v]["t"]["callee"]
                    if c == MOVE_ROUTE:
                        lvl = "route"
                    elif c == MOVE_ACT:
                        lvl = "activity"
        if kind is None or kind == lvl:
            out.append((bi, t, lvl))
    return out


def _none_edges(fn, evals):
    edges = []
    for bi, t, lvl in evals:
        e = mir.variant_edge(mir.option_edges(fn, bi), 0)
        if e:
            edges.append(e)
    return edges


def g1_activity_gate(F, r):
    found = 0
    for fid, fn in F.fns.items():
        stores = []
        for bi, si, s in mir.stmts(fn):
            pf = mir.proj_fields(s["d"])
            if pf and pf[-1] == (SINGLE_CTX, "place") and s["r"].get("o"):
                roots = mir.trace(fn, s["r"]["o"][0]) if s["r"]["k"] == "use" else ({("agg", (bi, si), ())} if s["r"]["k"] == "agg" else set())
                if any(k == "agg" and fn["bbs"][v[0]]["s"][v[1]]["r"].get("n", "").endswith("Option#Some") for k, v, p in roots):
                    stores.append((bi, s))
                elif not all(k == "agg" and fn["bbs"][v[0]]["s"][v[1]]["r"].get("n", "").endswith("Option#None") for k, v, p in roots):
                    stores.append((bi, s))  # unknown value stored into the marker: treat as a success marker
        if not stores:
            continue
        found += 1
        evals = _eval_calls(fn, "activity")
        edges = _none_edges(fn, evals)
        name = util.short_fn(fid)
        if not edges:
            r.fail(name, "position marked feasible (SingleContext.place = Some) in a function without an activity-level GoalContext::evaluate gate", F.loc(fid, stores[0][1]["ln"]))
            continue
        # writes to the evaluated activity's place
        tw = []
        for bi, si, s in mir.stmts(fn):
            pf = mir.proj_fields(s["d"])
            if pf and pf[0] == (ACTIVITY, "place") and len(pf) > 1:
                tw.append(bi)
        none_tgts = [e[1] for e in edges]
        for bi, s in stores:
            gated = bi not in mir.reach(fn, [0], blocked_edges=edges)
            per_iter = bi not in mir.reach_from_succs(fn, bi, blocked_edges=edges)
            dirty = False
            after_gate = mir.reach(fn, none_tgts, blocked_edges=edges)
            for w in tw:
                if w in after_gate and (bi == w or bi in mir.reach_from_succs(fn, w, blocked_edges=edges)):
                    # same-block: write before store inside the block counts too
                    dirty = True
            if gated and per_iter and not dirty:
                r.ok(name, "feasibility marker dominated by the None edge of evaluate(activity move) of the same iteration; target.place untouched in between")
            elif not gated:
                r.fail(name, "a path reaches `single_ctx.place = Some(..)` without taking the None edge of goal.evaluate(activity move): position reported feasible without constraint evaluation", F.loc(fid, s["ln"]))
            elif not per_iter:
                r.fail(name, "feasibility marker can be reached again without a new goal.evaluate in that loop iteration (stale verdict reused for another place/time window)", F.loc(fid, s["ln"]))
            else:
                r.fail(name, "target.place.* is modified between the constraint evaluation and the feasibility marker: evaluated move differs from the reported one", F.loc(fid, s["ln"]))
    if not found:
        raise AnchorError("no function stores Some into SingleContext.place")


def _reaches(F, start, target, within_module):
    par = cg.reach(F, [start], stop=lambda g: g != target and not strip_generics(g).lstrip("<").startswith(within_module), cha=False)
    return target in par


def g2_route_gate(F, r):
    entries = [i for i, f in F.fns.items() if f["kind"] != "Closure" and f["module"] == EVAL_MOD and f["vis"] in ("pub", "crate") and "::promoted[" not in i]
    n = 0
    for e in entries:
        fn = F.fns[e]
        targets = []
        for bi, t in mir.calls(fn):
            tg = t["res"] or t["callee"]
            if tg == MAKE_SUCCESS or (tg in F.fns and F.fns[tg]["module"] == EVAL_MOD and _reaches(F, tg, MAKE_SUCCESS, EVAL_MOD)):
                targets.append((bi, t))
        if not targets:
            continue
        n += 1
        edges = _none_edges(fn, _eval_calls(fn, "route"))
        name = util.short_fn(e)
        for bi, t in targets:
            if edges and bi not in mir.reach(fn, [0], blocked_edges=edges):
                r.ok(f"{name}->{t['callee'].split('::')[-1]}", "activity-level analysis reachable only through the None edge of evaluate(route move)")
            else:
                r.fail(f"{name}->{t['callee'].split('::')[-1]}", "public evaluator entry reaches the insertion analysis without (or around) the route-level goal.evaluate gate: "
                       "route-level hard constraints (skills, locks, compatibility, groups, tour size ...) are skipped", F.loc(e, t["ln"]))
    if n < 2:
        raise AnchorError(f"only {n} public evaluator entries reach make_success")


def g3_success_construction(F, r):
    for fid, fn in F.fns.items():
        for bi, si, s in mir.stmts(fn):
            rv = s["r"]
            if rv["k"] == "agg" and rv.get("n") == SUCCESS_ADT + "#InsertionSuccess":
                root = F.root_of(fid)
                if root == MAKE_SUCCESS:
                    r.ok("InsertionSuccess{..} in make_success")
                    continue
                # must be a field-wise copy of an existing success
                good = True
                thru = mir.PASS_THROUGH_CALLS + ("core::iter::traits::iterator::Iterator::map", "core::iter::traits::iterator::Iterator::collect",
                                                 "core::iter::traits::iterator::Iterator::cloned", "core::slice::<impl [T]>::iter")
                for fname, o in zip(rv.get("fs", []), rv["o"]):
                    roots = mir.trace(fn, o, through_calls=thru)
                    ps = [p for k, v, p in roots]
                    if not ps or not all(fname in p and any(x.startswith("Success::") for x in p) for p in ps):
                        good = False
                if good:
                    r.ok(f"InsertionSuccess{{..}} in {util.short_fn(root)}", "field-wise copy of an evaluated success")
                else:
                    r.fail(f"InsertionSuccess{{..}} in {util.short_fn(root)}", "an insertion success is fabricated outside InsertionResult::make_success (not a copy of an evaluated one): it would be applied without constraint evaluation", F.loc(fid, s["ln"]))
    callers = cg.callers(F, MAKE_SUCCESS)
    if not callers:
        raise AnchorError("make_success has no callers")
    for cfid, kind, bi, t in callers:
        fn = F.fns[cfid]
        root = F.root_of(cfid)
        name = util.short_fn(cfid)
        if F.fns[root]["module"] != EVAL_MOD:
            r.fail(f"make_success<-{name}", "InsertionResult::make_success called outside the evaluator module: success not backed by constraint evaluation", F.loc(cfid, t["ln"] if t else None))
            continue
        # control dependence on a success marker: Some-edge of a discriminant of a `.place` field or true edge of MultiContext::is_success
        gates = mir.field_discr_edges(fn, SINGLE_CTX, "place", 1)
        for cb, ct in mir.calls(fn):
            if ct["callee"].endswith("MultiContext::is_success"):
                be = mir.bool_edges(fn, cb)
                if be:
                    gates.append(be[True])
        if gates and bi not in mir.reach(fn, [0], blocked_edges=gates):
            r.ok(f"make_success<-{name}", "dominated by the success marker (place is Some / MultiContext::is_success)")
        else:
            r.fail(f"make_success<-{name}", "success result built on a path that did not test the feasibility marker", F.loc(cfid, t["ln"]))
    # MultiContext::is_success = violation.is_none && cost.is_some && activities.is_some (E-C over all 8 combos)
    from .. import ordeval as oe
    iss = F.find1("MultiContext::is_success")
    for viol in (oe.NONE, oe.some(oe.sym("v"))):
        for cost in (oe.NONE, oe.some(oe.sym("c"))):
            for acts in (oe.NONE, oe.some(oe.sym("a"))):
                heap = {("m", "violation"): viol, ("m", "cost"): cost, ("m", "activities"): acts}
                it = oe.Interp(F, iss, {1: oe.ref(oe.sym("m"))}, heap=heap)
                for p in it.explore():
                    want = (viol == oe.NONE) and cost != oe.NONE and acts != oe.NONE
                    inst = f"MultiContext::is_success[v={viol[0]},c={cost[0]},a={acts[0]}]"
                    if p.ret == ("bool", want):
                        r.ok(inst)
                    elif p.ret[0] == "bool" and p.ret[1] and not want:
                        r.fail(inst, "multi-job insertion counted as success although a violation is recorded or cost/activities are missing", F.loc(iss))
                    elif p.ret[0] != "bool":
                        r.fail(inst, f"not decidable by the evaluator ({p.ret})", F.loc(iss))
                    else:
                        r.ok(inst, "stricter than required")
    # eval_multi: shadow insertion only for a feasible sub-job
    sh = F.find1("ShadowContext::insert")
    for cfid, kind, bi, t in cg.callers(F, sh):
        fn = F.fns[cfid]
        gates = mir.field_discr_edges(fn, SINGLE_CTX, "place", 1)
        if gates and bi not in mir.reach(fn, [0], blocked_edges=gates):
            r.ok(f"shadow.insert<-{util.short_fn(cfid)}", "sub-job inserted into the shadow route only when its place is Some")
        else:
            r.fail(f"shadow.insert<-{util.short_fn(cfid)}", "sub-job inserted into the shadow route without a feasible place", F.loc(cfid, t["ln"]))


# modules that may put activities into tours, with reasons (module-level, never per line)
INSERT_ALLOWED = {
    "vrp_core::construction::heuristics::insertions": "apply_insertion_success consumes an evaluated InsertionSuccess",
    "vrp_core::construction::heuristics::evaluators": "ShadowContext: private copy used during multi-job evaluation",
    "vrp_core::construction::heuristics::factories": "user locks (documented precondition: relations consistent with constraints)",
    "vrp_core::solver::processing::vicinity_clustering": "expansion of an already accepted cluster job on the final solution",
    "vrp_pragmatic::format::solution::initial_reader": "initial solution supplied by the user (documented as unchecked)",
    "vrp_scientific::common::initial_reader": "initial solution supplied by the user (documented as unchecked)",
    "vrp_core::models::solution::tour": "the primitive itself (insert_last -> insert_at)",
}
ESCAPE_ALLOWED = {
    "activities_mut": {"vrp_core::solver::search::lkh_search": "re-sequencing: only swap of existing activities, result re-validated by repair (C01-R2)"},
    "all_activities_mut": {"vrp_pragmatic::format::solution::initial_reader": "schedule fix-up while reading the user's initial solution"},
    "get_mut": {
        "vrp_core::construction::enablers::reserved_time": "schedule adjustment only (no job identity change, see C14-E3)",
        "vrp_core::construction::enablers::schedule_update": "schedule adjustment only",
        "vrp_core::construction::probing::repair_solution": "commute/schedule copy into a fresh context",
    },
}


def g4_who_may_insert(F, r):
    n = 0
    for prim in ("insert_at", "insert_last"):
        for cfid, kind, bi, t in cg.callers(F, TOUR + prim):
            mod = F.fns[F.root_of(cfid)]["module"]
            inst = f"{prim}<-{util.short_fn(F.root_of(cfid))}"
            n += 1
            if mod in INSERT_ALLOWED:
                r.ok(inst, INSERT_ALLOWED[mod])
            else:
                r.fail(inst, f"un-gated insertion site: module `{mod}` puts an activity into a tour without going through InsertionSuccess/apply_insertion_success", F.loc(cfid, t["ln"] if t else None))
    for prim, allowed in ESCAPE_ALLOWED.items():
        for cfid, kind, bi, t in cg.callers(F, TOUR + prim):
            mod = F.fns[F.root_of(cfid)]["module"]
            inst = f"{prim}<-{util.short_fn(F.root_of(cfid))}"
            if mod in allowed:
                r.ok(inst, allowed[mod])
            else:
                r.fail(inst, f"module `{mod}` obtains mutable access to tour activities through `{prim}` (escape hatch outside the confirmed table)", F.loc(cfid, t["ln"] if t else None))
    # activities_mut users may only swap
    for cfid, kind, bi, t in cg.callers(F, TOUR + "activities_mut"):
        fn = F.fns[cfid]
        d = t["dest"]["l"]
        flow = mir.forward(fn, [d])
        for cb, ct in mir.calls(fn):
            if any(mir.is_place(a) and a["l"] in flow for a in ct["args"][:1]):
                last = ct["callee"].split("::")[-1]
                if last in ("swap", "len", "index", "index_mut", "deref", "deref_mut", "iter", "get", "reverse", "is_empty"):
                    r.ok(f"activities_mut use: {last}")
                else:
                    r.fail(f"activities_mut use: {last}", f"activities vector obtained via activities_mut is modified by `{ct['callee']}` (only permutations are allowed: jobs set would desynchronise)", F.loc(cfid, ct["ln"]))


def k1_slot_types(F, r):
    unknown, missing = kv.check_primitives(F)
    if unknown or missing:
        r.fail("primitive-table", f"any-map primitive table out of date: unknown={sorted(unknown)} missing={sorted(missing)}")
    by_slot = {}
    for o in kv.ops(F):
        if o.vty is None:
            continue
        by_slot.setdefault((o.store, o.key), []).append(o)
    for (store, key), ops in sorted(by_slot.items()):
        w = {kv.norm_v(o.vty, o.module) for o in ops if o.op == "set"}
        g = {kv.norm_v(o.vty, o.module) for o in ops if o.op == "get"}
        inst = f"{store}:{kv.short(key)}"
        if not w or not g:
            r.skip()
            continue
        bad = sorted(x for x in g if not any(_unify(x, y) for y in w))
        if bad:
            rd = [o for o in ops if o.op == "get" and kv.norm_v(o.vty, o.module) in bad][0]
            r.fail(inst, f"slot is read as `{_pp(bad[0])}` but only ever written as {sorted(_pp(x) for x in w)}: the downcast fails silently and the reader always sees `None`",
                   F.loc(rd.fid, rd.ln))
        else:
            r.ok(inst, f"V = {sorted(_pp(x) for x in w)}")


def _pp(t):
    return re.sub(r"@[A-Za-z0-9_:]+", "", re.sub(r"(?:[a-z_][a-z0-9_]*::)+", "", t))


def _unify(a, b):
    """structural equality; a generic parameter scoped to another module (X@mod) unifies with anything"""
    if a == b:
        return True
    ta, tb = _tok(a), _tok(b)
    return _uni(ta, tb)


def _tok(s):
    return re.findall(r"[A-Za-z_][A-Za-z0-9_:@]*|[<>(),\[\];&]", s)


def _uni(ta, tb):
    # token-wise comparison where a param token X@m on either side matches a balanced type on the other side,
    # unless the other side mentions the same param inside (occurs check -> mismatch)
    i = j = 0
    while i < len(ta) and j < len(tb):
        x, y = ta[i], tb[j]
        if x == y:
            i += 1
            j += 1
            continue
        px, py = "@" in x, "@" in y
        if px or py:
            if px and py:
                # different params: same module => different bindings cannot be proven equal -> accept only if same token
                if x.split("@")[1] == y.split("@")[1]:
                    return False
                i += 1
                j += 1
                continue
            if px:
                span = _balanced(tb, j)
                if x in tb[j:j + span]:
                    return False
                if x.split("@")[1] in "".join(t for t in tb[j:j + span] if "@" in t):
                    return False  # same-module param inside: X vs Option<X'>: treated as the same binding family
                i += 1
                j += span
            else:
                span = _balanced(ta, i)
                if y in ta[i:i + span]:
                    return False
                if y.split("@")[1] in "".join(t for t in ta[i:i + span] if "@" in t):
                    return False
                j += 1
                i += span
            continue
        return False
    return i == len(ta) and j == len(tb)


def _balanced(toks, i):
    """length of the type starting at toks[i] (identifier optionally followed by <...>)"""
    if i >= len(toks):
        return 0
    n = 1
    if i + 1 < len(toks) and toks[i + 1] == "<":
        depth = 0
        k = i + 1
        while k < len(toks):
            if toks[k] == "<":
                depth += 1
            elif toks[k] == ">":
                depth -= 1
                if depth == 0:
                    break
            k += 1
        n = k - i + 1
    return n


def k2_no_orphans(F, r):
    """every Dimensions/RouteState slot read from code reachable from a hard constraint has a writer in the workspace"""
    writers = {(o.store, o.key) for o in kv.ops(F) if o.op == "set"}
    readers = {}
    for m in F.trait_impl_methods("vrp_core::models::goal::FeatureConstraint::evaluate"):
        ops, par = kv.reach_ops(F, m)
        for o in ops:
            if o.op == "get":
                readers.setdefault((o.store, o.key), m)
    for (store, key), m in sorted(readers.items()):
        inst = f"{store}:{kv.short(key)}"
        if (store, key) in writers:
            r.ok(inst, "read by a constraint, written somewhere in the workspace")
        else:
            r.fail(inst, f"slot read by hard constraint {util.short_fn(m)} has no writer in the workspace: the constraint silently sees `None` (never binds)", F.loc(m))


# ---- L1 locked guard ----------------------------------------------------------------------------
ROUTE_VEC_REMOVERS = ("remove", "swap_remove", "retain", "retain_mut", "drain", "truncate", "clear", "pop", "split_off")
L1_EXCEPTIONS = {
    "vrp_core::construction::enablers::route_intervals::RouteIntervals::remove_trivial_markers": "marker (reload/recharge) jobs are removed by design and re-added as required; markers are promoted to locked only while in a tour",
    "vrp_core::construction::probing::repair_solution::unassign_invalid_multi_jobs": "works on a freshly built context during repair; invalid partial multi-jobs cannot stay",
    "<vrp_core::solver::processing::vicinity_clustering::VicinityClustering as rosomaxa::evolution::HeuristicSolutionProcessing>::post_process": "replaces a cluster job by its member jobs in place on the final solution",
    "vrp_core::models::solution::tour::Tour::remove_activity_at": "primitive (callers are checked)",
    "vrp_core::construction::features::breaks::OptionalBreakState::<JT>::remove_invalid_breaks": "removes break jobs that became invalid (break jobs are conditional jobs managed by the break feature; checks `locked` itself for required breaks)",
    "vrp_core::solver::search::local::exchange_swap_star::find_insertion_cost": "operates on a private deep copy of the route for cost probing; never stored back",
    "vrp_core::solver::search::local::exchange_swap_star::remove_job_with_copy": "operates on a private deep copy of the route for cost probing",
    "vrp_core::solver::search::local::exchange_inter_route::find_best_insertion_pair": "operates on a private deep copy (test_route) for cost probing",
}


def removal_sites(F):
    sites = {}
    for fid, fn in F.fns.items():
        for bi, t in mir.calls(fn):
            c = t["callee"]
            hit = None
            if c in (TOUR + "remove", TOUR + "remove_activity_at"):
                hit = c.split("::")[-1]
            elif F.root_of(fid) == SOLCTX + "::keep_routes":
                hit = None  # predicate based primitive; its callers are decided by the conservation rule C02-P1
            elif t["args"] and t["argtys"] and t["argtys"][0].startswith("&mut") and c.split("::")[-1] in ROUTE_VEC_REMOVERS:
                roots = mir.trace(fn, t["args"][0])
                if any(p and p[-1] == "routes" and k in ("arg", "local", "call") for k, v, p in roots) and "RouteContext" in t["argtys"][0]:
                    hit = "routes." + c.split("::")[-1]
            if hit:
                sites.setdefault(F.root_of(fid), []).append((fid, t["ln"], hit))
    return sites


def _reads_locked(F, roots):
    fids = []
    for root in roots:
        fids.extend(F.family(root))
    return util.reads_field(F, fids, "context::SolutionContext", "locked")


def _direct_callee_roots(F, root):
    out = set()
    for fid in F.family(root):
        for kind, bi, tg, t in cg.edges(F, fid, cha=False):
            if kind in ("call", "fnval") and tg in F.fns:
                out.add(F.root_of(tg))
    out.discard(root)
    return out


def _guarded(F, root, depth, seen):
    if _reads_locked(F, [root] + sorted(_direct_callee_roots(F, root))):
        return True, f"guard in {util.short_fn(root)} or a direct callee"
    if depth == 0:
        return False, ""
    callers = {F.root_of(c[0]) for c in cg.callers(F, root) if F.root_of(c[0]) != root}
    callers = {c for c in callers if "::promoted[" not in c}
    if not callers:
        return False, ""
    why = []
    for c in sorted(callers):
        if c in seen:
            continue
        ok, w = _guarded(F, c, depth - 1, seen | {c})
        if not ok:
            return False, f"caller {util.short_fn(c)} has no guard"
        why.append(util.short_fn(c))
    return True, "guard in every caller: " + ", ".join(why[:4])


def l1_locked_guard(F, r):
    sites = removal_sites(F)
    if len(sites) < 8:
        raise AnchorError(f"only {len(sites)} removal functions found")
    for root, ss in sorted(sites.items()):
        mod = F.fns[root]["module"]
        if mod == "vrp_core::models::solution::tour" and root != TOUR + "remove_activity_at":
            continue
        name = util.short_fn(root)
        ok, why = _guarded(F, root, 2, {root})
        if ok:
            r.ok(name, why)
        elif root in L1_EXCEPTIONS:
            r.ok(name, "exception: " + L1_EXCEPTIONS[root])
        else:
            r.fail(name, f"removes jobs/routes from a solution ({ss[0][2]}) but neither it, its direct callees nor its callers (2 levels) consult SolutionContext.locked: pinned jobs can be moved off their vehicle", F.loc(ss[0][0], ss[0][1]))


def l3_markers_locked(F, r):
    """reload / recharge marker jobs: removing one from a tour merges two load intervals WITHOUT any constraint evaluation (constraints are asked on insertion only), so
    every marker job that sits in a tour must be in the locked set the ruin operators honour (C01-L1). The promotion step therefore locks (a) the markers it makes
    required and (b) the markers already assigned to tours (those of an initial solution were never promoted). Decided on the backward slice of what is written into
    SolutionContext.locked inside the route-interval enabler: it must reach Tour::jobs (b) and the ignored/required pools (a)."""
    mod = "vrp_core::construction::enablers::route_intervals"
    writes = []
    for fid, fn in sorted(F.fns.items()):
        if fn.get("module") != mod or "::promoted[" in fid:
            continue
        for bi, t in mir.calls(fn):
            last = t["callee"].split("::")[-1]
            if last not in ("extend", "insert") or not t["args"] or not mir.is_place(t["args"][0]):
                continue
            tgt = mir.trace(fn, t["args"][0])
            if not any("locked" in p for _, _, p in tgt):
                continue
            writes.append((fid, fn, t))
    if not writes:
        raise AnchorError("route_intervals: no write into SolutionContext.locked")
    from_tours = from_pools = False
    for fid, fn, t in writes:
        todo = [(fn, a) for a in t["args"][1:]]
        seen = set()
        while todo:
            f2, a = todo.pop()
            leaves, crossed = mir.deep_leaves(f2, a)
            for k, v, p in leaves:
                if k == "closure" and v not in seen and v in F.fns:
                    seen.add(v)
                    for g in F.family(v):
                        for bi2, t2 in mir.calls(F.fns[g]):
                            crossed.add(t2["callee"])
                            if t2["callee"].endswith("RouteIntervals::filter_markers"):
                                from_pools = True
                if any(x in ("ignored", "required") for x in p):
                    from_pools = True
            if any(c.endswith("solution::tour::Tour::jobs") for c in crossed):
                from_tours = True
            if any(c.endswith("RouteIntervals::filter_markers") for c in crossed):
                from_pools = True
    where = F.loc(writes[0][0], writes[0][2]["ln"])
    if from_tours:
        r.ok("marker promotion: assigned markers locked", "the locked set is extended with the marker jobs found in the tours (Tour::jobs)")
    else:
        r.fail("marker promotion: assigned markers locked", "nothing written into SolutionContext.locked derives from the jobs of the tours: a reload/recharge marker that is already assigned "
               "(e.g. through an initial solution) is never locked, a ruin step may remove it and the merged interval exceeds the capacity without any constraint being asked", where)
    if from_pools:
        r.ok("marker promotion: promoted markers locked", "the markers made required are locked")
    else:
        r.fail("marker promotion: promoted markers locked", "the marker jobs moved to `required` are not written into the locked set", where)


TCOST = "vrp_core::models::problem::costs::TransportCost::"
LEG_RANK = {"prev": 0, "first": 0, "start": 0, "from": 0, "target": 1, "next": 2, "second": 2, "end": 2, "to": 2}


def _declared_leg_role(fn, op):
    """role declared by the name of the variable the operand is a copy of (next_act_location, prev_loc, ...)"""
    cur = op
    for _ in range(6):
        if not mir.is_place(cur) or cur["p"]:
            return None
        nm = fn["names"].get(str(cur["l"]))
        if nm:
            for role in ("next", "prev", "target"):
                if role in nm.split("_") or nm.startswith(role + "_") or nm == role:
                    return role
            return None
        ds = mir.defs(fn).get(cur["l"], [])
        if len(ds) != 1 or ds[0][0] != "s" or ds[0][3]["r"]["k"] != "use":
            return None
        cur = ds[0][3]["r"]["o"][0]
    return None


def _base_name_role(fn, op):
    """role declared by the exact name of the variable the operand is a projection of (`from.place.location`, `to.place.location` in a `(from, to)` pattern)"""
    cur = op
    for _ in range(6):
        if not mir.is_place(cur):
            return None
        nm = fn["names"].get(str(cur["l"]))
        if nm:
            return nm if nm in ("from", "to") else None      # only the unambiguous pair; `start`/`first`/`end` name tour positions, not leg ends
        ds = mir.defs(fn).get(cur["l"], [])
        if len(ds) != 1 or ds[0][0] != "s" or ds[0][3]["r"]["k"] not in ("use", "ref") or not mir.is_place(ds[0][3]["r"]["o"][0]):
            return None
        nxt = ds[0][3]["r"]["o"][0]
        if any(isinstance(e, list) and e[0] == "f" for e in nxt["p"]) and not fn["names"].get(str(nxt["l"])):
            return None     # a field of an unnamed aggregate: no declaration
        cur = nxt
    return None


def _leg_rank(fn, op):
    role = _declared_leg_role(fn, op) or _base_name_role(fn, op)
    if role:
        return {role}
    out = set()
    for k, v, p in mir.trace(fn, op):
        hit = [x for x in p if x in ("prev", "target", "next")]
        if hit:
            out.add(hit[0])
            continue
        if k in ("arg", "local"):
            nm = fn["names"].get(str(v))
            if nm in LEG_RANK:
                out.add(nm)
            else:
                out.add("?")
        else:
            out.add("?")
    return out


def d1_leg_direction(F, r):
    """travel legs are evaluated in travel direction: (prev -> target), (target -> next), (prev -> next)"""
    n = 0
    for fid, fn in F.fns.items():
        if not fid.lstrip("<").startswith(("vrp_core::construction", "vrp_core::models::problem::costs")):
            continue
        for bi, t in mir.calls(fn):
            if not (t["callee"].startswith(TCOST) and t["callee"].split("::")[-1] in ("distance", "duration") and len(t["args"]) >= 4):
                continue
            a = _leg_rank(fn, t["args"][2])
            b = _leg_rank(fn, t["args"][3])
            if len(a) != 1 or len(b) != 1 or "?" in a or "?" in b:
                r.skip()
                continue
            n += 1
            x, y = list(a)[0], list(b)[0]
            inst = f"{util.short_fn(fid)}: {t['callee'].split('::')[-1]}({x}->{y})"
            # arrival-anchored (backward) evaluation legitimately names the later activity first only when anchored by TravelTime::Arrival
            if LEG_RANK[x] < LEG_RANK[y]:
                r.ok(inst, "leg evaluated in travel direction")
            else:
                r.fail(inst, f"routing data is queried for the leg {x} -> {y}, i.e. against the travel direction: with asymmetric matrices (one-way unreachable legs, "
                             "direction dependent durations) the constraint/estimate is computed for the wrong leg", F.loc(fid, t["ln"]))
    if n < 4:
        raise AnchorError(f"only {n} rank-resolved leg queries")


# ---- O1 component-wise load comparisons ------------------------------------------------------------
O1_HEURISTIC = {
    "vrp_core::construction::features::reloads::ReloadFeatureFactory::<T>::build": "load-schedule threshold for placing reloads: a heuristic, not a feasibility verdict (incomparable => treated as above threshold)",
}


# ---- T2: every rescheduled departure is bounded by the latest allowed shift start ------------------------------------
URD = "vrp_core::construction::enablers::schedule_update::update_route_departure"


# which side of the shift's start window bounds the new departure (confirmed by reading; a caller not listed must read both sides)
T2_SIDES = {
    "vrp_core::construction::enablers::departure_time::advance_departure_time": ("latest",),     # moves the departure later: min(latest_allowed_departure)
    "vrp_core::construction::enablers::departure_time::recede_departure_time": ("earliest",),    # moves it earlier: bounded by earliest_allowed_departure
    "<vrp_core::construction::features::tour_limits::TravelLimitState as vrp_core::models::goal::FeatureState>::notify_failure": ("latest",),  # candidate departures filtered by start_latest
}


def _start_latest_reads(F, g, side="latest"):
    """reads of `<vehicle place>.time.<side>` in body g that are not known to concern the END place: the vehicle place type is shared by `detail.start` and
    `detail.end`, so a read counts unless its provenance (field path, closure-argument receiver, variable name) says `end`"""
    fn = F.fns[g]
    hits = []
    for p in util.all_places(fn):
        pf = mir.proj_fields(p)
        if len(pf) < 2 or pf[-1][1] != side or pf[-2][1] != "time" or not pf[-2][0].endswith("::VehiclePlace"):
            continue
        names = [x[1] for x in pf[:-2]]
        l = p["l"]
        nm = fn["names"].get(str(l), "")
        is_end = "end" in names or nm.startswith("end") or nm.endswith("_end")
        if fn["kind"] == "Closure" and l == 1 and pf and str(pf[0][1]).isdigit():
            ups = fn.get("upvars", [])
            i = int(pf[0][1])
            if i < len(ups) and (ups[i][0].startswith("end") or ups[i][0].endswith("_end")):
                is_end = True
        if fn["kind"] == "Closure" and 2 <= l <= fn["argc"]:
            par = F.fns.get(g[:g.rindex("::{closure#")]) if "::{closure#" in g else None      # the immediately enclosing body
            if par:
                for bi, si, st in mir.stmts(par):
                    if st["r"]["k"] == "agg" and st["r"].get("n") == g and not st["d"]["p"]:
                        cl = st["d"]["l"]
                        for bj, t in mir.calls(par):
                            if any(mir.is_place(a) and a["l"] == cl and not a["p"] for a in t["args"][1:]) and t["args"]:
                                tr = mir.trace(par, t["args"][0])
                                if any("end" in pr and "start" not in pr for k, v, pr in tr):
                                    is_end = True
        if not is_end:
            hits.append(p)
    return hits


def t2_departure_bounded(F, r):
    if URD not in F.fns:
        raise AnchorError(URD)
    sites = [(c, t) for (c, kind, bi, t) in cg.callers(F, URD, cha=False) if t is not None]
    if len(sites) < 3:
        raise AnchorError(f"only {len(sites)} callers of update_route_departure (3 counted)")
    seen = set()
    for c, t in sites:
        root = F.root_of(c)
        if root in seen:
            continue
        seen.add(root)
        scope = list(F.family(root))
        for g in sorted(_direct_callee_roots(F, root)):
            if F.fns[g]["module"].startswith(("vrp_core::construction::enablers", "vrp_core::construction::features")):
                scope += F.family(g)
        name = util.short_fn(root)
        for side in T2_SIDES.get(root, ("latest", "earliest")):
            reads = [(g, p) for g in scope for p in _start_latest_reads(F, g, side)]
            if reads:
                r.ok(f"{name}: new departure vs {side}", f"bounded by the shift's {side} start ({len(reads)} read(s) of start.time.{side} in {util.short_fn(reads[0][0])})")
            else:
                r.fail(f"{name}: new departure vs {side}", f"a new departure time is handed to update_route_departure, but nothing on the way reads the shift's {side} allowed start "
                       f"(start.time.{side}): the tour can depart outside the vehicle's start window — a time-window violation of the vehicle", F.loc(c, t["ln"]))


def q1_no_self_comparison(F, r):
    from .common import lints_rule
    n = lints_rule(F, r, ("vrp_core::construction::features", "vrp_core::construction::enablers", "vrp_core::models::common", "vrp_core::models::problem",
                                    "vrp_core::models::goal", "vrp_pragmatic::format::problem"), "feasibility guard")
    if n < 300:
        r.fail("comparison floor", f"only {n} comparison sites scanned in constraint code")


def _can_fit_loop_form(F, r, m, name):
    """can_fit written as a loop over the zipped dimensions: evaluated over 0, 1 and 2 dimensions (Iterator::next as a finite script of (capacity_i, load_i) pairs)"""
    from .. import ordeval as oe
    if not any(t["callee"].endswith("Iterator::zip") for _, t in mir.calls(F.fns[m])):
        r.fail(f"{name}: pairing", "capacity and load dimensions are no longer paired with zip", F.loc(m))
        return
    total = 0
    for length in (0, 1, 2):
        state = {"i": 0}

        def nxt(i_, a, h, rl, state=state, length=length):
            state["i"] += 1
            if state["i"] <= length:
                return oe.some(("tuple", [oe.ref(oe.sym(f"cap{state['i']}")), oe.ref(oe.sym(f"load{state['i']}"))]))
            return oe.NONE
        it = oe.Interp(F, m, {1: oe.ref(oe.sym("a")), 2: oe.ref(oe.sym("b"))}, fresh=True, max_steps=4000, call_models={"Iterator::next": nxt})
        orig = it._run

        def run(choices, orig=orig, state=state):
            state["i"] = 0
            return orig(choices)
        it._run = run
        try:
            paths = it.explore(max_paths=400)
        except oe.Undecided as e:
            r.ok(f"{name}: law", f"not decided: the loop form is not evaluable over the finite orderings ({e})")
            return
        for p in paths:
            fits = []
            for a in p.assumptions:
                if len(a) == 3 and isinstance(a[2], str) and a[0] != "switch" and a[2] in "LEG":
                    o = a[2] if a[0].startswith("cap") else oe.rev(a[2])
                    fits.append(o in "GE")
            total += 1
            want = all(fits)
            inst = f"{name} [{length} dimension(s): " + ",".join("fits" if x else "exceeds" for x in fits) + "]"
            if p.ret == ("bool", want) and (want is False or len(fits) == length):
                r.ok(inst, "fits" if want else "does not fit")
            else:
                r.fail(inst, f"answers {p.ret} after comparing {len(fits)} of {length} dimension(s): a load fits iff it does not exceed the capacity in EVERY dimension", F.loc(m))
    if total < 4:
        r.fail(f"{name}: coverage", f"only {total} combinations explored", F.loc(m))


def o3_can_fit_law(F, r):
    """can_fit(capacity, load) holds iff load <= capacity in every dimension (E-C over <, =, >)"""
    from .. import ordeval as oe
    ms = [m for m in F.trait_impl_methods("vrp_core::models::common::load::Load::can_fit") if m.startswith("<vrp_core")]
    if len(ms) < 2:
        raise AnchorError(f"only {len(ms)} Load::can_fit impls")
    for m in ms:
        name = util.short_fn(m)
        cls = list(F.children.get(m, []))
        if cls:
            if len(cls) != 1:
                raise AnchorError(f"{name}: {len(cls)} closures")
            quant = [t["callee"].split("::")[-1] for _, t in mir.calls(F.fns[m]) if t["callee"].split("::")[-1] in ("all", "any", "fold", "try_fold", "find", "position")]
            if quant != ["all"]:
                r.fail(f"{name}: quantifier", f"dimensions are combined with {quant or 'no quantifier'} instead of `all`: a load exceeding one dimension fits", F.loc(m))
            else:
                r.ok(f"{name}: quantifier", "all dimensions must fit")
            zips = [t for _, t in mir.calls(F.fns[m]) if t["callee"].endswith("Iterator::zip")]
            if not zips:
                r.fail(f"{name}: pairing", "capacity and load dimensions are no longer paired with zip", F.loc(m))
            tgt = cls[0]
            it = oe.Interp(F, tgt, {1: oe.ref(("closure", tgt, [])), 2: ("agg", "tuple", {"0": oe.ref(oe.sym("a")), "1": oe.ref(oe.sym("b"))})}, fresh=True)
        else:
            tgt = m
            if any(t["callee"].endswith("Iterator::next") for _, t in mir.calls(F.fns[m])):
                _can_fit_loop_form(F, r, m, name)
                continue
            it = oe.Interp(F, tgt, {1: oe.ref(oe.sym("a")), 2: oe.ref(oe.sym("b"))}, fresh=True)
        n = 0
        try:
            paths = it.explore()
        except oe.Undecided as e:
            r.fail(f"{name}: law", f"not evaluable over the finite orderings: {e}", F.loc(tgt))
            continue
        for p in paths:
            rel = [x for x in p.assumptions if len(x) == 3 and isinstance(x[2], str) and x[2] in "LEG" and x[0] != "switch"]
            if not rel:
                continue
            o = rel[0][2] if rel[0][0].startswith("a") else oe.rev(rel[0][2])
            n += 1
            want = o in "GE"
            inst = f"{name} [capacity {'<=>'['LEG'.index(o)]} load]"
            if p.ret == ("bool", want):
                r.ok(inst, "fits" if want else "does not fit")
            else:
                r.fail(inst, f"answers {p.ret} — a load {'equal to' if o == 'E' else ('above' if o == 'L' else 'below')} the capacity must {'fit' if want else 'not fit'}", F.loc(tgt))
        if n < 3:
            r.fail(f"{name}: coverage", f"only {n} orderings explored", F.loc(tgt))


SK = "vrp_core::construction::features::skills::"
SKILL_LAWS = {"check_all_of": ("all_of", "is_subset"), "check_one_of": ("one_of", "any"), "check_none_of": ("none_of", "is_disjoint")}
# accepted / excluded set tests per requirement kind (equivalent formulations: iterator adapters, explicit loops with `contains`, std set algebra)
SKILL_TESTS = {"check_all_of": ({"is_subset", "all", "contains"}, {"is_disjoint", "is_superset", "any", "intersection"}),
               "check_one_of": ({"any", "contains", "is_disjoint", "intersection"}, {"is_subset", "is_superset", "all"}),
               "check_none_of": ({"is_disjoint", "contains", "any", "intersection"}, {"is_subset", "is_superset", "all"})}


def s1_skill_laws(F, r):
    """skills: allOf is a subset test (job ⊆ vehicle), oneOf an intersection test, noneOf a disjointness test; a job is admitted only if all three hold"""
    from .. import ordeval as oe
    for fname, (field, quant) in SKILL_LAWS.items():
        fid = SK + fname
        if fid not in F.fns:
            raise AnchorError(fid)
        fam = F.family(fid)
        fields = set()
        for g in fam:
            for p in util.all_places(F.fns[g]):
                for adt, f in mir.proj_fields(p):
                    if adt.endswith("JobSkills"):
                        fields.add(f)
        if fields == {field}:
            r.ok(f"{fname}: field", f"reads JobSkills.{field} only")
        else:
            r.fail(f"{fname}: field", f"reads JobSkills.{sorted(fields)} instead of `{field}`: the {field} requirement is checked against another skill list", F.loc(fid))
        fn = F.fns[fid]
        qs = [(g, t) for g in fam for _, t in mir.calls(F.fns[g]) if t["callee"].split("::")[-1] in ("is_subset", "is_superset", "is_disjoint", "any", "all", "contains", "intersection")]
        names = {t["callee"].split("::")[-1] for _, t in qs}
        required, forbidden = SKILL_TESTS[fname]
        if names & forbidden:
            r.fail(f"{fname}: test", f"the {field} requirement is decided with `{'`, `'.join(sorted(names & forbidden))}`: that is the test of another requirement kind "
                   f"({field} needs one of {sorted(required)})", F.loc(fid))
            continue
        if not (names & required):
            r.fail(f"{fname}: test", f"the {field} requirement is decided without any set test ({sorted(required)} expected, found {sorted(names)})", F.loc(fid))
            continue
        sub = [(g, t) for g, t in qs if t["callee"].endswith("is_subset")]
        if sub:
            g, t = sub[0]
            recv = {pr[0] for k, v, pr in mir.trace(F.fns[g], t["args"][0]) if pr}
            arg = {pr[0] for k, v, pr in mir.trace(F.fns[g], t["args"][1]) if pr}
            ra, aa = _roles(F, F.fns[g], t["args"][0]), _roles(F, F.fns[g], t["args"][1])
            job_first = (recv == {"0"} and arg == {"1"}) or ("all_of" in _toks(F.fns[g], t["args"][0]) and "all_of" not in _toks(F.fns[g], t["args"][1]))
            veh_first = (recv == {"1"} and arg == {"0"}) or ("all_of" in _toks(F.fns[g], t["args"][1]) and "all_of" not in _toks(F.fns[g], t["args"][0]))
            if veh_first and not job_first:
                r.fail(f"{fname}: test", "subset test is asked the wrong way round (vehicle skills ⊆ job skills): a vehicle lacking a required skill is admitted", F.loc(g, t["ln"]))
            elif job_first:
                r.ok(f"{fname}: test", "job skills ⊆ vehicle skills")
            else:
                r.ok(f"{fname}: test", "is_subset (direction not determinable from provenance: not decided)")
        else:
            r.ok(f"{fname}: test", "/".join(sorted(names & required)))
    ms = [x for x in F.trait_impl_methods("vrp_core::models::goal::FeatureConstraint::evaluate") if "SkillsConstraint" in x]
    if len(ms) != 1:
        raise AnchorError("SkillsConstraint::evaluate")
    m = ms[0]
    it = oe.Interp(F, m, {1: oe.ref(oe.sym("self")), 2: oe.ref(oe.sym("ctx"))}, variants={"ctx": 0}, fresh=True, enum_results=True,
                   call_models={"::get_job_skills": lambda i_, a, h, rl: oe.some(oe.ref(oe.sym("skills")))})
    seen = set()
    try:
        paths = it.explore()
    except oe.Undecided as e:
        r.fail("SkillsConstraint::evaluate", f"not evaluable: {e}", F.loc(m))
        return
    for p in paths:
        res = {a[3].split("::")[-1]: a[2] for a in p.assumptions if a[0] == "callret" and a[3] and a[3].startswith(SK + "check_")}
        seen |= set(res)
        ok = all(res.values())
        inst = "SkillsConstraint::evaluate [" + ",".join(f"{k[6:]}={'ok' if v else 'no'}" for k, v in sorted(res.items())) + "]"
        admitted = p.ret == oe.NONE
        if admitted and not ok:
            r.fail(inst, "the job is admitted although one of the skill requirements is not met", F.loc(m))
        elif not admitted and ok and len(res) == 3:
            r.fail(inst, "the job is rejected although all skill requirements are met", F.loc(m))
        else:
            r.ok(inst, "admitted" if admitted else "rejected")
    if seen != set(SKILL_LAWS):
        r.fail("SkillsConstraint::evaluate: checks", f"only {sorted(seen)} of the three skill checks are consulted", F.loc(m))


def _toks_deep(fn, op, seen=None, depth=0):
    """like _toks, but also keeps the field names projected out of CALL RESULTS on the way (`next().0.pickup`): names of variables, fields and callees in the
    whole backward slice of the operand"""
    if seen is None:
        seen = set()
    out = set()
    if depth > 14:
        return out
    for k, v, p in mir.trace(fn, op):
        out |= {str(x) for x in p}
        if k in ("arg", "local"):
            nm = fn["names"].get(str(v))
            if nm:
                out.add(nm)
        elif k == "call":
            if ("c", v) in seen:
                continue
            seen.add(("c", v))
            t = fn["bbs"][v]["t"]
            out.add((t["callee"] or "?").split("::")[-1])
            for a in t["args"]:
                out |= _toks_deep(fn, a, seen, depth + 1)
        elif k in ("agg", "bin", "other"):
            if ("s",) + tuple(v) in seen:
                continue
            seen.add(("s",) + tuple(v))
            for a in fn["bbs"][v[0]]["s"][v[1]]["r"].get("o", []):
                out |= _toks_deep(fn, a, seen, depth + 1)
    return out


def _toks(fn, op):
    lv, calls = mir.deep_leaves(fn, op)
    t = set()
    for k, v, p in lv:
        if k in ("arg", "local"):
            nm = fn["names"].get(str(v))
            if nm:
                t.add(nm)
        t |= {str(x) for x in p}
    return t | {c.split("::")[-1] for c in calls}


def _kind(tokens):
    k = set()
    for t in tokens:
        if "dist" in t:
            k.add("distance")
        if "dur" in t:
            k.add("duration")
    return k


def _viol_on_edges(fn, sb):
    """for the switch block sb: {edge target: set of (callee last segment, code tokens)} of the violation constructors reachable first from that edge"""
    out = {}
    t = fn["bbs"][sb]["t"]
    viol = {bi: tt for bi, tt in mir.calls(fn) if tt["callee"].endswith(("ConstraintViolation::skip", "ConstraintViolation::fail"))}
    for tgt in set(mir.succs(fn)[sb]):
        P = mir.preds(fn)
        seen = set() if tgt in viol else mir.reach(fn, [tgt], blocked=set(viol) | {sb})
        first = [b for b in viol if b == tgt or any(q in seen for q in P[b])]
        out[tgt] = [(viol[b]["callee"].split("::")[-1], _toks(fn, viol[b]["args"][0])) for b in first]
    return out


def m1_limit_laws(F, r):
    """tour limits: a violation is raised exactly when current + change exceeds the limit, each limit compared with its own total and reported with its own code"""
    ms = [x for x in F.trait_impl_methods("vrp_core::models::goal::FeatureConstraint::evaluate") if "TravelLimitConstraint" in x]
    if len(ms) != 1:
        raise AnchorError("TravelLimitConstraint::evaluate")
    m = ms[0]
    fn = F.fns[m]
    found = set()
    for bi, si, st in mir.stmts(fn):
        rv = st["r"]
        if rv["k"] != "bin" or rv.get("op") not in ("Lt", "Gt", "Le", "Ge"):
            continue
        ta, tb = _toks(fn, rv["o"][0]), _toks(fn, rv["o"][1])
        la, lb = any("limit" in x for x in ta), any("limit" in x for x in tb)
        if la == lb:
            continue
        op = rv["op"] if lb else {"Lt": "Gt", "Gt": "Lt", "Le": "Ge", "Ge": "Le"}[rv["op"]]      # normalised: total OP limit
        lim, tot = (tb, ta) if lb else (ta, tb)
        sw = [sb for sb, bb in enumerate(fn["bbs"]) if bb["t"]["k"] == "switch" and mir.is_place(bb["t"]["o"]) and bb["t"]["o"]["l"] == st["d"]["l"]]
        if len(sw) != 1:
            raise AnchorError("TravelLimitConstraint::evaluate: limit comparison not switched on directly")
        t = fn["bbs"][sw[0]]["t"]
        f_t = [x for v, x in t["tg"] if v == 0][0]
        edges = _viol_on_edges(fn, sw[0])
        kl, kt = _kind(lim), _kind({x for x in tot if x.startswith("get_total")})
        # the change added to the cached total: which component of calculate_travel?
        tot_op = rv["o"][0] if lb else rv["o"][1]
        idx = set()
        for k, v, pr in mir.trace(fn, tot_op, through_calls=()):
            if k == "bin":
                for o in fn["bbs"][v[0]]["s"][v[1]]["r"]["o"]:
                    for kk, vv, pp in mir.trace(fn, o):
                        if kk == "call" and fn["bbs"][vv]["t"]["callee"].split("::")[-1] in ("calculate_travel", "calculate_travel_delta") and pp:
                            idx.add(pp[0])
        kc = {"0": "distance", "1": "duration"}.get(next(iter(idx)), None) if len(idx) == 1 else None
        on_true = edges.get(t["else"], [])
        on_false = edges.get(f_t, [])
        kcode = _kind(set().union(*[c[1] for c in on_true])) if on_true else set()
        kinds = kl | kt | ({kc} if kc else set()) | kcode
        kc = kc or "not determined"
        kind = next(iter(kl)) if len(kl) == 1 else "?"
        inst = f"TravelLimit: {kind} limit"
        found.add(kind)
        if len(kinds) != 1:
            r.fail(inst, f"the comparison mixes kinds: limit {sorted(kl)}, cached total {sorted(kt)}, change component {kc}, reported code {sorted(kcode)} — each tour limit must be compared with "
                   "its own total + change and reported with its own code", F.loc(m, st["ln"]))
        elif op != "Gt" or not on_true or (on_false and on_false[0][1] == on_true[0][1] and f_t != t["else"] and False):
            r.fail(inst, f"violation is raised on `total {op} limit`" + ("" if on_true else " (no violation on the exceeding side)") + ": a tour exactly at its limit is rejected, or one above it accepted", F.loc(m, st["ln"]))
        else:
            r.ok(inst, f"violation ({on_true[0][0]}, {kind} code) iff cached total + change > limit")
    if found != {"distance", "duration"}:
        r.fail("TravelLimit: limits", f"only {sorted(found)} of the distance/duration limits are compared", F.loc(m))
    # tour size
    ms = [x for x in F.trait_impl_methods("vrp_core::models::goal::FeatureConstraint::evaluate") if "ActivityLimitConstraint" in x]
    if len(ms) != 1:
        raise AnchorError("ActivityLimitConstraint::evaluate")
    hit = False
    for g in F.family(ms[0]):
        gfn = F.fns[g]
        for bi, si, st in mir.stmts(gfn):
            rv = st["r"]
            if rv["k"] != "bin" or rv.get("op") not in ("Lt", "Gt", "Le", "Ge"):
                continue
            ta, tb = _toks(gfn, rv["o"][0]), _toks(gfn, rv["o"][1])
            if "job_activity_count" in ta or "job_activity_count" in tb:
                hit = True
                op = rv["op"] if "job_activity_count" in ta else {"Lt": "Gt", "Gt": "Lt", "Le": "Ge", "Ge": "Le"}[rv["op"]]
                sw = [sb for sb, bb in enumerate(gfn["bbs"]) if bb["t"]["k"] == "switch" and mir.is_place(bb["t"]["o"]) and bb["t"]["o"]["l"] == st["d"]["l"]]
                ed = _viol_on_edges(gfn, sw[0]) if len(sw) == 1 else {}
                tt = gfn["bbs"][sw[0]]["t"] if len(sw) == 1 else None
                on_true = ed.get(tt["else"], []) if tt else []
                if op == "Gt" and on_true and on_true[0][0] == "fail":
                    r.ok("ActivityLimit: tour size", "violation iff activities in tour + activities of the job > limit")
                else:
                    r.fail("ActivityLimit: tour size", f"violation is raised on `size {op} limit`: a tour exactly at its size limit is rejected, or one above it accepted", F.loc(g, st["ln"]))
    if not hit:
        r.fail("ActivityLimit: tour size", "no comparison of the tour's activity count with the limit", F.loc(ms[0]))


def n1_reachable_law(F, r):
    """reachability: an insertion is rejected iff one of the two new legs (prev->target, target->next) has a negative (= unreachable) distance"""
    from .. import ordeval as oe
    ms = [x for x in F.trait_impl_methods("vrp_core::models::goal::FeatureConstraint::evaluate") if "ReachableConstraint" in x]
    if len(ms) != 1:
        raise AnchorError("ReachableConstraint::evaluate")
    m = ms[0]
    cnt = [0]

    def dist(i_, a, h, rl):
        cnt[0] += 1
        return oe.sym("d%d" % cnt[0])
    mod = F.fns[m]["module"]
    helpers = {i for i, f in F.fns.items() if f["kind"] != "Closure" and "::promoted[" not in i and f["module"] == mod and i != m}
    it = oe.Interp(F, m, {1: oe.ref(oe.sym("self")), 2: oe.ref(oe.sym("ctx"))}, variants={"ctx": 1}, fresh=True, enum_results=True, call_models={"TransportCost::distance": dist},
                   inline=helpers)
    try:
        paths = it.explore()
    except oe.Undecided as e:
        r.fail("ReachableConstraint::evaluate", f"not evaluable over the finite orderings: {e}", F.loc(m))
        return
    two = 0
    for p in paths:
        rel = [a for a in p.assumptions if len(a) == 3 and isinstance(a[2], str) and a[0] != "switch" and (a[0].startswith("d") or a[1].startswith("d"))]
        signs_ = ["LEG"["LEG".index(a[2])] if a[0].startswith("d") else oe.rev(a[2]) for a in rel]
        if len(rel) >= 2:
            two += 1
        neg = "L" in signs_
        rejected = p.ret != oe.NONE
        inst = "ReachableConstraint [" + ",".join({"L": "<0", "E": "=0", "G": ">0"}[x] for x in signs_) + "]"
        if neg == rejected:
            r.ok(inst, "rejected" if rejected else "admitted")
        elif neg:
            r.fail(inst, "an insertion with an unreachable (negative-distance) leg is admitted", F.loc(m))
        else:
            r.fail(inst, "an insertion whose new legs are all reachable (distance >= 0) is rejected", F.loc(m))
    if two == 0:
        r.fail("ReachableConstraint: legs", "only one of the two new legs is ever tested", F.loc(m))


TWC = "vrp_core::construction::features::transport::TransportConstraint::evaluate_activity"


def w1_time_window_law(F, r):
    """time windows: evaluate_activity admits a position iff every arrival is not after its latest allowed arrival and the shift does not end before a window
    starts; `fail` (abort the scan) is only raised on facts that do not involve the arrival at the target. Finite evaluation over all orderings of the compared values;
    arithmetic results are opaque symbols named after the variables (`arr_*`, `latest_*`) they define."""
    from .. import ordeval as oe
    if TWC not in F.fns:
        raise AnchorError(TWC)

    def verdict(k):
        return lambda i_, a, h, rl: ("agg", "verdict#" + k, {})
    it = oe.Interp(F, TWC, {1: oe.ref(oe.sym("self")), 2: oe.ref(oe.sym("route_ctx")), 3: oe.ref(oe.sym("actx"))}, fresh=True, enum_results=True, max_steps=4000,
                   call_models={"ConstraintViolation::fail": verdict("fail"), "ConstraintViolation::skip": verdict("skip"), "ConstraintViolation::success": verdict("success")})
    it.name_values = True
    try:
        paths = it.explore(max_paths=20000)
    except oe.Undecided as e:
        r.fail("evaluate_activity", f"not evaluable over the finite orderings: {e}", F.loc(TWC))
        return

    def bad(a):
        """is this assumption a `too late` / `shift over` fact?  None = not a recognised comparison"""
        if a[0] == "callret":
            return bool(a[2]) if a[3] and a[3].endswith("is_some_and") else None
        if len(a) != 3 or a[0] == "switch":
            return None
        x, y, o = a
        if y.split(".")[-1].startswith("latest") or y.startswith("latest"):
            return o == "G"
        if x.split(".")[-1].startswith("latest") or x.startswith("latest"):
            return o == "L"
        if x.endswith("time.end") and y.endswith("time.start"):
            return o == "L"
        if y.endswith("time.end") and x.endswith("time.start"):
            return o == "G"
        return None
    kinds = set()
    allpairs = set()
    n_ok = 0
    first_direct = None
    for p in paths:
        for a in p.assumptions:
            if len(a) == 3 and a[0] != "switch" and isinstance(a[2], str):
                allpairs.add((a[0].split("@")[0], a[1].split("@")[0]))
                if bad(a) is not None:
                    kinds.add((a[0].split("@")[0], a[1].split("@")[0]))
            if len(a) == 3 and a[0].startswith("arr_time_at_next@"):
                ln = int(a[0].split("@")[1])
                first_direct = ln if first_direct is None else min(first_direct, ln)
    if len(allpairs) < 5:
        r.fail("evaluate_activity: comparisons", f"only {len(allpairs)} value comparisons are left ({sorted(allpairs)}): arrivals at the target / next activity are no longer all checked against "
               "their latest times (5 counted: shift end vs prev/target window, arrival at next directly, target window start, arrival at target, arrival at next via target)", F.loc(TWC))
        return
    if len(kinds) < len(allpairs):
        r.ok("evaluate_activity: verdicts", f"not decided: {len(allpairs) - len(kinds)} of {len(allpairs)} comparisons relate variables that are not named `latest_*` / `*.time.end|start` "
             f"({sorted(allpairs - kinds)[:2]}), so the roles of their operands are unknown")
        return
    worst = {}
    for p in paths:
        facts_ = [(a, bad(a)) for a in p.assumptions]
        facts_ = [(a, b) for a, b in facts_ if b is not None]
        v = p.ret[1].split("#")[1] if p.ret and p.ret[0] == "agg" and str(p.ret[1]).startswith("verdict#") else str(p.ret)
        anybad = [a for a, b in facts_ if b]
        key = None
        if v == "success" and anybad:
            a = anybad[0]
            key = ("admitted", a[0].split("@")[0] if a[0] != "callret" else "shift end", a[1].split("@")[0] if a[0] != "callret" else "next window", a[2])
            msg = f"the position is admitted although `{key[1]}` {'<=>'['LEG'.index(a[2])] if a[0] != 'callret' else 'vs'} `{key[2]}` says it is too late / outside the shift"
        elif v in ("fail", "skip") and not anybad:
            key = ("rejected", v)
            msg = f"the position is rejected ({v}) although every compared arrival is on time (an arrival exactly AT its latest time must be admitted)"
        elif v == "fail" and anybad:
            a = anybad[-1]
            position_free = a[0] == "callret" or a[0].endswith("time.end") or a[1].endswith("time.end") or (first_direct is not None and a[0] == f"arr_time_at_next@{first_direct}")
            if not position_free:
                key = ("fail", a[0].split("@")[0], a[1].split("@")[0])
                msg = f"the scan is ABORTED (fail) because `{key[1]}` is after `{key[2]}` — a fact about this position of the target only: later feasible positions are never tried"
        elif v not in ("fail", "skip", "success"):
            key = ("verdict", v)
            msg = f"unrecognised verdict {v}"
        if key is None:
            n_ok += 1
        elif key not in worst:
            worst[key] = msg
    for key, msg in sorted(worst.items()):
        r.fail("evaluate_activity: " + " ".join(str(k) for k in key), msg, F.loc(TWC))
    if not worst:
        r.ok("evaluate_activity: verdicts", f"{n_ok} orderings: admitted iff no arrival is after its latest time and the shift covers the windows; fail only on target-independent facts")
    r.ok("evaluate_activity: comparisons", f"{len(kinds)} distinct comparisons evaluated: " + ", ".join(sorted(f"{a}~{b}".replace("actx.", "") for a, b in kinds))[:300])


HDV = "vrp_core::construction::features::capacity::has_demand_violation"
# which cached load summary each part of a demand is added to (confirmed by reading; from the definition of the summaries)
HDV_PAIRS = {"delivery": {"get_max_past_capacity_at"}, "pickup": {"get_max_future_capacity_at"}, "change": {"get_max_future_capacity_at", "get_current_capacity_at"}}


def _demand_change_law(F, r):
    ch = [i for i in F.fns if i.startswith("vrp_core::models::common::load::Demand") and i.endswith("::change")]
    if len(ch) != 1:
        raise AnchorError(f"Demand::change resolves to {ch}")
    fn = F.fns[ch[0]]
    e = mir.expr(fn, {"l": 0, "p": []})
    terms = {}

    def walk(x, sign):
        rt = x[0]
        if rt[0] == "call" and rt[1].startswith("core::ops::arith::") and len(rt[2]) == 2:
            op = rt[1].split("::")[-1]
            walk(rt[2][0], sign)
            walk(rt[2][1], sign if op == "add" else -sign)
        else:
            part = [p for p in x[1] if p in (".delivery", ".pickup")]
            comp = [p for p in x[1] if p in (".0", ".1")]
            if len(part) == 1 and len(comp) == 1:
                terms[(part[0], comp[0])] = terms.get((part[0], comp[0]), 0) + sign
            else:
                terms[("?", str(x)[:30])] = sign
    walk(e, 1)
    want = {(".pickup", ".0"): 1, (".pickup", ".1"): 1, (".delivery", ".0"): -1, (".delivery", ".1"): -1}
    if terms == want:
        r.ok("Demand::change", "pickup.0 + pickup.1 - delivery.0 - delivery.1")
    else:
        r.fail("Demand::change", f"the load change of a job is {sorted((k[0] + k[1], v) for k, v in terms.items())}: it must add both pickup parts and subtract both delivery parts", F.loc(ch[0]))


def c1_capacity_law(F, r):
    """capacity: a violation is reported iff some (cached load summary + demand part) does not fit; static delivery is tested against the max PAST load, static pickup
    against the max FUTURE load, the dynamic change against FUTURE and CURRENT; only the static-delivery test may abort the scan (it gets worse further right)"""
    from .. import ordeval as oe
    if HDV not in F.fns:
        raise AnchorError(HDV)
    _demand_change_law(F, r)
    fn = F.fns[HDV]
    sites = {}
    for bi, t in mir.calls(fn):
        if not t["callee"].endswith("::can_fit"):
            continue
        an, ac = _roles(F, fn, t["args"][1])
        toks = _toks(fn, t["args"][1])
        part = [k for k in HDV_PAIRS if any(k in str(x) for x in toks)]
        summ = {x for x in toks if x.startswith("get_") and x.endswith("_at")}
        sites[t["ln"]] = (part, summ)
        inst = f"has_demand_violation: can_fit#{len(sites)}"
        if len(part) != 1:
            r.fail(inst, f"cannot tell which demand part is tested (tokens {sorted(toks)[:6]})", F.loc(HDV, t["ln"]))
        elif not summ or not summ <= HDV_PAIRS[part[0]]:
            r.fail(inst, f"the {part[0]} part of the demand is added to {sorted(summ) or 'no cached summary'}; it must be tested against {sorted(HDV_PAIRS[part[0]])} "
                   "(static deliveries load the vehicle from the start, static pickups stay until the end)", F.loc(HDV, t["ln"]))
        else:
            r.ok(inst, f"{part[0]} + {sorted(summ)[0]}")
    covered = {}
    for part, summ in sites.values():
        if len(part) == 1:
            covered.setdefault(part[0], set()).update(summ)
    for k, need in HDV_PAIRS.items():
        if covered.get(k, set()) != need:
            r.fail(f"has_demand_violation: {k}", f"the {k} part is tested against {sorted(covered.get(k, set()))}, expected {sorted(need)}", F.loc(HDV))
    stopped = [int(k) for k, v in fn["names"].items() if v == "stopped" and int(k) <= fn["argc"]]
    it = oe.Interp(F, HDV, {1: oe.ref(oe.sym("route_ctx")), 2: oe.sym("pivot"), 3: oe.some(oe.ref(oe.sym("demand"))), (stopped[0] if stopped else 4): oe.sym("stopped")},
                   fresh=True, enum_results=True, max_steps=3000, call_models={"::get_vehicle_capacity": lambda i_, a, h, rl: oe.some(oe.ref(oe.sym("capacity")))})
    try:
        paths = it.explore(max_paths=5000)
    except oe.Undecided as e:
        r.fail("has_demand_violation: verdicts", f"not evaluable: {e}", F.loc(HDV))
        return
    bad = {}
    for p in paths:
        fits = [(a[4], a[2]) for a in p.assumptions if a[0] == "callret" and a[3] and a[3].endswith("::can_fit")]
        viol = [ln for ln, ok in fits if not ok]
        if p.ret == oe.NONE and viol:
            bad["admitted"] = "the insertion is admitted although a load summary + demand does not fit the capacity"
        elif p.ret != oe.NONE and not viol:
            bad["rejected"] = "a violation is reported although every tested load fits"
        elif p.ret != oe.NONE and viol:
            part = sites.get(viol[-1], ([], set()))[0]
            v = p.ret[1] if p.ret and p.ret[0] == "some" else None
            if v == oe.sym("stopped") and part != ["delivery"]:
                bad["abort"] = f"the scan-aborting verdict (`stopped`) is returned for the {part} test: only a static delivery that does not fit rules out all later positions"
            elif v not in (oe.sym("stopped"), ("bool", False)):
                bad["verdict"] = f"unexpected verdict {p.ret}"
    for k, msg in sorted(bad.items()):
        r.fail(f"has_demand_violation: {k}", msg, F.loc(HDV))
    if not bad:
        r.ok("has_demand_violation: verdicts", f"{len(paths)} combinations of empty/non-empty parts and fit results: violation iff some tested load does not fit; abort only for static delivery")


def _verdict(k):
    return lambda i_, a, h, rl: ("agg", "verdict#" + k, {})


def g5_group_compat_laws(F, r):
    """compatibility: a job with a compatibility value is admitted to a tour iff the tour has none or an EQUAL one; groups: a grouped job is admitted iff the
    whole problem is being solved and no OTHER tour holds the group (finite evaluation of the whole evaluate functions)"""
    from .. import ordeval as oe
    EV = "vrp_core::models::goal::FeatureConstraint::evaluate"
    ms = [x for x in F.trait_impl_methods(EV) if "CompatibilityConstraint" in x]
    if len(ms) != 1:
        raise AnchorError("CompatibilityConstraint::evaluate")
    m = ms[0]
    for job in (0, 1):
        for route in (0, 1):
            it = oe.Interp(F, m, {1: oe.ref(oe.sym("self")), 2: oe.ref(oe.sym("ctx"))}, variants={"ctx": 0}, fresh=True,
                           call_models={"::get_job_compatibility": (lambda i_, a, h, rl, job=job: oe.some(oe.ref(oe.sym("job"))) if job else oe.NONE),
                                        "::get_current_compatibility": (lambda i_, a, h, rl, route=route: oe.some(oe.ref(oe.sym("route"))) if route else oe.NONE),
                                        "ConstraintViolation::fail": _verdict("fail"), "ConstraintViolation::skip": _verdict("skip")})
            try:
                paths = it.explore()
            except oe.Undecided as e:
                r.fail(f"Compatibility [job={job},tour={route}]", f"not evaluable: {e}", F.loc(m))
                continue
            for p in paths:
                rel = [a[2] for a in p.assumptions if len(a) == 3 and isinstance(a[2], str) and a[0] != "switch"]
                same = (not rel) or rel[0] == "E"
                want_admit = (not job) or (not route) or (bool(rel) and same)
                if job and route and not rel:
                    r.fail("Compatibility [job=Some,tour=Some]", "the job's value is not compared with the tour's value", F.loc(m))
                    continue
                inst = f"Compatibility [job={'Some' if job else 'None'},tour={'Some' if route else 'None'}{',equal' if rel and same else (',different' if rel else '')}]"
                admitted = p.ret == oe.NONE
                if admitted == want_admit:
                    r.ok(inst, "admitted" if admitted else "rejected")
                else:
                    r.fail(inst, ("admitted" if admitted else "rejected") + " — a job may join a tour iff it has no compatibility value, the tour has none yet, or both are EQUAL", F.loc(m))
    # merge (vicinity clustering folds a candidate job into a cluster): allowed iff both jobs carry NO value or EQUAL values — a cluster is inserted as one job under the
    # source's value, so a candidate with a value must not hide inside a source without one (and vice versa)
    MG = "vrp_core::models::goal::FeatureConstraint::merge"
    mm = [x for x in F.trait_impl_methods(MG) if "CompatibilityConstraint" in x]
    if len(mm) == 1:
        for src in (0, 1):
            for cand in (0, 1):
                calls_seen = {"n": 0}

                def m_compat(i_, a, h, rl, src=src, cand=cand, calls_seen=calls_seen):
                    # first call = source, second = candidate (argument order of the match scrutinee); told apart by the job symbol the call is made on
                    who = oe.strip_refs(a[0]) if a else None
                    name = who[1] if who and who[0] == "sym" else ""
                    is_src = name.startswith("source") or (not name.startswith("candidate") and calls_seen["n"] == 0)
                    calls_seen["n"] += 1
                    present = src if is_src else cand
                    return oe.some(oe.ref(oe.sym("srcval" if is_src else "candval"))) if present else oe.NONE

                def m_dimens(i_, a, h, rl):
                    who = oe.strip_refs(a[0]) if a else None
                    return oe.ref(oe.sym((who[1] if who and who[0] == "sym" else "job") + ".dimens"))
                it = oe.Interp(F, mm[0], {1: oe.ref(oe.sym("self")), 2: oe.sym("source"), 3: oe.sym("candidate")}, fresh=True,
                               call_models={"::get_job_compatibility": m_compat, "Job::dimens": m_dimens})
                orig = it._run

                def run(choices, orig=orig, calls_seen=calls_seen):
                    calls_seen["n"] = 0
                    return orig(choices)
                it._run = run
                try:
                    paths = it.explore()
                except oe.Undecided as e:
                    r.ok(f"Compatibility merge [source={src},candidate={cand}]", f"not decided: not evaluable ({e})")
                    continue
                for p in paths:
                    rel = [a[2] for a in p.assumptions if len(a) == 3 and isinstance(a[2], str) and a[2] in "LEG" and a[0] != "switch"]
                    if src and cand and not rel:
                        want = None
                    else:
                        want = (not src and not cand) or (bool(src and cand) and rel[0] == "E")
                    merged = bool(p.ret) and p.ret[0] == "res" and p.ret[1] in ("Ok", 0)
                    inst = f"Compatibility merge [source={'Some' if src else 'None'},candidate={'Some' if cand else 'None'}{',equal' if rel and rel[0] == 'E' else (',different' if rel else '')}]"
                    if want is None:
                        r.fail(inst, "two jobs with compatibility values are merged / refused without comparing the values", F.loc(mm[0]))
                    elif merged == want:
                        r.ok(inst, "merged" if merged else "refused")
                    else:
                        r.fail(inst, ("merged" if merged else "refused") + " — jobs may be clustered iff both carry no compatibility value or EQUAL ones: otherwise a job with a value rides "
                               "inside a cluster that shows another (or no) value and ends up in a tour of a different compatibility class", F.loc(mm[0]))
    ms = [x for x in F.trait_impl_methods(EV) if "GroupConstraint" in x]
    if len(ms) != 1:
        raise AnchorError("GroupConstraint::evaluate")
    m = ms[0]
    for job in (0, 1):
        it = oe.Interp(F, m, {1: oe.ref(oe.sym("self")), 2: oe.ref(oe.sym("ctx"))}, variants={"ctx": 0}, fresh=True, enum_results=True, heap={("self", "total_jobs"): oe.sym("total")},
                       call_models={"::get_job_group": (lambda i_, a, h, rl, job=job: oe.some(oe.ref(oe.sym("group"))) if job else oe.NONE),
                                    "::get_jobs_amount": (lambda i_, a, h, rl: oe.sym("amount")),
                                    "ConstraintViolation::fail": _verdict("fail"), "ConstraintViolation::skip": _verdict("skip")})
        try:
            paths = it.explore()
        except oe.Undecided as e:
            r.fail(f"Group [job={job}]", f"not evaluable: {e}", F.loc(m))
            continue
        for p in paths:
            rel = [a[2] for a in p.assumptions if len(a) == 3 and isinstance(a[2], str) and a[0] != "switch"]
            other = [a[2] for a in p.assumptions if a[0] == "callret" and a[3] and a[3].endswith("Iterator::any")]
            whole = bool(rel) and rel[0] == "E"
            admitted = p.ret == oe.NONE
            inst = f"Group [job={'Some' if job else 'None'}" + (f",jobs {'<=>'['LEG'.index(rel[0])]} total" if rel else "") + (f",other tour={'yes' if other[0] else 'no'}" if other else "") + "]"
            if not job:
                want = True
            elif not whole:
                want = False
            elif not other:
                r.fail(inst, "the other tours are not consulted for the group", F.loc(m))
                continue
            else:
                want = not other[0]
            if admitted == want:
                r.ok(inst, "admitted" if admitted else "rejected")
            else:
                r.fail(inst, ("admitted" if admitted else "rejected") + " — a grouped job is admitted iff the whole problem is solved and no other tour holds its group", F.loc(m))
    # the `other tour` test excludes the tour itself and looks for the job's group
    fam = F.family(m)
    neq = [t for g in fam for _, t in mir.calls(F.fns[g]) if t["callee"] in ("core::cmp::PartialEq::ne", "core::cmp::PartialEq::eq")]
    has = [t for g in fam for _, t in mir.calls(F.fns[g]) if t["callee"].endswith("::contains")]
    if any(t["callee"].endswith("::ne") for t in neq) and has:
        r.ok("Group: other tours", "tours of a different actor (`!=`) whose current groups contain the job's group")
    else:
        r.fail("Group: other tours", "the scan over other tours no longer excludes the tour itself with `!=` or no longer tests `contains(group)`", F.loc(m))


LR = "vrp_core::construction::features::locked_jobs::Rule::"


def l2_lock_rule_laws(F, r):
    """relation pinning with strict order: a job outside the locked sequence may be inserted between prev and next only where it neither splits the sequence
    nor detaches it from its anchor (departure / arrival); jobs of the sequence itself are never blocked. Finite evaluation of Rule::can_insert over the presence
    and membership of job / prev / next, equality with the first / last job of the sequence, and the four lock positions."""
    from .. import ordeval as oe
    ci = LR + "can_insert"
    if ci not in F.fns:
        raise AnchorError(ci)
    pos_adt = [a for a in F.adts if a.endswith("::LockPosition")]
    if len(pos_adt) != 1:
        raise AnchorError("LockPosition")
    variants = [v["n"] for v in F.adts[pos_adt[0]]["v"]]
    inline = {i for i in F.fns if i.startswith(LR) and "{" not in i and i not in (ci, LR + "contains")}

    def contains(i_, a, h, rl):
        x = oe.strip_refs(a[1])
        name = x[1] if x and x[0] == "sym" else str(x)
        key = ("contains", name)
        if key not in h:
            c = i_._choose(2, "contains:" + name)
            h[key] = ("bool", bool(c))
            i_._assump.append(("contains", name, bool(c)))
        return h[key]
    total = 0
    bad = {}
    for k, vname in enumerate(variants):
        it = oe.Interp(F, ci, {1: oe.ref(oe.sym("self")), 2: oe.ref(oe.sym("job")), 3: oe.ref(oe.sym("prev")), 4: oe.ref(oe.sym("next"))}, variants={"self.position": k},
                       fresh=True, enum_results=True, inline=inline, call_models={"Rule::contains": contains}, max_steps=6000)
        try:
            paths = it.explore(max_paths=8000)
        except oe.Undecided as e:
            r.fail(f"Rule::can_insert [{vname}]", f"not evaluable: {e}", F.loc(ci))
            continue
        for p in paths:
            total += 1
            A = p.assumptions
            if any(a[0] == "callret" for a in A):
                bad.setdefault("undetermined", f"[{vname}] a sub-predicate was not interpreted ({[a[3].split('::')[-1] for a in A if a[0] == 'callret'][:2]})")
                continue
            pres = {a[1]: a[2] for a in A if a[0] == "optional"}
            mem = {a[1].split(".")[0]: a[2] for a in A if a[0] == "contains"}
            eq = {}
            for a in A:
                if len(a) == 3 and isinstance(a[2], str) and a[0] not in ("switch", "optional", "contains") and a[2] in "LEG":
                    x, y = (a[0], a[1]) if a[0].split(".")[0] in ("prev", "next") else (a[1], a[0])
                    eq[(x.split(".")[0], y.split(".")[-1])] = a[2] == "E"
            J = pres.get("job") and mem.get("job")
            Pin = bool(pres.get("prev") and mem.get("prev"))
            Nin = bool(pres.get("next") and mem.get("next"))
            Plast, Nfirst = eq.get(("prev", "last")), eq.get(("next", "first"))
            ret = p.ret[1] if p.ret and p.ret[0] == "bool" else None
            if ret is None:
                bad.setdefault("verdict", f"[{vname}] unrecognised result {p.ret}")
                continue

            def need(cond, want, law):
                if cond and ret != want:
                    bad.setdefault(law + f" [{vname}]", law)
            known_p, known_n = "prev" in pres, "next" in pres
            need(J is True, True, "a job of the locked sequence itself is blocked")
            if J:
                continue
            if "job" in pres and ("job" not in mem and pres["job"]):
                continue
            need(vname == "Fixed", False, "a foreign job is admitted into a tour holding a FIXED sequence position")
            need(Pin and Nin, False, "a foreign job is admitted BETWEEN two jobs of the locked sequence (contiguity broken)")
            need(Pin and Plast is False and known_n and not Nin, False, "a foreign job is admitted right after a sequence job that is not the last one")
            need(Nin and Nfirst is False and known_p and not Pin, False, "a foreign job is admitted right before a sequence job that is not the first one")
            need(vname == "Departure" and Nin and known_p and not Pin, False, "a foreign job is admitted BEFORE a sequence anchored to the departure")
            need(vname == "Arrival" and Pin and known_n and not Nin, False, "a foreign job is admitted AFTER a sequence anchored to the arrival")
            if vname in ("Any", "Departure") and Pin and known_n and not Nin and Plast is None:
                bad.setdefault(f"prev vs last [{vname}]", "a neighbour position right after a sequence job is decided without testing that this job is the LAST of the sequence")
            if vname in ("Any", "Arrival") and Nin and known_p and not Pin and Nfirst is None:
                bad.setdefault(f"next vs first [{vname}]", "a neighbour position right before a sequence job is decided without testing that this job is the FIRST of the sequence")
            need(vname == "Any" and pres.get("prev") and pres.get("next") and not Pin and not Nin, True, "a foreign job is blocked although neither neighbour belongs to the sequence")
            need(vname in ("Any", "Departure") and Pin and Plast is True and known_n and not Nin, True, "a foreign job is blocked right after the LAST job of the sequence")
            need(vname in ("Any", "Arrival") and Nin and Nfirst is True and known_p and not Pin, True, "a foreign job is blocked right before the FIRST job of the sequence")
    for k, msg in sorted(bad.items()):
        r.fail("Rule::can_insert: " + k, msg, F.loc(ci))
    if not bad:
        r.ok("Rule::can_insert", f"{total} combinations over {len(variants)} positions: contiguity and departure/arrival anchoring hold, sequence jobs are never blocked")
    if total < 40:
        r.fail("Rule::can_insert: coverage", f"only {total} combinations explored", F.loc(ci))
    # vehicle pinning
    er = [i for i in F.fns if i.endswith("LockingConstraint::evaluate_route")]
    if len(er) != 1:
        raise AnchorError("LockingConstraint::evaluate_route")
    it = oe.Interp(F, er[0], {1: oe.ref(oe.sym("self")), 2: oe.ref(oe.sym("route_ctx")), 3: oe.ref(oe.sym("job"))}, fresh=True, enum_results=True,
                   call_models={"ConstraintViolation::fail": _verdict("fail"), "ConstraintViolation::skip": _verdict("skip"),
                                "HashMap::<K, V, S, A>::get": lambda i_, a, h, rl: oe.some(oe.ref(oe.sym("condition"))),
                                "HashMap::<K, V, S>::get": lambda i_, a, h, rl: oe.some(oe.ref(oe.sym("condition")))})
    try:
        for p in it.explore():
            cond = [a[2] for a in p.assumptions if a[0] == "callret" and a[3] and a[3].endswith("Fn::call")]
            if not cond:
                r.fail("LockingConstraint::evaluate_route", "the lock's vehicle condition is not consulted for a locked job", F.loc(er[0]))
            elif (p.ret == oe.NONE) == bool(cond[0]):
                r.ok(f"LockingConstraint::evaluate_route [condition={cond[0]}]", "admitted" if cond[0] else "rejected")
            else:
                r.fail(f"LockingConstraint::evaluate_route [condition={cond[0]}]", "a job locked to a vehicle is admitted to a tour of another vehicle (or rejected on its own)", F.loc(er[0]))
    except oe.Undecided as e:
        r.fail("LockingConstraint::evaluate_route", f"not evaluable: {e}", F.loc(er[0]))


TO = "vrp_core::construction::features::tour_order::"


def r3_tour_order_laws(F, r):
    """task order as a hard rule: ordered jobs come before unordered ones, `Ignored` never constrains; a violation is raised iff the earlier activity compares Greater
    than the later one; earlier activities are paired (early, target) and later ones (target, late)"""
    from .. import ordeval as oe
    OR = TO + "OrderResult"
    cmpf = TO + "compare_order_results"
    if OR not in F.adts or cmpf not in F.fns:
        raise AnchorError(cmpf)
    kinds = [v["n"] for v in F.adts[OR]["v"]]
    if sorted(kinds) != ["Default", "Ignored", "Value"]:
        raise AnchorError(f"OrderResult variants {kinds}")

    def val(kind, name):
        return ("agg", OR + "#" + kind, {"0": oe.sym(name)} if kind == "Value" else {})
    for a in kinds:
        for b in kinds:
            it = oe.Interp(F, cmpf, {1: val(a, "a"), 2: val(b, "b")}, fresh=True)
            inst = f"compare_order_results [{a},{b}]"
            try:
                paths = it.explore()
            except oe.Undecided as e:
                r.fail(inst, f"not evaluable: {e}", F.loc(cmpf))
                continue
            for p in paths:
                rel = [x[2] for x in p.assumptions if len(x) == 3 and isinstance(x[2], str) and x[0] != "switch"]
                if (a, b) == ("Value", "Value"):
                    want = ("ord", rel[0]) if rel else None
                elif (a, b) == ("Value", "Default"):
                    want = ("ord", "L")
                elif (a, b) == ("Default", "Value"):
                    want = ("ord", "G")
                else:
                    want = ("ord", "E")
                if p.ret == want:
                    r.ok(inst + (f" a{'<=>'['LEG'.index(rel[0])]}b" if rel else ""), f"{p.ret[1]}")
                else:
                    r.fail(inst, f"answers {p.ret}, expected {want}: ordered jobs must precede unordered ones (Value < Default), values compare by total_cmp, Ignored never constrains", F.loc(cmpf))
    ms = [x for x in F.trait_impl_methods("vrp_core::models::goal::FeatureConstraint::evaluate") if "TourOrderConstraint" in x]
    if len(ms) != 1 or len(F.children.get(ms[0], [])) != 1:
        raise AnchorError("TourOrderConstraint::evaluate closure")
    c = F.children[ms[0]][0]
    ups = F.fns[c].get("upvars", [])
    it = oe.Interp(F, c, {1: ("closure", c, [oe.ref(oe.sym("self")) for _ in ups]), 2: oe.sym("first"), 3: oe.sym("second"), 4: oe.sym("stopped")}, fresh=True, enum_results=True)
    try:
        for p in it.explore():
            o = [x[2] for x in p.assumptions if x[0] == "callret" and x[3] and x[3].endswith("compare_order_results")]
            if not o:
                r.fail("TourOrderConstraint [check]", "the pair is not compared with compare_order_results", F.loc(c))
                continue
            inst = f"TourOrderConstraint [earlier {'<=>'['LEG'.index(o[0])]} later]"
            viol = p.ret != oe.NONE
            if viol != (o[0] == "G"):
                r.fail(inst, ("violation" if viol else "no violation") + " — a hard order violation is raised iff the earlier activity's order is Greater than the later one's", F.loc(c))
            elif viol:
                st = p.ret[1][2].get("stopped") if p.ret and p.ret[0] == "some" and p.ret[1] and p.ret[1][0] == "agg" else None
                if st == oe.sym("stopped"):
                    r.ok(inst, "violation; abort flag passed through")
                else:
                    r.fail(inst, f"the violation's `stopped` flag is {st}, not the flag supplied by the scan direction", F.loc(c))
            else:
                r.ok(inst, "no violation")
    except oe.Undecided as e:
        r.fail("TourOrderConstraint [check]", f"not evaluable: {e}", F.loc(c))
    er = TO + "evaluate_result"
    if er not in F.fns:
        raise AnchorError(er)
    early = late = None
    for g in F.family(er):
        fn = F.fns[g]
        if fn["kind"] != "Closure":
            continue
        e = mir.expr(fn, {"l": 0, "p": []})
        if e[0][0] == "agg" and len(e[0][2]) == 3 and e[0][2][2][0][0] == "const":
            a0, a1, flag = e[0][2]
            if a0 == (("arg", 2), ()) and flag[0][1] == "true":
                early = (g, a1)
            elif a1 == (("arg", 2), ()) and flag[0][1] == "false":
                late = (g, a0)
            else:
                r.fail("evaluate_result: pairing", "a neighbour is paired with the target in the wrong order or with the wrong abort flag: earlier activities must be checked as "
                       "(early, target, abort) and later ones as (target, late, continue)", F.loc(g))
    if early and late and early[1] == late[1]:
        r.ok("evaluate_result: pairing", "(early, target, true) for activities before the position, (target, late, false) after it")
    elif early is None or late is None:
        r.ok("evaluate_result: pairing", "not decided: the two directions are not written as tuple-building closures")


TWM = "vrp_core::models::common::domain::TimeWindow::"


def b1_break_and_window_laws(F, r):
    """time window primitives: intersects <=> a.start <= b.end and b.start <= a.end (strict for the exclusive variant), contains <=> start <= t <= end; optional breaks:
    rejected on route level iff the break belongs to another vehicle, on activity level iff it would be the very first activity"""
    from .. import ordeval as oe

    def relation(p, x, y):
        for a in p.assumptions:
            if len(a) == 3 and isinstance(a[2], str) and a[0] != "switch" and a[2] in "LEG":
                if (a[0], a[1]) == (x, y):
                    return a[2]
                if (a[0], a[1]) == (y, x):
                    return oe.rev(a[2])
        return None
    for name, strict in (("intersects", False), ("intersects_exclusive", True)):
        fid = TWM + name
        if fid not in F.fns:
            raise AnchorError(fid)
        it = oe.Interp(F, fid, {1: oe.ref(oe.sym("a")), 2: oe.ref(oe.sym("b"))}, fresh=True)
        try:
            paths = it.explore()
        except oe.Undecided as e:
            r.fail(f"TimeWindow::{name}", f"not evaluable: {e}", F.loc(fid))
            continue
        bad = None
        for p in paths:
            r1, r2 = relation(p, "a.start", "b.end"), relation(p, "b.start", "a.end")
            other = [a for a in p.assumptions if len(a) == 3 and isinstance(a[2], str) and a[0] != "switch" and {a[0], a[1]} not in ({"a.start", "b.end"}, {"b.start", "a.end"})]
            if other:
                bad = f"compares {other[0][0]} with {other[0][1]}: two intervals intersect iff each starts before the other ends"
                break
            ok1 = None if r1 is None else (r1 == "L" or (r1 == "E" and not strict))
            ok2 = None if r2 is None else (r2 == "L" or (r2 == "E" and not strict))
            known = [x for x in (ok1, ok2) if x is not None]
            want = all(known) and len(known) == 2 if p.ret == ("bool", True) else None
            if p.ret == ("bool", True) and not (ok1 and ok2):
                bad = f"answers true with a.start {'<=>'['LEG'.index(r1)] if r1 else '?'} b.end and b.start {'<=>'['LEG'.index(r2)] if r2 else '?'} a.end"
            elif p.ret == ("bool", False) and all(known) and known:
                bad = f"answers false although every tested bound allows the intersection (boundary {'excluded' if not strict else 'included'} wrongly)"
            elif not p.ret or p.ret[0] != "bool":
                bad = f"unrecognised result {p.ret}"
        if bad:
            r.fail(f"TimeWindow::{name}", bad, F.loc(fid))
        else:
            r.ok(f"TimeWindow::{name}", f"{len(paths)} orderings: a.start {'<' if strict else '<='} b.end and b.start {'<' if strict else '<='} a.end")
    fid = TWM + "contains"
    it = oe.Interp(F, fid, {1: oe.ref(oe.sym("w")), 2: oe.sym("t")}, fresh=True)
    bad = None
    try:
        for p in it.explore():
            r1, r2 = relation(p, "t", "w.start"), relation(p, "t", "w.end")
            inside = (r1 in (None, "G", "E")) and (r2 in (None, "L", "E"))
            if r1 is None and r2 is None:
                bad = "the time is not compared with the window bounds"
            elif p.ret == ("bool", True) and not (r1 in ("G", "E") and r2 in ("L", "E")):
                bad = "answers true for a time outside [start, end]"
            elif p.ret == ("bool", False) and inside and r1 is not None and r2 is not None:
                bad = "answers false for a time inside [start, end] (boundaries belong to the window)"
            elif p.ret == ("bool", False) and r2 is None and r1 in ("G", "E"):
                bad = "answers false after testing the start bound only"
    except oe.Undecided as e:
        bad = f"not evaluable: {e}"
    if bad:
        r.fail("TimeWindow::contains", bad, F.loc(fid))
    else:
        r.ok("TimeWindow::contains", "start <= t <= end")
    # optional breaks
    BR = "vrp_core::construction::features::breaks::OptionalBreakConstraint::"

    def fncall(i_, a, h, rl):
        x = oe.strip_refs(a[0])
        name = x[1].split(".")[-1] if x and x[0] == "sym" else "fn"
        c = i_._choose(2, "fn:" + name)
        i_._assump.append(("fn", name, bool(c)))
        return ("bool", bool(c))
    er = BR + "evaluate_route"
    if er not in F.fns:
        raise AnchorError(er)
    it = oe.Interp(F, er, {1: oe.ref(oe.sym("self")), 2: oe.ref(oe.sym("route_ctx")), 3: oe.ref(oe.sym("job"))}, fresh=True, enum_results=True,
                   call_models={"function::Fn::call": fncall, "::as_single": lambda i_, a, h, rl: oe.some(oe.ref(oe.sym("single"))),
                                "ConstraintViolation::fail": _verdict("fail"), "ConstraintViolation::skip": _verdict("skip")})
    try:
        for p in it.explore():
            f = {a[1]: a[2] for a in p.assumptions if a[0] == "fn"}
            isb, bel = f.get("is_break_single_fn"), f.get("belongs_to_route_fn")
            want = bool(isb) and bel is False
            inst = f"OptionalBreak::evaluate_route [break={isb},own vehicle={bel}]"
            if (p.ret != oe.NONE) == want:
                r.ok(inst, "rejected" if want else "admitted")
            else:
                r.fail(inst, ("rejected" if p.ret != oe.NONE else "admitted") + " — a break is rejected on route level iff it is defined for another vehicle shift", F.loc(er))
    except oe.Undecided as e:
        r.fail("OptionalBreak::evaluate_route", f"not evaluable: {e}", F.loc(er))


def _travel_leg_law(F, r):
    """one leg for the tour-duration limit: (distance(first->second at departure), arrival + waiting + service - departure) with waiting = max(window start - arrival, 0)"""
    fid = "vrp_core::construction::enablers::travel_info::calculate_travel_leg"
    if fid not in F.fns:
        raise AnchorError(fid)
    fn = F.fns[fid]
    e = mir.expr(fn, {"l": 0, "p": []})
    if not (e[0][0] == "agg" and len(e[0][2]) == 2):
        r.ok("calculate_travel_leg", "not decided: the result is not built as one (distance, duration) tuple")
        return
    dis, dur = e[0][2]

    def bin_(x, op):
        return (x[0][2], x[0][3]) if x[0][0] == "bin" and x[0][1] == op and not x[1] else None
    TCD_ = "vrp_core::models::problem::costs::TransportCost::"
    okd = dis[0][0] == "call" and dis[0][1] == TCD_ + "distance"
    dep = (("arg", 4), ())
    ok = False
    why = "the leg duration is not `arrival + max(window start - arrival, 0) + service duration - departure`"
    sb = bin_(dur, "Sub")
    if sb and sb[1] == dep:
        a1 = bin_(sb[0], "Add")
        if a1 and a1[1][1][-2:] == (".place", ".duration"):
            a2 = bin_(a1[0], "Add")
            if a2:
                arr, wait = a2
                aa = bin_(arr, "Add")
                if aa and dep in aa and any(x[0][0] == "call" and x[0][1] == TCD_ + "duration" for x in aa):
                    if wait[0][0] == "call" and wait[0][1].endswith("f64>::max") and len(wait[0][2]) == 2:
                        inner = [x for x in wait[0][2] if x[0][0] == "bin"]
                        zero = [x for x in wait[0][2] if x[0] == ("const", "0f64")]
                        ws = bin_(inner[0], "Sub") if inner else None
                        if zero and ws and ws[0][1][-3:] == (".place", ".time", ".start") and ws[1] == arr:
                            ok = True
                        else:
                            why = "the waiting time is not `max(window start - arrival, 0)`"
    def has_opaque(x, depth=0):
        rt = x[0]
        if rt[0] == "opaque":
            return True
        if depth > 6:
            return False
        subs = rt[2] if rt[0] in ("call", "agg") else (rt[2:4] if rt[0] == "bin" else [])
        return any(has_opaque(y, depth + 1) for y in subs)
    if not ok and has_opaque(dur):
        r.ok("calculate_travel_leg", "not decided: part of the duration is computed through re-assigned / branch-merged variables (not a canonical expression)")
        return
    if ok and okd:
        r.ok("calculate_travel_leg", "(distance, arrival + waiting + service - departure), waiting = max(tw.start - arrival, 0)")
    elif not okd:
        r.fail("calculate_travel_leg", "the first component is not the routing distance of the leg", F.loc(fid))
    else:
        r.fail("calculate_travel_leg", why + ": the tour duration limit is tested against a wrong duration", F.loc(fid))


def d2_travel_delta_law(F, r):
    """tour distance / duration limits: the change caused by an insertion is (prev->target) + (target->next) - (prev->next), component by component (distance with
    distance, duration with duration); with an open end it is (prev->target) alone. Canonical expressions of calculate_travel_delta."""
    fid = "vrp_core::construction::enablers::travel_info::calculate_travel_delta"
    if fid not in F.fns:
        raise AnchorError(fid)
    fn = F.fns[fid]

    def role(e):
        pth = [x for x in e[1] if isinstance(x, str)]
        for nm in ("prev", "target", "next"):
            if "." + nm in pth:
                return nm
        # the payload of `if let Some(next) = next`
        if any("Some" in x for x in pth) or e[0][0] == "opaque":
            return "next"
        return "?"

    def terms(e, sign, out):
        rt = e[0]
        if rt[0] == "bin" and rt[1] in ("Add", "Sub") and not e[1]:
            terms(rt[2], sign, out)
            terms(rt[3], sign if rt[1] == "Add" else -sign, out)
        elif rt[0] == "call" and rt[1].endswith("calculate_travel_leg") and e[1] and e[1][0] in (".0", ".1"):
            a = rt[2]
            key = (role(a[1]), role(a[2]), e[1][0])
            out[key] = out.get(key, 0) + sign
        else:
            out[("?", str(e)[:40], "")] = sign
        return out
    _travel_leg_law(F, r)
    aggs = [st for _, _, st in mir.stmts(fn) if st["r"]["k"] == "agg" and st["r"].get("ak") == "tuple" and st["d"]["l"] == 0 and not st["d"]["p"] and len(st["r"]["o"]) == 2]
    if len(aggs) != 2:
        r.ok("calculate_travel_delta", f"not decided: {len(aggs)} result tuples (expected the insertion case and the open-end case)")
        return
    full = {("prev", "target"): 1, ("target", "next"): 1, ("prev", "next"): -1}
    open_end = {("prev", "target"): 1}
    seen = set()
    for st in aggs:
        comps = [terms(mir.expr(fn, o), 1, {}) for o in st["r"]["o"]]
        shapes = []
        for i, c in enumerate(comps):
            want_comp = ".0" if i == 0 else ".1"
            legs = {(k[0], k[1]): v for k, v in c.items()}
            wrong_comp = [k for k in c if k[2] != want_comp]
            shapes.append((legs, wrong_comp))
        kind = "insertion" if len(shapes[0][0]) > 1 or len(shapes[1][0]) > 1 else "open end"
        seen.add(kind)
        want = full if kind == "insertion" else open_end
        for i, (legs, wrong_comp) in enumerate(shapes):
            what = "distance" if i == 0 else "duration"
            inst = f"calculate_travel_delta [{kind}]: {what}"
            if wrong_comp:
                r.fail(inst, f"the {what} change mixes in the {'duration' if i == 0 else 'distance'} component of a leg ({wrong_comp[0][:2]})", F.loc(fid, st.get("ln")))
            elif legs != want:
                r.fail(inst, f"the {what} change is {sorted(legs.items())}; it must be +(prev->target) +(target->next) -(prev->next)" + (" / +(prev->target) at an open end" if kind != "insertion" else "")
                       + ": tour limits are tested against a wrong total", F.loc(fid, st.get("ln")))
            else:
                r.ok(inst, "+(prev->target) +(target->next) -(prev->next)" if kind == "insertion" else "+(prev->target)")
    if seen != {"insertion", "open end"}:
        r.fail("calculate_travel_delta: cases", f"only {sorted(seen)} handled", F.loc(fid))


CAP_NAMES = ("capacity", "available", "resource_available", "resources", "resource_capacity")


def _roles(F, fn, op):
    """names and crossed calls an operand derives from (locals, parameters, closure captures)"""
    lv, calls = mir.deep_leaves(fn, op)
    names = set()
    for k, v, p in lv:
        if k in ("arg", "local"):
            nm = fn["names"].get(str(v))
            if nm:
                names.add(nm)
            if k == "arg" and v == 1 and fn["kind"] == "Closure" and p and str(p[0]).isdigit():
                ups = fn.get("upvars", [])
                if int(p[0]) < len(ups):
                    names.add(ups[int(p[0])][0])
    return names, {c.split("::")[-1] for c in calls}


def o4_can_fit_roles(F, r):
    """the receiver of can_fit is the capacity / available resource, the argument the load — never the other way round"""
    n = 0
    for fid, fn in sorted(F.fns.items()):
        if "::promoted[" in fid or fid.startswith("<vrp_core::models::common::load"):
            continue
        for bi, t in mir.calls(fn):
            if not t["callee"].endswith("::can_fit") or len(t["args"]) != 2:
                continue
            n += 1
            rn, rc = _roles(F, fn, t["args"][0])
            an, ac = _roles(F, fn, t["args"][1])
            r_cap = bool(rn & set(CAP_NAMES)) or "get_vehicle_capacity" in rc
            a_cap = bool(an & set(CAP_NAMES)) or "get_vehicle_capacity" in ac
            inst = f"{util.short_fn(F.root_of(fid))}: can_fit@{n}"
            if r_cap and not a_cap:
                r.ok(inst, "capacity.can_fit(load)")
            elif a_cap and not r_cap:
                r.fail(inst, "the load is asked whether it can hold the capacity (receiver and argument swapped): the verdict is inverted — overloads pass, admissible loads are rejected", F.loc(fid, t["ln"]))
            else:
                r.ok(inst, f"roles not determinable from names/provenance (receiver {sorted(rn)[:2]}, argument {sorted(an)[:2]}): not decided for this site")
    if n < 8:
        raise AnchorError(f"only {n} can_fit call sites")


def o1_componentwise_loads(F, r):
    from .c12 import partial_order_sites
    sites = partial_order_sites(F, ("vrp_core::construction::features::capacity", "vrp_core::construction::features::reloads", "vrp_core::construction::features::recharge",
                                    "vrp_core::construction::enablers::multi_trip"))
    fits = 0
    for fid, fn in F.fns.items():
        if fid.lstrip("<").startswith("vrp_core::construction::features"):
            fits += sum(1 for _, t in mir.calls(fn) if t["callee"].endswith("::can_fit"))
    if fits < 2:
        r.fail("can_fit", "capacity constraints no longer use the component-wise LoadOps::can_fit", None)
    else:
        r.ok("can_fit", f"{fits} component-wise capacity tests in the features")
    for root, fid, op, ty, ln in sites:
        inst = f"{util.short_fn(root)}: {op} on {ty}"
        if root in O1_HEURISTIC:
            r.ok(inst, "table: " + O1_HEURISTIC[root])
        else:
            r.fail(inst, f"a hard-constraint verdict uses `{op}` of the PARTIAL order on (possibly multi-dimensional) loads: it is inconclusive whenever the dimensions disagree, so a demand "
                         "exceeding what is available in one dimension passes; the component-wise test is `can_fit`", F.loc(fid, ln))


# ---- K3 load type agreement (pragmatic) -----------------------------------------------------------
LOAD_SITES = ("set_job_demand", "set_vehicle_capacity", "new", "build", "create_capacity_with_reload_feature", "create_max_load_balanced_feature")


def _multi_switches(F, fid):
    """switch blocks of fn that test the multi-dimensional-capacity predicate: {block: (true_target, false_target)}"""
    fn = F.fns[fid]
    out = {}
    for sb, bb in enumerate(fn["bbs"]):
        tt = bb["t"]
        if tt["k"] != "switch" or not mir.is_place(tt["o"]):
            continue
        hit = False
        for k, v, p in mir.trace(fn, tt["o"]):
            if "has_multi_dimen_capacity" in p:
                hit = True
            elif k == "arg" and not p:
                # a bool parameter fed with the property by every caller
                callers = [(c, t) for (c, kind, bi, t) in cg.callers(F, F.root_of(fid)) if t is not None and v - 1 < len(t["args"])]
                def fed(c, a):
                    cf = F.fns[c]
                    for k2, v2, p2 in mir.trace(cf, a):
                        if "has_multi_dimen_capacity" in p2:
                            return True
                        if k2 in ("arg", "local") and "multi_dimen" in (cf["names"].get(str(v2)) or ""):
                            return True
                        if k2 == "arg" and v2 == 1 and p2 and p2[0].isdigit() and int(p2[0]) < len(cf.get("upvars", [])) and "multi_dimen" in cf["upvars"][int(p2[0])][0]:
                            return True
                    return False
                if fid == F.root_of(fid) and callers and all(fed(c, t["args"][v - 1]) for c, t in callers):
                    hit = True
        if hit:
            f_ = [tb for v_, tb in tt["tg"] if v_ == 0]
            if f_:
                out[sb] = (tt["else"], f_[0])
    return out


def k3_load_types(F, r):
    n = 0
    for fid, fn in F.fns.items():
        if not fid.lstrip("<").startswith("vrp_pragmatic::format::problem") or "::promoted[" in fid:
            continue
        sites = []
        for bi, t in mir.calls(fn):
            ga = " ".join(t["ga"])
            if t["callee"].split("::")[-1] in LOAD_SITES and ("::MultiDimLoad" in ga or "::SingleDimLoad" in ga):
                sites.append((bi, t, "multi" if "::MultiDimLoad" in ga else "single"))
        if not sites:
            continue
        sw = _multi_switches(F, fid)
        for bi, t, kind in sites:
            n += 1
            inst = f"{util.short_fn(fid)}: {t['callee'].split('::')[-1]}<{kind}>"
            if not sw:
                r.fail(inst, "load type is chosen without testing has_multi_dimen_capacity: demand, capacity and capacity feature can disagree on the load type (the constraint then reads `None` and never binds)", F.loc(fid, t["ln"]))
                continue
            # the multi instantiation must only be reachable through the true edge, the single one through the false edge
            wrong_edges = [(sb, (tgt_f if kind == "multi" else tgt_t)) for sb, (tgt_t, tgt_f) in sw.items()]
            right_edges = [(sb, (tgt_t if kind == "multi" else tgt_f)) for sb, (tgt_t, tgt_f) in sw.items()]
            if bi in mir.reach(fn, [0], blocked_edges=right_edges):
                r.fail(inst, f"the {kind}-dimensional load type is used on the branch where has_multi_dimen_capacity is {'false' if kind == 'multi' else 'true'}: "
                             "demand/capacity dimensions are written with another type than the capacity feature reads", F.loc(fid, t["ln"]))
            else:
                r.ok(inst, f"selected by has_multi_dimen_capacity == {'true' if kind == 'multi' else 'false'}")
    if n < 10:
        raise AnchorError(f"only {n} load-typed sites found in the pragmatic reader")


# ---- R1 relaxed goals never escape ---------------------------------------------------------------
IC_ADT = H + "context::InsertionContext"
PROBLEM_AGG = "vrp_core::models::domain::Problem#Problem"
HANDOVER_TM = ("rosomaxa::hyper::HeuristicSearchOperator::search", "vrp_core::solver::search::local::LocalOperator::explore",
               "vrp_core::solver::search::recreate::Recreate::run", "vrp_core::solver::search::ruin::Ruin::run",
               "rosomaxa::evolution::HeuristicSolutionProcessing::post_process")
REPAIR = "vrp_core::construction::probing::repair_solution::repair_solution_from_unknown"


def _is_original_problem(fn, op):
    roots = mir.trace(fn, op)
    if not roots:
        return False
    for k, v, p in roots:
        if k == "arg" and "problem" in p:
            continue
        return False
    return True


def r1_relaxed_goal(F, r):
    variant_fns = set()
    for fid, fn in F.fns.items():
        if not fid.lstrip("<").startswith("vrp_core::solver"):
            continue
        for bi, si, s in mir.stmts(fn):
            if s["r"]["k"] == "agg" and s["r"].get("n") == PROBLEM_AGG:
                variant_fns.add(F.root_of(fid))
    if len(variant_fns) < 3:
        raise AnchorError(f"only {len(variant_fns)} functions build a Problem variant in the solver")
    n = 0
    for tm in HANDOVER_TM:
        for m in F.trait_impl_methods(tm):
            if m == tm or not m.lstrip("<").startswith("vrp_core::"):
                continue
            fn = F.fns[m]
            mod = fn["module"]
            par = cg.reach(F, [m], stop=lambda g: g in F.fns and F.fns[F.root_of(g)]["module"] != mod if g in F.fns else True, cha=False)
            hit = {F.root_of(g) for g in par} & variant_fns
            if not hit:
                continue
            n += 1
            name = util.short_fn(m)
            # restoring stores in H
            O = []
            for bi, si, s in mir.stmts(fn):
                pf = mir.proj_fields(s["d"])
                if pf and pf[-1] == (IC_ADT, "problem") and s["r"].get("o") and _is_original_problem(fn, s["r"]["o"][0]):
                    O.append(bi)
            if O and not (set(mir.ret_blocks(fn)) & mir.reach(fn, [0], blocked=O)):
                r.ok(name, f"works on a goal variant ({', '.join(util.short_fn(h) for h in sorted(hit))}) and re-assigns the original problem on every path before returning")
                continue
            # sanitiser pattern: every individual leaves through repair_solution_from_unknown built from the original problem
            fam = F.family(m)
            adds = [(g, t) for g in fam for _, t in mir.calls(F.fns[g]) if t["callee"].endswith("RefinementContext::add_solution")]
            rec = [i for i in F.fns if F.fns[i]["module"] == mod and F.fns[i]["kind"] != "Closure" and REPAIR in cg.callees(F, i, cha=False)]
            ok = bool(adds) and bool(rec)
            why = ""
            for g, t in adds:
                roots = mir.trace(F.fns[g], t["args"][1])
                if not roots or not all(k == "call" and (F.fns[g]["bbs"][v]["t"]["res"] or F.fns[g]["bbs"][v]["t"]["callee"]) in rec for k, v, p in roots):
                    ok = False
                    why = "an individual is added to the population without passing the recovery (repair) step"
            for rf in rec:
                rfn = F.fns[rf]
                # the factory closure given to repair builds the context from a parameter's problem (the original), not from the relaxed context
                good = False
                for _, t in mir.calls(rfn):
                    if (t["res"] or t["callee"]) == REPAIR:
                        for k, v, p in mir.trace(rfn, t["args"][1]):
                            if k == "agg":
                                rv = rfn["bbs"][v[0]]["s"][v[1]]["r"]
                                cfn = F.fns.get(rv.get("n"))
                                if cfn:
                                    ups = [u[0] for u in cfn.get("upvars", [])]
                                    relaxed_arg = t["args"][0]
                                    relaxed_names = {rfn["names"].get(str(vv)) for kk, vv, pp in mir.trace(rfn, relaxed_arg) if kk in ("arg", "local")}
                                    if ups and not (set(ups) & relaxed_names):
                                        good = True
                if not good:
                    ok = False
                    why = why or "the repaired context is built from the relaxed context's own problem"
            # the returned value: ranked()/deep_copy of the parent, never the relaxed context itself
            roots = mir.trace(fn, {"l": 0, "p": []})
            calls_ = {fn["bbs"][v]["t"]["callee"].split("::")[-1] for k, v, p in roots if k == "call"}
            if not calls_ or not calls_ <= {"unwrap_or_else", "unwrap_or", "deep_copy", "next", "unwrap"}:
                ok = False
                why = why or f"the operator returns a value produced by {sorted(calls_)} (not the recovered population's best / a copy of the parent)"
            if ok:
                r.ok(name, "searches under a relaxed goal; every individual is recovered by repair_solution_from_unknown from the original problem; returns the recovered best or a copy of the parent")
            else:
                r.fail(name, f"a solution built under a relaxed / amended goal can be handed over: {why or 'the original problem is not re-assigned on every path'}", F.loc(m))
    if n < 3:
        raise AnchorError(f"only {n} hand-over functions work on goal variants")
    # with_constraints: who may build constraint variants
    wc = "vrp_core::models::goal::GoalContext::with_constraints"
    for cf, kind, bi, t in cg.callers(F, wc):
        mod = F.fns[F.root_of(cf)]["module"]
        inst = f"with_constraints<-{util.short_fn(F.root_of(cf))}"
        if mod in ("vrp_core::solver::search::infeasible_search", "vrp_core::solver::search::redistribute_search"):
            r.ok(inst, "confirmed variant builder (covered by the escape analysis above)")
        else:
            r.fail(inst, f"module `{mod}` builds a goal with a replaced constraint set", F.loc(cf, t["ln"] if t else None))


# ---- A1 goal assembly ---------------------------------------------------------------------------
GR = "vrp_pragmatic::format::problem::goal_reader::"
PROPS = "vrp_pragmatic::format::problem::ProblemProperties"
WITH_FEATURES = "vrp_core::models::goal::GoalContextBuilder::with_features"
WITH_CONSTRAINT = "vrp_core::models::goal::FeatureBuilder::with_constraint"
# hard constraint -> (constructor called from create_goal_context, guarding ProblemProperties field or None, model fields the property must be derived from)
ASSEMBLY = {
    "capacity": ("get_capacity_feature", None, ()),
    "reachable": ("create_reachable_feature", "has_unreachable_locations", ("error_codes",)),
    "travel limits": ("get_tour_limit_feature", "has_tour_travel_limits", ("max_duration", "max_distance")),
    "break": ("create_optional_break_feature", "has_breaks", ("breaks",)),
    "recharge": ("get_recharge_feature", "has_recharges", ("recharges",)),
    "tour order": ("create_tour_order_hard_feature", "has_order", ("order",)),
    "compatibility": ("create_compatibility_feature", "has_compatibility", ("compatibility",)),
    "group": ("create_group_feature", "has_group", ("group",)),
    "skills": ("create_skills_feature", "has_skills", ("skills",)),
    "locked jobs": ("create_locked_jobs_feature", "locks", ()),
    "tour size": ("create_activity_limit_feature", "has_tour_size_limits", ("tour_size",)),
}
OTHER_PROPS = {"has_multi_dimen_capacity": ("capacity", "demand"), "has_reloads": ("reloads",), "has_value": ("value",)}


def a1_goal_assembly(F, r):
    cgc = GR + "create_goal_context"
    fn = F.fns.get(cgc)
    if fn is None:
        raise AnchorError(cgc)
    wf = [(bi, t) for bi, t in mir.calls(fn) if t["callee"] == WITH_FEATURES]
    if len(wf) != 1:
        raise AnchorError("GoalContextBuilder::with_features call in create_goal_context")
    wf_b, wf_t = wf[0]
    # the features vector: the local behind the slice/ref passed to with_features
    feat_locals = {v for k, v, p in mir.trace(fn, wf_t["args"][0], through_calls=mir.PASS_THROUGH_CALLS + ("alloc::vec::Vec::<T, A>::as_slice",)) if k in ("local",)}
    for k, v, p in mir.trace(fn, wf_t["args"][0]):
        if k == "call":
            feat_locals.add(fn["bbs"][v]["t"]["dest"]["l"])
    pushes = {}
    for bi, t in mir.calls(fn):
        if not t["callee"].endswith("Vec::<T, A>::push") or "Feature" not in " ".join(t["ga"]):
            continue
        leaves, crossed = mir.deep_leaves(fn, t["args"][1])
        for c in crossed:
            last = c.split("::")[-1]
            pushes.setdefault(last, []).append((bi, t))
    for what, (ctor, guard, _) in ASSEMBLY.items():
        inst = f"assembly: {what}"
        sites = pushes.get(ctor)
        if not sites:
            r.fail(inst, f"the {what} constraint is never pushed into the feature list of the goal (constructor `{ctor}` not assembled): the hard rule is silently not enforced", F.loc(cgc))
            continue
        bi, t = sites[0]
        ctor_ids = [i for i in F.fns if i.split("::")[-1] == ctor and F.fns[i]["kind"] != "Closure"]
        reaches = any(WITH_CONSTRAINT in cg.reach(F, [i]) for i in ctor_ids)
        if ctor_ids and not reaches:
            r.fail(inst, f"`{ctor}` builds a feature without FeatureBuilder::with_constraint: the feature no longer carries the hard constraint", F.loc(ctor_ids[0]))
            continue
        if guard is None:
            if wf_b in mir.reach(fn, [0], blocked=[bi]):
                r.fail(inst, f"the {what} constraint is assembled only conditionally", F.loc(cgc, t["ln"]))
            else:
                r.ok(inst, f"{ctor} pushed unconditionally")
            continue
        # guarded by the expected property (true edge), and by nothing that is not derived from it
        gates = []
        for sb, bb in enumerate(fn["bbs"]):
            tt = bb["t"]
            if tt["k"] == "switch" and mir.is_place(tt["o"]):
                roots = mir.trace(fn, tt["o"])
                if any(guard in p for k, v, p in roots) or (guard == "locks" and any("locks" in p for k, v, p in mir.deep_leaves(fn, tt["o"])[0])):
                    for v, tb in tt["tg"]:
                        pass
                    gates.append(sb)
        if not gates:
            r.fail(inst, f"the {what} constraint is not switched on by `{guard}`", F.loc(cgc, t["ln"]))
            continue
        # the push must be reachable from at least one edge of the guard and the guard must dominate it
        if bi in mir.reach(fn, [0], blocked=gates):
            r.fail(inst, f"the push of {ctor} is reachable without testing `{guard}`", F.loc(cgc, t["ln"]))
        else:
            r.ok(inst, f"{ctor} pushed under `{guard}`")
    # every ProblemProperties field is derived from the input model fields it stands for
    gpp = "vrp_pragmatic::format::problem::problem_reader::get_problem_properties"
    pfn = F.fns.get(gpp)
    if pfn is None:
        raise AnchorError(gpp)
    agg = [s for _, _, s in mir.stmts(pfn) if s["r"]["k"] == "agg" and s["r"].get("n") == PROPS + "#ProblemProperties"]
    if not agg:
        raise AnchorError("ProblemProperties aggregate")
    want = {g: m for (_, g, m) in ASSEMBLY.values() if g and g != "locks"}
    want.update(OTHER_PROPS)
    ad = F.adts.get(PROPS)
    for f in ad["v"][0]["f"]:
        if f["n"] not in want:
            r.fail(f"property {f['n']}", "new ProblemProperties field without a row in the assembly table", ad["span"])
    for fname, o in zip(agg[0]["r"]["fs"], agg[0]["r"]["o"]):
        exp = want.get(fname)
        if exp is None:
            continue
        leaves, crossed = mir.deep_leaves(pfn, o)
        cls = {v for k, v, p in leaves if k == "closure"}
        consts = [k for k, v, p in leaves if k == "const"]
        only_const = bool(leaves) and all(k == "const" for k, v, p in leaves)
        fields = set()
        todo = list(cls)
        seen_c = set()
        while todo:
            c = todo.pop()
            if c in seen_c or c not in F.fns:
                continue
            seen_c.add(c)
            cf = F.fns[c]
            for p_ in util.all_places(cf):
                for a_, f_ in mir.proj_fields(p_):
                    if a_.startswith("vrp_pragmatic::format::problem::model::"):
                        fields.add(f_.split("::")[-1])
            for bi2, si2, s2 in mir.stmts(cf):
                if s2["r"]["k"] == "agg" and s2["r"].get("ak") == "closure":
                    todo.append(s2["r"]["n"])
            for _, t2 in mir.calls(cf):
                for a2 in t2["args"]:
                    if mir.is_fnconst(a2):
                        todo.append(a2["fn"])
        for p_ in util.all_places(pfn):
            pass
        inst = f"property {fname}"
        if only_const:
            r.fail(inst, "property is a constant: the constraint it switches is always on/off whatever the input says", F.loc(gpp))
        elif fields & set(exp):
            r.ok(inst, f"derived from model field(s) {sorted(fields & set(exp))}")
        else:
            r.fail(inst, f"property is not derived from the model field(s) {list(exp)} it stands for (reads {sorted(fields)[:6]}): the constraint is switched by unrelated data", F.loc(gpp))
    # time windows stay enforced: set_time_constrained(false) only in the hierarchical-areas inner objective
    for fid, f2 in F.fns.items():
        if not fid.lstrip("<").startswith("vrp_pragmatic::"):
            continue
        for _, t in mir.calls(f2):
            if t["callee"].endswith("TransportFeatureBuilder::set_time_constrained"):
                a = t["args"][1]
                root = util.short_fn(F.root_of(fid))
                if mir.is_const(a) and a["c"] == "false" and "hierarchical" not in root:
                    r.fail(f"time constraint in {root}", "transport feature built with time windows switched off", F.loc(fid, t["ln"]))
                else:
                    r.ok(f"time constraint in {root}", "set_time_constrained(false) only for the hierarchical-areas inner objective")


def run(ctx):
    F = ctx.F
    ctx.explanation = (
        "Static necessary conditions over all MIR paths: every feasibility marker / InsertionSuccess is dominated by the None edge of the "
        "complete constraint evaluation on activity and route level (G1-G3), only confirmed modules put activities into tours (G4), "
        "constraints read cache/dimension slots with the type they are written with and every slot they read has a writer (K1,K2), every "
        "job/route removal is guarded by the locked set (L1). Cache-coherence clauses the constraints rely on are decided under C05.")
    ctx.explanation += ' Reload / recharge marker jobs sitting in tours are locked (L3: backward slice of what the route-interval enabler writes into the locked set reaches Tour::jobs and the promoted pools).'
    ctx.not_decided = ("that each constraint's arithmetic is right (feasible(P,S) itself),  schedule/termination independence beyond C07/C15 clauses.")
    ctx.assumptions += ["user relations (locks) and initial solutions are consistent with the constraints (documented precondition)",
                        "CHA call graph; closures may-run at construction site",
                        "same-named generic parameters inside one module denote the same binding (slot type comparison)"]
    ctx.run("C01-G1", "activity-level gate: feasibility marker dominated by the None edge of goal.evaluate(activity move) of the same iteration", g1_activity_gate, floor=1)
    ctx.run("C01-G2", "route-level gate: public evaluator entries reach the insertion analysis only through the None edge of goal.evaluate(route move)", g2_route_gate, floor=2)
    ctx.run("C01-G3", "InsertionSuccess is built only from an evaluated feasible position (make_success callers gated; copies only)", g3_success_construction, floor=12)
    ctx.run("C01-G4", "only confirmed modules insert activities into tours / obtain mutable activity access", g4_who_may_insert, floor=12)
    ctx.run("C01-Q1", "no comparison in constraint code relates a value to itself (a constant guard)", q1_no_self_comparison, floor=1)
    from .common import operator_agreement
    ctx.run("C01-O2", "load / cost / statistic operators: every impl Add/Sub/Mul computes with its own operator family", operator_agreement, floor=8)
    ctx.run("C01-B1", "time window primitives (intersects / intersects_exclusive / contains) and break vehicle pinning (finite evaluation)", b1_break_and_window_laws, floor=4)
    ctx.run("C01-R3", "task order as a hard rule: comparison table, violation iff Greater, pairing of earlier / later activities", r3_tour_order_laws, floor=12)
    ctx.run("C01-L2", "relation pinning: contiguity, departure/arrival anchoring and vehicle pinning laws (finite evaluation of Rule::can_insert / evaluate_route)", l2_lock_rule_laws, floor=2)
    ctx.run("C01-G5", "compatibility / group admission laws (finite evaluation of the evaluate functions)", g5_group_compat_laws, floor=10)
    ctx.run("C01-C1", "capacity: demand parts tested against their own load summaries; violation iff some load does not fit; abort only for static delivery", c1_capacity_law, floor=5)
    ctx.run("C01-W1", "time windows: admitted iff no arrival after its latest time and the shift covers the windows; fail only on target-independent facts (finite evaluation)", w1_time_window_law, floor=1)
    ctx.run("C01-N1", "reachability: rejected iff a new leg has a negative distance (finite evaluation over <0, =0, >0 of both legs)", n1_reachable_law, floor=1)
    ctx.run("C01-D2", "travel delta for tour limits: +(prev->target) +(target->next) -(prev->next) per component", d2_travel_delta_law, floor=1)
    ctx.run("C01-M1", "tour limits: violation iff total + change > limit; each limit compared with its own total / change component / code", m1_limit_laws, floor=3)
    ctx.run("C01-S1", "skills: allOf ⊆, oneOf ∩≠∅, noneOf ∩=∅ over the right fields; a job is admitted iff all three hold (finite evaluation)", s1_skill_laws, floor=10)
    ctx.run("C01-O4", "can_fit is asked of the capacity / available resource about the load (roles not swapped)", o4_can_fit_roles, floor=8)
    ctx.run("C01-O3", "can_fit(capacity, load) iff load <= capacity in every dimension (finite-ordering evaluation)", o3_can_fit_law, floor=4)
    ctx.run("C01-O1", "load verdicts in capacity/reload constraints are component-wise (can_fit), not the partial order", o1_componentwise_loads, floor=2)
    ctx.run("C01-K3", "pragmatic reader: demand, capacity and capacity features pick the load type by the same predicate", k3_load_types, floor=10)
    ctx.run("C01-R1", "relaxed / amended goals never escape: original problem re-assigned on every path, or every individual recovered through repair", r1_relaxed_goal, floor=5)
    ctx.run("C01-A1", "goal assembly: every hard constraint is pushed into the goal's feature list under its own input-derived property", a1_goal_assembly, floor=20)
    ctx.run("C01-T2", "every rescheduled departure is bounded by the shift's latest allowed start", t2_departure_bounded, floor=2)
    ctx.run("C01-D1", "routing legs are queried in travel direction (prev -> target -> next)", d1_leg_direction, floor=4)
    ctx.run("C01-K1", "slot type agreement: every reader of a TypeId-keyed slot uses a type some writer stores", k1_slot_types, floor=40)
    ctx.run("C01-K2", "no orphan slot: every slot read by a hard constraint has a writer", k2_no_orphans, floor=15)
    ctx.run("C01-L3", "reload / recharge markers sitting in tours are locked (their removal is not constraint-checked)", l3_markers_locked, floor=2)
    ctx.run("C01-L1", "every tour/route removal is guarded by the locked-jobs set", l1_locked_guard, floor=10)
