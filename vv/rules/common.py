"""Rules shared by several properties."""
from .. import effects, mir, util
from ..facts import AnchorError


def self_comparison_rule(F, r, module_prefixes, what):
    """No comparison in the given modules relates a value to itself. A comparison whose two operands are the same pure expression
    over immutable inputs is constant: the guard it implements is disabled (or always trips). Operands are canonicalised through
    single-definition temporaries; anything mutable, impure (RNG/clock/IO/interior, closures, `&mut` arguments) or merged is opaque."""
    imp = effects.impure_call(F)
    nfn = ncmp = 0
    for fid, fn in sorted(F.fns.items()):
        if "::promoted[" in fid:
            continue
        root = F.root_of(fid)
        mod = F.fns.get(root, fn)["module"]
        if not mod.startswith(module_prefixes):
            continue
        if fn.get("impl_trait", "").startswith("core::") and "derive" in str(fn.get("attrs", "")):
            continue
        nfn += 1
        ncmp += sum(1 for _, t in mir.calls(fn) if t["callee"] in mir.CMP_CALLS) + sum(1 for _, _, s in mir.stmts(fn) if s["r"]["k"] == "bin" and s["r"].get("op") in mir.CMP_BINOPS)
        for ln, op, e in mir.self_comparisons(fn, imp):
            r.fail(f"{util.short_fn(fid)}: {op}", f"both operands of this `{op}` are the same expression ({_show(e)}): the comparison is constant, so the {what} it implements "
                   "is disabled", F.loc(fid, ln))
    r.ok("comparisons scanned", f"{ncmp} comparison sites in {nfn} bodies of {', '.join(module_prefixes)}: none relates a value to itself")
    return ncmp


# call sites where passing one value for two same-typed parameters is intended (callee suffix per enclosing function), with the reason
DUP_OK = {
    ("IndividualStorageFactory", ""): "a GSOM node's elite population uses node_size both as capacity and as selection size (whatever constructor / helper builds it)",
}
# call sites where two arguments are deliberately passed crosswise to the parameters bearing their names
SWAP_OK = {
    ("Point::distance_to_segment", "dot_product"): "the segment is tested from both ends: dot_product(b, a, p) is the mirrored test",
}


def _plain_name(fn, a):
    """debug name of the variable an argument is a plain copy / borrow of (no field projection)"""
    cur = a
    for _ in range(8):
        if not mir.is_place(cur):
            return None
        if any(not (e == "*" or (isinstance(e, list) and e and e[0] == "deref")) for e in cur["p"]):
            return None
        nm = fn["names"].get(str(cur["l"]))
        if nm:
            return nm
        ds = mir.defs(fn).get(cur["l"], [])
        if len(ds) != 1 or ds[0][0] != "s" or ds[0][3]["r"]["k"] not in ("use", "ref"):
            return None
        cur = ds[0][3]["r"]["o"][0]
    return None


def swapped_argument_sites(F, fn, fid):
    """(line, kind, text): a call to a workspace function where two same-typed arguments are variables named exactly like EACH OTHER's parameter
    (f(from, to) called as f(to, from)) — an exact, name-declared contradiction; zero sites on the pinned tree apart from SWAP_OK"""
    out = []
    for bi, t in mir.calls(fn):
        if t.get("x") or len(t["args"]) < 2:
            continue
        tg = t.get("res") or t["callee"]
        cal = F.fns.get(tg)
        if not cal:
            continue
        pn = [cal["names"].get(str(i + 1)) for i in range(cal["argc"])]
        an = [_plain_name(fn, a) for a in t["args"]]
        tys = t.get("argtys", [])
        for i in range(min(len(an), len(pn))):
            for j in range(i + 1, min(len(an), len(pn))):
                if an[i] and an[j] and pn[i] and pn[j] and pn[i] != pn[j] and an[i] == pn[j] and an[j] == pn[i] and i < len(tys) and j < len(tys) and tys[i] == tys[j]:
                    if any(k[0] in fid and tg.endswith(k[1]) for k in SWAP_OK):
                        continue
                    out.append((t["ln"], "swap", f"`{tg.split('::')[-1]}` takes ({pn[i]}, {pn[j]}) at positions #{i + 1}, #{j + 1} but receives the variables ({an[i]}, {an[j]})"))
    for bi, si, st in mir.stmts(fn):
        rv = st["r"]
        if rv["k"] != "agg" or not rv.get("fs") or st.get("x"):
            continue
        an = [_plain_name(fn, o) for o in rv["o"]]
        fs = rv["fs"]
        for i in range(len(fs)):
            for j in range(i + 1, len(fs)):
                if an[i] and an[j] and an[i] != an[j] and an[i] == fs[j] and an[j] == fs[i]:
                    out.append((st.get("ln"), "swap", f"`{rv.get('n', '?').split('#')[-1]}` literal fills field `{fs[i]}` from the variable `{an[i]}` and field `{fs[j]}` from `{an[j]}`"))
    return out


DEGENERATE_BIN = ("Sub", "Div", "Rem", "BitXor", "SubWithOverflow", "SubUnchecked")


def degenerate_sites(F, fn, fid, imp):
    """(line, kind, text) for: a call that receives the same pure expression for two parameters of the same type; x - x, x / x, x % x, x ^ x"""
    out = []
    memo = {}
    for bi, t in mir.calls(fn):
        if t.get("x") or len(t["args"]) < 2:
            continue
        c = t["callee"] or ""
        if c in mir.CMP_CALLS:
            continue
        last = c.split("::")[-1]
        if c.startswith("core::ops::arith") and last in ("sub", "div", "rem") and len(t["args"]) == 2:
            a, b = mir.expr(fn, t["args"][0], 0, memo, imp), mir.expr(fn, t["args"][1], 0, memo, imp)
            if a == b and mir.expr_has_input(a) and not mir.expr_has_opaque(a):
                out.append((t["ln"], "arith", f"`{last}` of a value with itself ({_show(a)})"))
            continue
        tys = t.get("argtys", [])
        ex = [mir.expr(fn, a, 0, memo, imp) for a in t["args"]]
        for i in range(len(ex)):
            for j in range(i + 1, len(ex)):
                if i < len(tys) and j < len(tys) and tys[i] == tys[j] and ex[i] == ex[j] and ex[i][0][0] != "const" and mir.expr_has_input(ex[i]) and not mir.expr_has_opaque(ex[i]):
                    if any(k[0] in fid and c.endswith(k[1]) for k in DUP_OK):
                        continue
                    out.append((t["ln"], "dup", f"`{last}` receives the same value ({_show(ex[i])}) for parameters #{i + 1} and #{j + 1} of type `{tys[i][:50]}`"))
    for bi, si, st in mir.stmts(fn):
        rv = st["r"]
        if rv["k"] == "bin" and rv.get("op") in DEGENERATE_BIN and not st.get("x"):
            a, b = mir.expr(fn, rv["o"][0], 0, memo, imp), mir.expr(fn, rv["o"][1], 0, memo, imp)
            if a == b and mir.expr_has_input(a) and not mir.expr_has_opaque(a):
                out.append((st.get("ln"), "arith", f"`{rv['op']}` of a value with itself ({_show(a)})"))
    return out


def lints_rule(F, r, module_prefixes, what):
    """self-comparison + duplicated argument + degenerate arithmetic over the bodies of the given modules (all exact: zero sites on the pinned tree
    apart from the reasoned DUP_OK rows). Returns the number of sites scanned."""
    imp = effects.impure_call(F)
    nfn = ncmp = ncall = 0
    for fid, fn in sorted(F.fns.items()):
        if "::promoted[" in fid:
            continue
        root = F.root_of(fid)
        mod = F.fns.get(root, fn)["module"]
        if not mod.startswith(tuple(module_prefixes)):
            continue
        nfn += 1
        ncmp += sum(1 for _, t in mir.calls(fn) if t["callee"] in mir.CMP_CALLS) + sum(1 for _, _, s in mir.stmts(fn) if s["r"]["k"] == "bin" and s["r"].get("op") in mir.CMP_BINOPS)
        ncall += sum(1 for _, t in mir.calls(fn) if len(t["args"]) >= 2)
        for ln, op, e in mir.self_comparisons(fn, imp):
            r.fail(f"{util.short_fn(fid)}: {op}", f"both operands of this `{op}` are the same expression ({_show(e)}): the comparison is constant, so the {what} it implements "
                   "is disabled", F.loc(fid, ln))
        for ln, kind, txt in degenerate_sites(F, fn, fid, imp) + swapped_argument_sites(F, fn, fid):
            r.fail(f"{util.short_fn(fid)}: {kind}@{txt.split('`')[1]}", txt + f": a copy-paste / wrong-variable slip in the {what}", F.loc(fid, ln))
    r.ok("sites scanned", f"{ncmp} comparisons and {ncall} multi-argument calls in {nfn} bodies: no value compared with, subtracted from, divided by or passed alongside itself; no two arguments passed crosswise to the parameters bearing their names")
    return ncmp + ncall


OPP = {"Add": ("Sub",), "Sub": ("Add",), "AddAssign": ("Sub",), "SubAssign": ("Add",), "Mul": ("Div",), "Div": ("Mul",), "Neg": ()}


def operator_agreement(F, r, module_prefixes=("vrp_", "rosomaxa")):
    """every `impl Add/Sub/Mul/Div[Assign]` computes with its own operator family: `+` never subtracts, `-` never adds"""
    n = 0
    for fid, fn in sorted(F.fns.items()):
        it = fn.get("impl_trait", "")
        if fn["kind"] == "Closure" or "::promoted[" in fid or not it.startswith("core::ops::arith::"):
            continue
        if not fid.lstrip("<").startswith(tuple(module_prefixes)):
            continue
        tr = it.split("::")[-1].split("<")[0]
        if tr not in OPP:
            continue
        fam = [g for g in F.fns if g == fid or g.startswith(fid + "::")]
        # helpers of the same module called directly from the impl (an extracted `add_dimensions(target, other)` still is the operator's arithmetic)
        mod = fn["module"]
        for g in list(fam):
            for _, t in mir.calls(F.fns[g]):
                tg = t.get("res") or t["callee"]
                if tg in F.fns and F.fns[tg]["module"] == mod and F.fns[tg]["kind"] != "Closure" and not F.fns[tg].get("impl_trait") and tg not in fam:
                    fam += [h for h in F.fns if h == tg or h.startswith(tg + "::")]
        own = 0
        bad = None
        for g in fam:
            gfn = F.fns[g]
            for bi, si, st in mir.stmts(gfn):
                if st["r"]["k"] == "bin":
                    op = st["r"]["op"].replace("WithOverflow", "").replace("Unchecked", "")
                    if op in OPP[tr]:
                        bad = (g, st.get("ln"), op)
                    elif op == tr.replace("Assign", ""):
                        own += 1
            for bi, t in mir.calls(gfn):
                c = t["callee"]
                if c.startswith("core::ops::arith::"):
                    op = c.split("::")[-2].split("<")[0] if c.split("::")[-1] in ("add", "sub", "mul", "div", "add_assign", "sub_assign") else ""
                    if op.replace("Assign", "") in OPP[tr]:
                        bad = (g, t["ln"], op)
                    elif op.replace("Assign", "") == tr.replace("Assign", ""):
                        own += 1
        n += 1
        name = util.short_fn(fid)
        if bad:
            r.fail(name, f"`impl {tr}` computes with `{bad[2]}`: the operator does the opposite of what its callers mean (loads, costs and statistics are combined with + and -)", F.loc(bad[0], bad[1]))
        elif own == 0:
            r.fail(name, f"`impl {tr}` contains no `{tr.replace('Assign', '')}` operation at all", F.loc(fid))
        else:
            r.ok(name, f"{own} `{tr.replace('Assign', '')}` operation(s), none of the opposite family")
    if n < 8:
        raise AnchorError(f"only {n} arithmetic operator impls found")
    return n


def anchor_modules(prop):
    """module prefixes of the files a property is anchored in (properties.jsonl -> anchors.files)"""
    import json
    import os
    path = os.path.join(os.path.dirname(os.path.dirname(os.path.dirname(os.path.abspath(__file__)))), "properties.jsonl")
    mods = []
    with open(path) as fh:
        for line in fh:
            d = json.loads(line)
            if d["id"] != prop:
                continue
            for f in d.get("anchors", {}).get("files", []):
                f = f.split(" ")[0].strip()
                if "/src/" not in f and not f.endswith("/src"):
                    continue
                crate, rest = f.split("/src", 1)
                crate = crate.split("/")[-1].replace("-", "_")
                rest = rest.strip("/")
                if rest.endswith(".rs"):
                    rest = rest[:-3]
                parts = [x for x in rest.split("/") if x]
                if parts and parts[-1] in ("mod", "lib", "main"):
                    parts = parts[:-1]
                if not parts:
                    continue       # a whole crate is not an anchor
                mods.append("::".join([crate] + parts))
    return sorted(set(mods))


def anchored_lints(prop):
    def rule(F, r):
        mods = anchor_modules(prop)
        if not mods:
            r.skip()
            return
        n = lints_rule(F, r, mods, f"code {prop} is anchored in")
        if n == 0:
            r.fail("anchor modules", f"no comparison or call found in the anchor modules {mods[:4]} (renamed?)")
    return rule


def _show(e, depth=0):
    root, path = e
    if root[0] == "arg":
        s = f"arg{root[1]}"
    elif root[0] == "call":
        s = root[1].split("::")[-1] + "(" + ", ".join(_show(a, depth + 1) for a in root[2][:3]) + ")" if depth < 3 else "..."
    elif root[0] == "const":
        s = str(root[1])
    else:
        s = root[0]
    return s + "".join(p if isinstance(p, str) else "[..]" for p in path)
