"""Rules shared by several properties."""
from .. import effects, mir, util


def self_comparison_rule(F, r, module_prefixes, what):
    """No comparison in the given modules relates a value to itself. A comparison whose two operands are the same pure expression
    over immutable inputs is constant: the guard it implements is disabled (or always trips). Operands are canonicalised through
    single-definition temporaries; anything mutable, impure (RNG/clock/IO/interior, closures, `&mut` arguments) or merged is opaque."""
    imp = effects.impure_call(F)
    nfn = ncmp = 0
    for fid, fn in sorted(F.fns.items()):
        if "::promoted[" in fid:
            continue
        root = F.root_of(fid)
        mod = F.fns.get(root, fn)["module"]
        if not mod.startswith(module_prefixes):
            continue
        if fn.get("impl_trait", "").startswith("core::") and "derive" in str(fn.get("attrs", "")):
            continue
        nfn += 1
        ncmp += sum(1 for _, t in mir.calls(fn) if t["callee"] in mir.CMP_CALLS) + sum(1 for _, _, s in mir.stmts(fn) if s["r"]["k"] == "bin" and s["r"].get("op") in mir.CMP_BINOPS)
        for ln, op, e in mir.self_comparisons(fn, imp):
            r.fail(f"{util.short_fn(fid)}: {op}", f"both operands of this `{op}` are the same expression ({_show(e)}): the comparison is constant, so the {what} it implements "
                   "is disabled", F.loc(fid, ln))
    r.ok("comparisons scanned", f"{ncmp} comparison sites in {nfn} bodies of {', '.join(module_prefixes)}: none relates a value to itself")
    return ncmp


def _show(e, depth=0):
    root, path = e
    if root[0] == "arg":
        s = f"arg{root[1]}"
    elif root[0] == "call":
        s = root[1].split("::")[-1] + "(" + ", ".join(_show(a, depth + 1) for a in root[2][:3]) + ")" if depth < 3 else "..."
    elif root[0] == "const":
        s = str(root[1])
    else:
        s = root[0]
    return s + "".join(p if isinstance(p, str) else "[..]" for p in path)
