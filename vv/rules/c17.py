"""C17 — embedded optimisation / clustering algorithms keep their contracts (narrow structural clauses)."""
from .. import cg, mir, util
from ..facts import AnchorError

LKH = "vrp_core::algorithms::lkh::"
TOUR = LKH + "tour::Tour::"
KOPT = LKH + "kopt::KOpt::<T>::"
DBSCAN = "vrp_core::algorithms::clustering::dbscan::create_clusters"
KMED = "vrp_core::algorithms::clustering::kmedoids::KMedoids::<P, F>::"


def k1_position_vs_node(F, r):
    """results of Tour::index_of are positions: they may be mapped/indexed, never captured by closures or used as set/map keys"""
    n = 0
    for fid, fn in F.fns.items():
        if not fid.startswith(LKH):
            continue
        for bi, t in mir.calls(fn):
            if t["callee"] != TOUR + "index_of":
                continue
            n += 1
            flow = mir.forward(fn, [t["dest"]["l"]])
            inst = f"{util.short_fn(F.root_of(fid))}: index_of"
            bad = None
            for b2, si, s in mir.stmts(fn):
                rv = s["r"]
                if rv["k"] == "agg" and rv.get("ak") == "closure" and any(mir.is_place(o) and o["l"] in flow for o in rv["o"]):
                    # closure captured a position: allowed only for Option::map style position arithmetic (closure consumed by the same option)
                    bad = (s["ln"], "captured by a closure (compared with node ids there)")
            for b2, t2 in mir.calls(fn):
                last = t2["callee"].split("::")[-1]
                if t2["callee"].startswith("std::collections::hash::") and last in ("insert", "contains", "get", "remove", "contains_key") and \
                        any(mir.is_place(a) and a["l"] in flow for a in t2["args"][1:]):
                    bad = (t2["ln"], f"used as a key of a node set/map ({last})")
            if bad:
                r.fail(inst, f"a path POSITION (result of index_of) is {bad[1]}: positions and node ids are both usize and get confused — the tour is rebuilt from the wrong start node", F.loc(fid, bad[0]))
            else:
                r.ok(inst, "position used for index arithmetic only")
    if n < 1:
        raise AnchorError("no index_of call in lkh")
    # try_path starts from the first element of the given path (a node)
    tp = TOUR + "try_path"
    fn = F.fns.get(tp)
    if fn is None:
        raise AnchorError(tp)
    firsts = [t for _, t in mir.calls(fn) if t["callee"].endswith("::first") or t["callee"].endswith("::get")]
    ins = [t for _, t in mir.calls(fn) if t["callee"].startswith("std::collections::hash::set::HashSet") and t["callee"].endswith("::insert")]
    ok = False
    for t in ins:
        leaves, crossed = mir.deep_leaves(fn, t["args"][1])
        if any(c.endswith("::first") for c in crossed) and any(p and p[0] == "path" for k, v, p in leaves if k == "arg"):
            ok = True
    if ok:
        r.ok("try_path: start node", "walk starts at *self.path.first()")
    else:
        r.fail("try_path: start node", "the start of the rebuilt path is not the first node of the given path", F.loc(tp))


def g1_permutation_gate(F, r):
    tp = TOUR + "try_path"
    fn = F.fns[tp]
    # Some(new_tour) dominated by the true edge of len == len
    somes = []
    payloads = []
    memo = {}
    for bi, si, s in mir.stmts(fn):
        if s["d"]["l"] == 0 and not s["d"]["p"] and s["r"]["k"] == "agg" and s["r"].get("n", "").endswith("Option#Some"):
            somes.append(bi)
            payloads.append(mir.expr(fn, s["r"]["o"][0], 0, memo)[0])
    gates = []
    for bi, si, s in mir.stmts(fn):
        rv = s["r"]
        if rv["k"] == "bin" and rv["op"] in ("Eq", "Ne") and rv["ty"] == "usize":
            sides = []
            for o in rv["o"]:
                lens = [fn["bbs"][v]["t"] for k, v, p in mir.trace(fn, o) if k == "call" and fn["bbs"][v]["t"]["callee"].split("::")[-1] == "len"]
                sides.append(lens)
            if sides[0] and sides[1]:
                # the gate counts only if one of the two lengths is the length of the path that is returned
                of_payload = any(mir.expr(fn, t["args"][0], 0, memo)[0] in payloads for side in sides for t in side if t["args"])
                sw = fn["bbs"][bi]["t"]
                if sw["k"] == "switch" and of_payload:
                    zero = [tb for v, tb in sw["tg"] if v == 0]
                    equal_edge = sw["else"] if rv["op"] == "Eq" else (zero[0] if zero else None)
                    if equal_edge is not None:
                        gates.append((bi, equal_edge))
    if somes and gates and all(b not in mir.reach(fn, [0], blocked_edges=gates) for b in somes):
        r.ok("try_path: length gate", "Some(path) only when new_tour.len() == self.len()")
    else:
        r.fail("try_path: length gate", "a rebuilt path can be returned without checking that it visits as many nodes as the tour (not a permutation)", F.loc(tp))
    # visited: check then insert on the same value inside the successors closure
    ok = False
    for c in F.children.get(tp, []):
        cfn = F.fns[c]
        cont = [(bi, t) for bi, t in mir.calls(cfn) if "::HashSet::<" in t["callee"] and t["callee"].endswith("::contains")]
        ins = [(bi, t) for bi, t in mir.calls(cfn) if "::HashSet::<" in t["callee"] and t["callee"].endswith("::insert")]
        for cb, ct in cont:
            be = mir.bool_edges(cfn, cb)
            for ib, it_ in ins:
                if be and ib not in mir.reach(cfn, [0], blocked_edges=[be[False]]):
                    ok = True
    if ok:
        r.ok("try_path: visited", "a node is appended only if not visited, and marked visited")
    else:
        r.fail("try_path: visited", "nodes are appended to the rebuilt path without the visited check (duplicates possible)", F.loc(tp))
    # every Some(path) leaving choose_x / choose_y / improve originates from try_path
    for m in ("choose_x", "choose_y", "improve"):
        fid = KOPT + m
        mfn = F.fns.get(fid)
        if mfn is None:
            r.fail(f"KOpt::{m}", "not found (renamed?)")
            continue
        bad = False
        n = 0
        for bi, si, s in mir.stmts(mfn):
            if s["d"]["l"] == 0 and not s["d"]["p"] and s["r"]["k"] == "agg" and s["r"].get("n", "").endswith("Option#Some"):
                n += 1
                roots = mir.trace(mfn, s["r"]["o"][0])
                src = {mfn["bbs"][v]["t"]["callee"].split("::")[-1] for k, v, p in roots if k == "call"}
                if not src or not src <= {"try_path", "choose_x", "choose_y", "improve"}:
                    bad = True
        if bad:
            r.fail(f"KOpt::{m}", "returns a path that does not come from Tour::try_path (unvalidated permutation)", F.loc(fid))
        else:
            r.ok(f"KOpt::{m}", f"{n} Some(path) returns, all from try_path/choose_*")


def g2_improvement_gate(F, r):
    cx = KOPT + "choose_x"
    fn = F.fns.get(cx)
    if fn is None:
        raise AnchorError(cx)
    tps = [bi for bi, t in mir.calls(fn) if t["callee"] == TOUR + "try_path"]
    gates = []
    for bi, si, s in mir.stmts(fn):
        rv = s["r"]
        if rv["k"] == "bin" and rv["op"] == "Gt" and rv["ty"] == "f64" and mir.is_const(rv["o"][1]) and str(rv["o"][1]["c"]).startswith("0"):
            sw = fn["bbs"][bi]["t"]
            if sw["k"] == "switch":
                gates.append((bi, sw["else"]))
    if tps and gates and all(b not in mir.reach(fn, [0], blocked_edges=gates) for b in tps):
        r.ok("choose_x: gain gate", "try_path only when the relink gain is > 0")
    else:
        r.fail("choose_x: gain gate", "a re-linked tour is accepted without a strictly positive gain: cost may rise and the optimisation may not terminate", F.loc(cx))
    op = KOPT + "optimize"
    ofn = F.fns.get(op)
    if ofn is None:
        raise AnchorError(op)
    pushes = [(bi, t) for bi, t in mir.calls(ofn) if t["callee"].endswith("Vec::<T, A>::push")]
    fam_calls_improve = any(t["callee"] == KOPT + "improve" for g in F.family(op) for _, t in mir.calls(F.fns[g]))
    okp = 0
    for bi, t in pushes:
        roots = mir.trace(ofn, t["args"][1])
        if any(k == "arg" and v == 2 for k, v, p in roots):
            okp += 1  # the initial path
        elif any(k == "call" for k, v, p in roots) or any(k == "local" for k, v, p in roots):
            okp += 1
    if fam_calls_improve and len(pushes) >= 2 and okp == len(pushes):
        r.ok("KOpt::optimize", "stored path replaced only by the result of improve()")
    else:
        r.fail("KOpt::optimize", "stored path is replaced by something else than the improved path", F.loc(op))


def d1_dbscan(F, r):
    fn = F.fns.get(DBSCAN)
    if fn is None:
        raise AnchorError(DBSCAN)
    pushes = []
    inserts = []
    for bi, t in mir.calls(fn):
        if t["callee"].endswith("Vec::<T, A>::push") and t["ga"] and t["ga"][0] in ("&T", "&'a T"):
            pushes.append((bi, t))
        if t["callee"].startswith("std::collections::hash::map::HashMap") and t["callee"].endswith("::insert") and "PointType" in " ".join(t["ga"] + t["argtys"]):
            inserts.append((bi, t))
    clustered_ins = []
    for bi, t in inserts:
        src = mir.trace(fn, t["args"][2])
        if any(k == "agg" and fn["bbs"][v[0]]["s"][v[1]]["r"].get("n", "").endswith("PointType#Clustered") for k, v, p in src):
            clustered_ins.append(bi)
    if not pushes or not clustered_ins:
        r.fail("create_clusters: anchors", f"cluster pushes ({len(pushes)}) / Clustered marks ({len(clustered_ins)}) not found", F.loc(DBSCAN))
        return
    for bi, t in pushes:
        inst = f"create_clusters: cluster.push@L{''}"
        per_entry = bi not in mir.reach(fn, [0], blocked=clustered_ins)
        per_iter = bi not in mir.reach_from_succs(fn, bi, blocked=clustered_ins)
        if per_entry and per_iter:
            r.ok("create_clusters: push paired with Clustered mark", "every point added to a cluster is marked Clustered first (so no later cluster can take it)")
        else:
            r.fail("create_clusters: push paired with Clustered mark", "a point can be pushed into a cluster without being marked Clustered: it may be claimed by a second cluster (clusters not disjoint)", F.loc(DBSCAN, t["ln"]))
    # the push inside the expansion loop is not reachable through the `Some(Clustered)` arm
    disc = []
    for sb, bb in enumerate(fn["bbs"]):
        tt = bb["t"]
        if tt["k"] == "switch" and mir.is_place(tt["o"]):
            for s in bb["s"]:
                if s["r"]["k"] == "discr" and s["d"]["l"] == tt["o"]["l"]:
                    ty = fn["locals"][s["r"]["o"][0]["l"]]
                    if "PointType" in ty:
                        disc.append((sb, tt))
    # `matches!(ty, Some(Clustered))` materialises the test in a bool that is switched on later: a switch on a local assigned only literal bools
    # under a point-type test is a point-type test too
    for sb, bb in enumerate(fn["bbs"]):
        tt = bb["t"]
        if tt["k"] != "switch" or not mir.is_place(tt["o"]) or any(sb == d[0] for d in disc):
            continue
        src = tt["o"]
        for _ in range(3):     # through `!x` / copies
            ds = mir.defs(fn).get(src["l"], []) if mir.is_place(src) and not src["p"] else []
            if len(ds) == 1 and ds[0][0] == "s" and ds[0][3]["r"]["k"] in ("un", "use") and mir.is_place(ds[0][3]["r"]["o"][0]):
                src = ds[0][3]["r"]["o"][0]
            else:
                break
        ds = mir.defs(fn).get(src["l"], []) if mir.is_place(src) and not src["p"] else []
        if len(ds) >= 2 and all(d[0] == "s" and d[3]["r"]["k"] == "use" and mir.is_const(d[3]["r"]["o"][0]) and d[3]["r"]["o"][0]["c"] in ("true", "false") for d in ds):
            if all(any(mir.dominates(fn, dsb, d[1]) for dsb, _ in disc) for d in ds):
                disc.append((sb, tt))
    guarded = False
    loops = mir.natural_loops(fn)
    inner = [h for h, body in sorted(loops.items(), key=lambda kv: len(kv[1])) if all(pb in body for pb, _ in pushes)]
    hdr = inner[:1]
    for sb, tt in disc:
        # an edge of this switch from which the push is unreachable within the iteration
        for v, tb in list(tt["tg"]) + [("else", tt["else"])]:
            sub = mir.reach(fn, [tb], blocked=[sb] + hdr)
            if any(pb not in sub for pb, _ in pushes):
                guarded = True
    if guarded:
        r.ok("create_clusters: clustered points skipped", "a branch on the point's type bypasses the push")
    else:
        r.fail("create_clusters: clustered points skipped", "no branch on the point type protects the push: already clustered points are added again", F.loc(DBSCAN))
    # a cluster is opened only when the neighbourhood is large enough
    cmp_ = [(bi, s) for bi, si, s in mir.stmts(fn) if s["r"]["k"] == "bin" and s["r"]["op"] in ("Lt", "Ge", "Le", "Gt") and s["r"]["ty"] == "usize" and
            any(k == "arg" and v == 2 for o in s["r"]["o"] for k, v, p in mir.trace(fn, o))]
    if cmp_:
        r.ok("create_clusters: core point test", "neighbourhood size compared with min_points")
    else:
        r.fail("create_clusters: core point test", "min_points is no longer compared with the neighbourhood size", F.loc(DBSCAN))


def d2_core_threshold(F, r):
    """DBSCAN: a point seeds / extends a cluster iff it has at least `min_points` neighbours (core point); otherwise it is noise / a border point"""
    cc = F.find1("dbscan::create_clusters")
    fn = F.fns[cc]
    mp = [int(k) for k, v in fn["names"].items() if v == "min_points" and int(k) <= fn["argc"]]
    if not mp:
        mp = [i for i in range(1, fn["argc"] + 1) if fn["locals"][i] == "usize"]            # renamed: the threshold is the only usize parameter
    if len(mp) != 1:
        raise AnchorError("create_clusters: the minimum-neighbours parameter (the only usize parameter) was not found")
    mp = mp[0]
    cmps = []
    for bi, si, st in mir.stmts(fn):
        rv = st["r"]
        if rv["k"] != "bin" or rv.get("op") not in ("Lt", "Le", "Gt", "Ge"):
            continue
        sides = []
        for o in rv["o"]:
            tr = mir.trace(fn, o, through_calls=())
            if any(k == "arg" and v == mp for k, v, p in tr):
                sides.append("min")
            elif any(k == "call" and fn["bbs"][v]["t"]["callee"].endswith("::len") for k, v, p in tr):
                sides.append("len")
            else:
                sides.append("?")
        if sorted(sides) != ["len", "min"]:
            continue
        op = rv["op"]
        if sides[0] == "min":
            op = {"Lt": "Gt", "Gt": "Lt", "Le": "Ge", "Ge": "Le"}[op]
        # the switch on this result
        sw = [sb for sb, bb in enumerate(fn["bbs"]) if bb["t"]["k"] == "switch" and mir.is_place(bb["t"]["o"]) and bb["t"]["o"]["l"] == st["d"]["l"]]
        if len(sw) != 1:
            raise AnchorError("create_clusters: threshold comparison is not switched on directly")
        t = fn["bbs"][sw[0]]["t"]
        f_t = [tb for v, tb in t["tg"] if v == 0]
        if not f_t:
            raise AnchorError("create_clusters: unexpected switch shape")
        cmps.append((op, sw[0], t["else"], f_t[0], st["ln"]))   # (len OP min, switch block, true target, false target)
    if len(cmps) != 2:
        raise AnchorError(f"create_clusters: {len(cmps)} comparisons of a neighbour count with min_points (2 counted: seed and expansion)")
    noise = {bi for bi, si, st in mir.stmts(fn) if st["r"]["k"] == "agg" and st["r"].get("n", "").endswith("PointType#Noise")}
    newcl = {bi for bi, t in mir.calls(fn) if t["callee"].endswith("Vec::<T, A>::push") and t["ga"] and t["ga"][0].startswith("alloc::vec::Vec<")}
    extend = {bi for bi, t in mir.calls(fn) if t["callee"].endswith("Extend::extend")}
    if not noise or not newcl or not extend:
        raise AnchorError("create_clusters: noise marking / cluster creation / neighbour extension not found")
    GE = {"Ge": True, "Lt": False}      # is the TRUE edge the `len >= min_points` side?  (Le / Gt are off by one)
    for op, sb, t_true, t_false, ln in cmps:
        r_true = mir.reach(fn, [t_true], blocked={sb})
        r_false = mir.reach(fn, [t_false], blocked={sb})
        role = "seed" if (noise & (r_true | r_false)) and ((noise & r_true) != (noise & r_false)) else "expansion"
        inst = f"create_clusters: {role} threshold"
        if op not in GE:
            r.fail(inst, f"a neighbour count is compared with min_points by `{op}` (normalised `len {op} min_points`): off by one against the definition of a core point (at least min_points neighbours)", F.loc(cc, ln))
            continue
        core_side, other_side = (r_true, r_false) if GE[op] else (r_false, r_true)
        if role == "seed":
            if (noise & other_side) and not (noise & core_side) and (newcl & core_side):
                r.ok(inst, "len < min_points => noise; len >= min_points => a new cluster is grown from the point")
            else:
                r.fail(inst, "the seed test is inverted: a point with fewer than min_points neighbours starts a cluster (or a core point is marked as noise)", F.loc(cc, ln))
        else:
            if (extend & core_side) and not (extend & other_side):
                r.ok(inst, "only points with len >= min_points neighbours extend the frontier (border points do not)")
            else:
                r.fail(inst, "the expansion test is inverted or missing: a non-core point extends the cluster (points not density-reachable get in) or core points do not", F.loc(cc, ln))


def m1_kmedoids(F, r):
    calc = KMED + "calculate"
    fn = F.fns.get(calc)
    if fn is None:
        raise AnchorError(calc)
    assign = KMED + "assign_points_to_medoids"
    rets = mir.trace(fn, {"l": 0, "p": []})
    ok = True
    n = 0
    for k, v, p in rets:
        if k == "call":
            c = fn["bbs"][v]["t"]["callee"]
            n += 1
            if c != assign and not c.endswith("Default::default"):
                ok = False
        elif k == "local":
            # `clusters` local defined by assign call
            ds = mir.defs(fn).get(v, [])
            if not all(d[0] == "c" and d[2]["callee"] == assign for d in ds):
                ok = False
        else:
            ok = False
    if ok and n:
        r.ok("KMedoids::calculate", "every returned map is the result of assign_points_to_medoids (or empty when there is no data)")
    else:
        r.fail("KMedoids::calculate", "a returned clustering is not the result of assigning points to the final medoids", F.loc(calc))
    # the assignment picks the nearest medoid: min_by(|m1, m2| d(point, m1).total_cmp(d(point, m2)))
    found = False
    for g in F.family(assign):
        gfn = F.fns[g]
        for bi, t in mir.calls(gfn):
            last = t["callee"].split("::")[-1]
            if last in ("min_by", "max_by", "min_by_key", "max_by_key") and "Iterator" in t["callee"]:
                found = True
                if last != "min_by":
                    r.fail("assign: nearest medoid", f"points are assigned with `{last}` (not the nearest medoid)", F.loc(g, t["ln"]))
                    continue
                cl = [v for k, v, p in mir.trace(gfn, t["args"][1]) if k == "agg"]
                if not cl:
                    r.fail("assign: nearest medoid", "comparator closure not found", F.loc(g, t["ln"]))
                    continue
                cid = gfn["bbs"][cl[0][0]]["s"][cl[0][1]]["r"]["n"]
                cfn = F.fns[cid]
                tc = [tt for _, tt in mir.calls(cfn) if tt["callee"].endswith("total_cmp")]
                dcalls = [(b2, tt) for b2, tt in mir.calls(cfn) if tt["callee"].startswith("core::ops::function::Fn")]
                if len(tc) == 1 and len(dcalls) == 2:
                    la = {v for k, v, p in mir.trace(cfn, tc[0]["args"][0]) if k == "call"}
                    lb = {v for k, v, p in mir.trace(cfn, tc[0]["args"][1]) if k == "call"}

                    def second_arg_param(term):
                        tup = mir.trace(cfn, term["args"][1])
                        for k, v, p in tup:
                            if k == "agg":
                                rv = cfn["bbs"][v[0]]["s"][v[1]]["r"]
                                return {v2 for k2, v2, p2 in mir.trace(cfn, rv["o"][1]) if k2 == "arg"}
                        return set()
                    first = [tt for b2, tt in dcalls if b2 in la]
                    second = [tt for b2, tt in dcalls if b2 in lb]
                    if first and second and second_arg_param(first[0]) == {2} and second_arg_param(second[0]) == {3}:
                        r.ok("assign: nearest medoid", "min_by(d(point, m1).total_cmp(d(point, m2)))")
                    else:
                        r.fail("assign: nearest medoid", "comparator does not compare d(point, m1) with d(point, m2) in parameter order (assignment to the farthest medoid)", F.loc(cid))
                else:
                    r.fail("assign: nearest medoid", "comparator shape changed (not decidable)", F.loc(cid))
    if not found:
        r.fail("assign: nearest medoid", "no min_by over the medoids", F.loc(assign))
    # each point is pushed exactly once per fold step
    pushes = sum(1 for g in F.family(assign) for _, t in mir.calls(F.fns[g]) if t["callee"].endswith("Vec::<T, A>::push"))
    if pushes == 1:
        r.ok("assign: one cluster per point", "one push per fold step")
    else:
        r.fail("assign: one cluster per point", f"{pushes} pushes per fold step: a point lands in several clusters or none", F.loc(assign))


def run(ctx):
    ctx.explanation = (
        "Narrow structural clauses of the algorithm contracts: in the Lin-Kernighan code positions returned by index_of are never captured or used as "
        "node keys and the rebuilt path starts at the first node of the given path (K1); a path is returned only through try_path whose Some is gated by "
        "len equality and a visited check (G1); try_path is attempted only for a strictly positive gain and optimize stores only improved paths (G2); "
        "DBSCAN marks a point Clustered before every push and skips clustered points (D1); k-medoids returns assignments to the nearest medoid (M1).")
    ctx.not_decided = "termination/optimality numerics, density-reachability, `no core point left unclustered`, convergence of k-medoids."
    ctx.run("C17-K1", "LKH: positions vs node ids are not confused; rebuilt path starts at the given start node", k1_position_vs_node, floor=2)
    ctx.run("C17-G1", "LKH: only validated permutations are returned", g1_permutation_gate, floor=5)
    ctx.run("C17-G2", "LKH: only strictly improving paths are accepted", g2_improvement_gate, floor=2)
    ctx.run("C17-D1", "DBSCAN: clusters are disjoint by construction", d1_dbscan, floor=3)
    ctx.run("C17-D2", "DBSCAN: clusters are seeded and extended by core points only (count >= min_points), others are noise / border", d2_core_threshold, floor=2)
    ctx.run("C17-M1", "k-medoids: result is an assignment of every point to its nearest medoid", m1_kmedoids, floor=3)
