"""C16 — routing-cost providers return the supplied data (structural clauses)."""
from .. import cg, mir, util
from ..facts import AnchorError

TC = "vrp_core::models::problem::costs::TransportCost"
FB = "vrp_core::models::problem::costs::TransportFallback"
PROFILE = "vrp_core::models::common::domain::Profile"
DUR_METHODS = ("duration", "duration_approx")
DIST_METHODS = ("distance", "distance_approx")
# rejecting checks per provider constructor (counted on the pinned tree; each row = "function: minimal number of Err exits")
REJECTS = {
    "vrp_core::models::problem::costs::create_matrix_transport_cost_with_fallback": (4, "empty set, distances/durations length mismatch, two size checks"),
    "vrp_core::models::problem::costs::TimeAgnosticMatrixTransportCost::<T>::new": (2, "timestamps present, duplicate/missing profile index"),
    "vrp_core::models::problem::costs::TimeAwareMatrixTransportCost::<T>::new": (2, "missing timestamp, single matrix per profile"),
    "vrp_core::models::problem::costs::SimpleTransportCost::new": (1, "distance/duration size mismatch"),
    "vrp_scientific::common::routing::SingleDataTransportCost::new": (1, "non-square matrix"),
    "vrp_pragmatic::format::problem::fleet_reader::create_transport_costs": (4, "profile set on some matrices only, timestamp without profile, fewer matrices than profiles, profile count mismatch"),
}


def _impl_reach(F, start, impl_self):
    """functions of the same impl block(s) (same Self type) + closures reachable from start without leaving the type"""
    def stop(g):
        f = F.fns.get(g)
        if f is None:
            return True
        root = F.fns.get(F.root_of(g), f)
        return root["impl_self"] != impl_self
    return cg.reach(F, [start], stop=stop, cha=False)


def _roles(F, fids):
    reads = set()
    scale = False
    fb = set()
    for g in fids:
        fn = F.fns.get(g)
        if fn is None:
            continue
        for p in util.all_places(fn):
            for a, f in mir.proj_fields(p):
                if f in ("durations", "distances", "travel_times"):
                    reads.add(f)
                if f == "scale" and a == PROFILE:
                    scale = True
        for _, t in mir.calls(fn):
            if t["callee"].startswith(FB + "::"):
                fb.add(t["callee"].split("::")[-1])
    return reads, scale, fb


def f1_field_roles(F, r):
    impls = [im for im in F.impls_of.get(TC, []) if im["self"].startswith(("vrp_", "rosomaxa"))]
    if len(impls) < 4:
        raise AnchorError(f"TransportCost impls: {len(impls)}")
    for im in impls:
        ms = {tm.split("::")[-1]: m for tm, m in im["m"]}
        tname = im["self"].split("<")[0].split("::")[-1]
        for kind, names, own, other in (("duration", DUR_METHODS, ("durations", "travel_times"), "distances"), ("distance", DIST_METHODS, ("distances",), "durations")):
            for n in names:
                m = ms.get(n)
                if not m:
                    continue
                par = _impl_reach(F, m, im["self"])
                reads, scale, fb = _roles(F, par.keys())
                inst = f"{tname}::{n}"
                other_set = {other} | ({"travel_times"} if kind == "distance" else set())
                if reads & other_set:
                    r.fail(inst, f"{kind} method reads `{sorted(reads & other_set)[0]}` data: {kind}s are answered from the wrong matrix", F.loc(m))
                elif kind == "distance" and scale:
                    r.fail(inst, "distance method applies Profile.scale (distances must be returned unscaled)", F.loc(m))
                elif fb and fb != {kind}:
                    r.fail(inst, f"{kind} method falls back to TransportFallback::{sorted(fb)[0]}", F.loc(m))
                else:
                    r.ok(inst, f"reads {sorted(reads) or 'single data vector'}{', scaled by profile' if scale else ''}")
    # duration methods of matrix providers that hold a scale-able profile must apply the scale
    for im in impls:
        ms = {tm.split("::")[-1]: m for tm, m in im["m"]}
        if "Matrix" not in im["self"]:
            continue
        for n in DUR_METHODS:
            m = ms.get(n)
            par = _impl_reach(F, m, im["self"])
            reads, scale, fb = _roles(F, par.keys())
            inst = f"{im['self'].split('<')[0].split('::')[-1]}::{n}: scale"
            if scale:
                r.ok(inst, "duration multiplied by Profile.scale")
            else:
                r.fail(inst, "matrix duration is not multiplied by the profile's scale", F.loc(m))


def f1b_matrix_data_roles(F, r):
    ctc = F.find1("fleet_reader::create_transport_costs")
    md_new = "vrp_core::models::problem::costs::MatrixData::new"
    n = 0
    for g in F.family(ctc):
        fn = F.fns[g]
        for bi, t in mir.calls(fn):
            if t["callee"].endswith("Vec::<T, A>::push") and len(t["args"]) == 2:
                tgt = [v for k, v, p in mir.trace(fn, t["args"][0]) if k == "local"]
                tgt += [a["l"] for a in [t["args"][0]] if False]
                names = set()
                for k, v, p in mir.trace(fn, t["args"][0]):
                    if k == "local" and str(v) in fn["names"]:
                        names.add(fn["names"][str(v)])
                # resolve &mut local
                for k, v, p in mir.trace(fn, t["args"][0]):
                    pass
                role = None
                a0 = t["args"][0]
                # `&mut durations` is a ref statement: find the borrowed local
                for d in mir.defs(fn).get(a0["l"], []):
                    if d[0] == "s" and d[3]["r"]["k"] == "ref":
                        bl = d[3]["r"]["o"][0]["l"]
                        role = fn["names"].get(str(bl))
                if role not in ("durations", "distances"):
                    continue
                n += 1
                leaves, crossed = mir.deep_leaves(fn, t["args"][1])
                fields = {f for k, v, p in leaves for f in p if f in ("travel_times", "distances")}
                want = "travel_times" if role == "durations" else "distances"
                inst = f"create_transport_costs: {role}.push@{'const' if not fields else sorted(fields)[0]}"
                if fields - {want}:
                    r.fail(inst, f"`{role}` is filled from matrix.{sorted(fields - {want})[0]}", F.loc(g, t["ln"]))
                else:
                    r.ok(inst, "filled from its own matrix field / the unreachable marker")
            if (t["res"] or t["callee"]) == md_new and len(t["args"]) == 4:
                for pos, want, other in ((2, "travel_times", "distances"), (3, "distances", "travel_times")):
                    leaves, _ = mir.deep_leaves(fn, t["args"][pos])
                    fields = {f for k, v, p in leaves for f in p if f in ("travel_times", "distances")}
                    names = {fn["names"].get(str(v)) for k, v, p in leaves if k == "local"}
                    inst = f"MatrixData::new arg{pos + 1}"
                    n += 1
                    if other in fields and want not in fields:
                        r.fail(inst, f"MatrixData {'durations' if pos == 2 else 'distances'} argument is built from matrix.{other}", F.loc(g, t["ln"]))
                    else:
                        r.ok(inst, f"built from matrix.{want}")
    fn = F.fns.get(md_new)
    if fn is None:
        raise AnchorError(md_new)
    for bi, si, s in mir.stmts(fn):
        rv = s["r"]
        if rv["k"] == "agg" and rv.get("n", "").endswith("MatrixData#MatrixData"):
            m = dict(zip(rv["fs"], rv["o"]))
            ok = {(k, v) for k, v, p in mir.trace(fn, m["durations"])} == {("arg", 3)} and {(k, v) for k, v, p in mir.trace(fn, m["distances"])} == {("arg", 4)}
            n += 1
            if ok:
                r.ok("MatrixData::new fields", "durations <- arg 3, distances <- arg 4")
            else:
                r.fail("MatrixData::new fields", "constructor swaps durations and distances", F.loc(md_new))
    if n < 5:
        raise AnchorError(f"matrix data role sites: {n}")


def f2_index_shape(F, r):
    n = 0
    for im in F.impls_of.get(TC, []):
        if not im["self"].startswith("vrp_"):
            continue
        fams = set()
        for tm, m in im["m"]:
            fams |= set(_impl_reach(F, m, im["self"]).keys())
        for g in sorted(fams):
            fn = F.fns.get(g)
            if fn is None:
                continue
            argn = {v: k for k, v in fn["names"].items()}
            for bi, si, s in mir.stmts(fn):
                rv = s["r"]
                if rv["k"] == "bin" and rv["op"] in ("MulWithOverflow", "Mul") and rv["ty"] == "usize":
                    a = mir.trace(fn, rv["o"][0])
                    b = mir.trace(fn, rv["o"][1])
                    # find the Add consuming the product
                    prod = s["d"]["l"]
                    flow = mir.forward(fn, [prod])
                    adds = [s2 for _, _, s2 in mir.stmts(fn) if s2["r"]["k"] == "bin" and s2["r"]["op"] in ("AddWithOverflow", "Add") and s2["r"]["ty"] == "usize"
                            and any(mir.is_place(o) and o["l"] in flow for o in s2["r"]["o"])]
                    if not adds:
                        continue
                    n += 1
                    add = adds[0]
                    other = [o for o in add["r"]["o"] if not (mir.is_place(o) and o["l"] in flow)]
                    c = mir.trace(fn, other[0]) if other else set()

                    def pname(src):
                        out = set()
                        for k, v, p in src:
                            if k == "arg":
                                nm = fn["names"].get(str(v), f"arg{v}")
                                # roles by name or, for a renamed parameter, by the position the trait fixes (self, profile/route, from, to, ..)
                                if nm not in ("from", "to", "self") and not p and fn["kind"] != "Closure":
                                    nm = {3: "from", 4: "to"}.get(v, nm)
                                out.add(nm + ("." + ".".join(p) if p else ""))
                            elif k == "local":
                                out.add(fn["names"].get(str(v), f"_{v}"))
                            else:
                                out.add(str(k))
                        return out
                    pa, pb, pc = pname(a), pname(b), pname(c)
                    inst = f"{util.short_fn(g)}: index"
                    if ("from" in pa or "from" in pb) and any("size" in x for x in pa | pb) and pc == {"to"}:
                        r.ok(inst, "from * size + to")
                    else:
                        r.fail(inst, f"matrix index is computed as {sorted(pa)} * {sorted(pb)} + {sorted(pc)} instead of from * size + to: sibling providers disagree on the layout (transposed lookup)", F.loc(g, s["ln"]))
    if n < 8:
        raise AnchorError(f"only {n} index computations found")


def f3_build_time_rejection(F, r):
    for fid, (floor, what) in REJECTS.items():
        fn = F.fns.get(fid)
        name = util.short_fn(fid)
        if fn is None:
            r.fail(name, "provider constructor not found (renamed?)")
            continue
        errs = 0
        for g in [fid]:
            gfn = F.fns[g]
            for bi, si, s in mir.stmts(gfn):
                if s["r"]["k"] == "agg" and s["r"].get("n", "").endswith("Result#Err"):
                    errs += 1
        if errs >= floor:
            r.ok(name, f"{errs} rejecting exits ({what})")
        else:
            r.fail(name, f"only {errs} rejecting exits left, {floor} consistency checks were confirmed ({what}): an inconsistent matrix set is accepted when the provider is built", F.loc(fid))
    # time-agnostic provider: matrix i of the sorted set must BE profile i (`durations[profile.index]` is read by position): the constructor compares every index with its
    # position — a counter (`(0..).zip(..)` / `enumerate`) walks along with the matrices in some consumer of the constructor
    ta = [i for i in F.fns if i.startswith("vrp_core::models::problem::costs::TimeAgnosticMatrixTransportCost") and i.endswith("::new")]
    if len(ta) != 1:
        raise AnchorError(f"TimeAgnosticMatrixTransportCost::new resolves to {ta}")
    positional = False
    for g in F.family(ta[0]):
        gfn = F.fns[g]
        for bi, t in mir.calls(gfn):
            if not t["callee"].startswith("core::iter::traits::iterator::Iterator::") or not t["ga"]:
                continue
            ty = t["ga"][0]
            if t["callee"].split("::")[-1] in ("any", "all", "try_for_each", "for_each", "find", "position", "next", "try_fold", "fold") and "MatrixData" in ty and \
                    ("ops::range::RangeFrom" in ty or "adapters::enumerate::" in ty or "ops::range::Range<" in ty):
                positional = True
    if positional:
        r.ok("TimeAgnostic::new: index = position", "every profile index is compared with its position in the sorted matrix set")
    else:
        r.fail("TimeAgnostic::new: index = position", "the constructor no longer walks the sorted matrices together with a position counter: a set with a gap in the profile indices "
               "(e.g. {1, 2}) is accepted and profile i silently answers with the matrix of another profile", F.loc(ta[0]))
    # the distance/duration length agreement check compares the two fields
    cm = "vrp_core::models::problem::costs::create_matrix_transport_cost_with_fallback"
    found = False
    for g in F.family(cm):
        gfn = F.fns[g]
        for bi, si, s in mir.stmts(gfn):
            rv = s["r"]
            if rv["k"] == "bin" and rv["op"] in ("Ne", "Eq"):
                fa = {f for k, v, p in mir.deep_leaves(gfn, rv["o"][0])[0] for f in p}
                fb = {f for k, v, p in mir.deep_leaves(gfn, rv["o"][1])[0] for f in p}
                if ("distances" in fa and "durations" in fb) or ("durations" in fa and "distances" in fb):
                    found = True
    if found:
        r.ok("length agreement check", "distances.len() vs durations.len() per matrix")
    else:
        r.fail("length agreement check", "no check compares the lengths of a matrix's distances and durations", F.loc(cm))
    # unreachable entries surface as negative values in BOTH vectors
    ctc = F.find1("fleet_reader::create_transport_costs")
    neg = {"durations": 0, "distances": 0}
    for g in F.family(ctc):
        fn = F.fns[g]
        for bi, t in mir.calls(fn):
            if t["callee"].endswith("Vec::<T, A>::push") and len(t["args"]) == 2 and mir.is_const(t["args"][1]) and str(t["args"][1]["c"]).startswith("-"):
                for d in mir.defs(fn).get(t["args"][0]["l"], []):
                    if d[0] == "s" and d[3]["r"]["k"] == "ref":
                        nm = fn["names"].get(str(d[3]["r"]["o"][0]["l"]))
                        if nm in neg:
                            neg[nm] += 1
    if neg["durations"] >= 1 and neg["distances"] >= 1:
        r.ok("error codes -> negative entries", "both durations and distances get a negative marker")
    else:
        r.fail("error codes -> negative entries", f"entries flagged by error_codes are not mapped to negative values in both vectors ({neg})", F.loc(ctc))


SORTS = ("sort", "sort_by", "sort_by_key", "sort_unstable", "sort_unstable_by", "sort_unstable_by_key", "sort_by_cached_key")


def t1_cosorted_timestamps(F, r):
    """time-aware provider: the timestamp index is derived from the matrices AFTER they are sorted by timestamp (index i describes matrix i)"""
    roots = [i for i in F.fns if i.startswith("vrp_core::models::problem::costs::TimeAwareMatrixTransportCost") and i.endswith("::new")]
    if len(roots) != 1:
        raise AnchorError(f"TimeAwareMatrixTransportCost::new resolves to {roots}")
    root = roots[0]
    fam = F.family(root)
    sorts = []
    for g in fam:
        fn = F.fns[g]
        for bi, t in mir.calls(fn):
            last = t["callee"].split("::")[-1]
            if last in SORTS and "slice" in t["callee"]:
                sorts.append((g, bi, t))
    md = [x for x in sorts if x[2]["ga"] and x[2]["ga"][0].endswith("::MatrixData")]
    other = [x for x in sorts if x not in md]
    for g, bi, t in other:
        r.fail("TimeAware::new: separate sort", f"`{t['callee'].split('::')[-1]}` sorts a `{t['ga'][0] if t['ga'] else '?'}` collection on its own: the timestamp index is ordered independently of "
               "the matrices, so index i no longer describes matrix i (values come from the wrong matrix for matrices supplied out of order)", F.loc(g, t["ln"]))
    if not md:
        r.fail("TimeAware::new: matrices sorted", "the matrices of a profile are no longer sorted by timestamp before the index is derived", F.loc(root))
        return
    for g, bi, t in md:
        fn = F.fns[g]
        # comparator / key closure reads `timestamp`
        reads_ts = False
        for c in F.children.get(root, []):
            if c.startswith(g + "::") and any("timestamp" in [x[1] for x in mir.proj_fields(p)] for p in util.all_places(F.fns[c])):
                reads_ts = True
        if not reads_ts and len(t.get("argtys", [])) > 1:
            # the key / comparator is a closure defined elsewhere in `new` (`let as_seconds = |m| ..; v.sort_by_key(as_seconds)`): identify it by the closure type of the argument
            import re as _re
            m_ = _re.search(r"\{closure@[^:}]+:(\d+):(\d+)", t["argtys"][1])
            if m_:
                for c in fam:
                    cf = F.fns[c]
                    if cf["kind"] == "Closure" and F.loc(c).endswith(":" + m_.group(1)) and any("timestamp" in [x[1] for x in mir.proj_fields(p)] for p in util.all_places(cf)):
                        reads_ts = True
        if reads_ts:
            r.ok("TimeAware::new: sort key", "matrices sorted by `timestamp`")
        else:
            r.fail("TimeAware::new: sort key", "the matrices are sorted by something other than `timestamp`", F.loc(g, t["ln"]))
        # the u64 index is collected from the sorted vector, after the sort
        recv = {(k, v) for k, v, pp in mir.trace(fn, t["args"][0])}
        cols = [(bj, tt) for bj, tt in mir.calls(fn) if tt["callee"].endswith("Iterator::collect") and tt["ga"] and tt["ga"][-1].endswith("Vec<u64>")]
        if not cols:
            r.fail("TimeAware::new: index", "no `Vec<u64>` timestamp index is collected next to the sort", F.loc(g))
            continue
        for bj, tt in cols:
            leaves, _ = mir.deep_leaves(fn, tt["args"][0])
            src = {(k, v) for k, v, pp in leaves}
            if (src & recv) and mir.dominates(fn, bi, bj):
                r.ok("TimeAware::new: index", "timestamps are collected from the sorted matrices (sort dominates the collection)")
            else:
                r.fail("TimeAware::new: index", "the timestamp index is not collected from the sorted matrices after the sort", F.loc(g, tt["ln"]))


def _walk(e):
    yield e
    root = e[0]
    subs = []
    if root[0] == "call":
        subs = root[2]
    elif root[0] == "bin":
        subs = root[2:4]
    elif root[0] in ("un", "cast"):
        subs = [root[2]]
    elif root[0] == "agg":
        subs = root[2]
    elif root[0] == "discr":
        subs = [root[1]]
    for x in subs:
        yield from _walk(x)


def _bin(e, op, commutative=False):
    """operands of a binary node with operator op (with/without overflow check), else None"""
    r = e[0]
    if r[0] == "bin" and r[1].replace("WithOverflow", "") == op and (not e[1] or e[1] == (".0",)):
        return r[2], r[3]
    return None


def _matrix_index(e):
    """index expression of the matrix lookup `matrices.get(<idx>)` inside e, where <idx> derives from the binary search"""
    for n in _walk(e):
        r = n[0]
        if r[0] == "call" and r[1].endswith("::get") and len(r[2]) == 2 and any(m[0][0] == "call" and m[0][1].endswith("binary_search") for m in _walk(r[2][1])):
            return r[2][1]
    return None


def _is_left_of(a, b):
    """a == b - 1 ?"""
    s_ = _bin(a, "Sub")
    return s_ is not None and s_[0] == b and s_[1][0] == ("const", "1_usize")


def i1_interpolation(F, r):
    """time-dependent routing between two matrix timestamps: durations are interpolated linearly in time between the LEFT (idx-1) and RIGHT (idx) matrix,
    distances take the LEFT value — canonical expressions of interpolate_duration / interpolate_distance"""
    dur = [i for i in F.fns if "TimeAwareMatrixTransportCost" in i and i.endswith("::interpolate_duration")]
    dis = [i for i in F.fns if "TimeAwareMatrixTransportCost" in i and i.endswith("::interpolate_distance")]
    if len(dur) != 1 or len(dis) != 1:
        raise AnchorError("TimeAwareMatrixTransportCost::interpolate_duration / interpolate_distance")
    root = dur[0]
    fn = F.fns[root]
    lerp = [g for g in F.family(root) if F.fns[g]["kind"] == "Closure" and any(st["r"]["k"] == "bin" and st["r"]["op"] == "Div" for _, _, st in mir.stmts(F.fns[g]))]
    if len(lerp) != 1:
        r.ok("interpolate_duration: form", f"not decided: {len(lerp)} closures divide (the interpolation is not written as one closure over the two bracketing values)")
        return
    g = lerp[0]
    cfn = F.fns[g]
    e = mir.expr(cfn, {"l": 0, "p": []})
    ok = False
    why = "the interpolated value is not `left + (t - t_left) / (t_right - t_left) * (right - left)`"
    add = _bin(e, "Add")
    if add:
        for L, rest in (add, add[::-1]):
            mul = _bin(rest, "Mul")
            if not mul:
                continue
            for ratio, delta in (mul, mul[::-1]):
                dv, sb = _bin(ratio, "Div"), _bin(delta, "Sub")
                if not dv or not sb:
                    continue
                R = sb[0]
                num, den = _bin(dv[0], "Sub"), _bin(dv[1], "Sub")
                if sb[1] != L or not num or not den:
                    why = "the value delta is not `right - left` of the two bracketing values"
                    continue
                t, tl = num
                tr, tl2 = den
                if tl != tl2:
                    why = "numerator and denominator of the time ratio do not subtract the same (left) timestamp"
                    continue
                # roles: L/R are the closure's two parameters, tl/tr timestamps of two different captured matrices
                lp, rp = L[1][:1], R[1][:1]
                ml = [m for m in _walk(tl) if m[0] == ("arg", 1)]
                mr = [m for m in _walk(tr) if m[0] == ("arg", 1)]
                if L[0] == ("arg", 2) and R[0] == ("arg", 2) and lp != rp and ml and mr and ml[0][1][:1] != mr[0][1][:1] and ".timestamp" in ml[0][1] and ".timestamp" in mr[0][1]:
                    ok = (L, R, ml[0][1][0], mr[0][1][0], t)
    if not ok:
        r.fail("interpolate_duration: formula", why + ": durations between two matrix timestamps are not the linear interpolation in time", F.loc(g))
        return
    r.ok("interpolate_duration: formula", "left + (t - t_left) / (t_right - t_left) * (right - left)")
    L, R, ul, ur, t = ok
    # which matrices / values are left and right in the parent
    cagg = [st for _, _, st in mir.stmts(fn) if st["r"]["k"] == "agg" and st["r"].get("n") == g]
    zips = [tt for _, tt in mir.calls(fn) if tt["callee"].endswith("Iterator::zip") or tt["callee"].endswith("Option::<T>::zip")]
    if len(cagg) != 1 or len(zips) != 1:
        r.ok("interpolate_duration: bracket", "not decided: the bracketing values are not paired with a single zip")
        return
    ups = [mir.expr(fn, o) for o in cagg[0]["r"]["o"]]
    il = _matrix_index(ups[int(ul[1:])]) if ul[1:].isdigit() and int(ul[1:]) < len(ups) else None
    ir = _matrix_index(ups[int(ur[1:])]) if ur[1:].isdigit() and int(ur[1:]) < len(ups) else None
    zl, zr = _matrix_index(mir.expr(fn, zips[0]["args"][0])), _matrix_index(mir.expr(fn, zips[0]["args"][1]))
    first_is_left = L[1][:1] == (".0",)
    vl, vr = (zl, zr) if first_is_left else (zr, zl)
    if None in (il, ir, vl, vr):
        r.ok("interpolate_duration: bracket", "not decided: matrix indices are not recognisable as expressions of the binary search result")
    elif _is_left_of(il, ir) and vl == il and vr == ir:
        r.ok("interpolate_duration: bracket", "left = matrix[idx-1], right = matrix[idx]; the left/right values come from the same matrices as the left/right timestamps")
    else:
        r.fail("interpolate_duration: bracket", "the bracketing matrices are not (idx-1, idx) of the binary search, or the left/right VALUES are taken from other matrices than the left/right "
               "TIMESTAMPS: the interpolation weights are applied to the wrong values", F.loc(root, zips[0]["ln"]))
    # distances: left value in between
    dfn = F.fns[dis[0]]
    idxs = []
    for _, tt in mir.calls(dfn):
        if tt["callee"].endswith("::get") and len(tt["args"]) == 2:
            ie = mir.expr(dfn, tt["args"][1])
            if any(m[0][0] == "call" and m[0][1].endswith("binary_search") for m in _walk(ie)) and any("Err" in str(x) for m in _walk(ie) for x in m[1]):
                idxs.append(ie)
    if not idxs:
        r.ok("interpolate_distance: in between", "not decided: no lookup indexed by the Err payload of the binary search")
    elif all(_bin(x, "Sub") and _bin(x, "Sub")[1][0] == ("const", "1_usize") for x in idxs):
        r.ok("interpolate_distance: in between", "distance of the LEFT matrix (idx-1)")
    else:
        r.fail("interpolate_distance: in between", "between two matrix timestamps the distance is not taken from the LEFT matrix (index idx-1 of the binary search)", F.loc(dis[0]))


def run(ctx):
    ctx.explanation = (
        "Sibling agreement of all TransportCost providers: duration methods (and their helpers within the type) read only duration data and apply the "
        "profile scale, distance methods read only distance data unscaled, fallbacks are called on the matching method; the pragmatic reader fills "
        "MatrixData durations from travel_times and distances from distances; every provider indexes as from*size+to; provider constructors keep their "
        "confirmed rejecting checks, the length-agreement check compares the two fields, unreachable entries become negative in both vectors.")
    ctx.explanation += ' The time-agnostic constructor walks the sorted matrices together with a position counter (F3 extension: profile index = position).'
    ctx.not_decided = "interpolation values, bracketing, symmetry of the coordinate approximation."
    ctx.assumptions += ["local names durations/distances in create_transport_costs are treated as role declarations (as in the units pass)"]
    ctx.run("C16-F1", "sibling field roles: duration/distance methods read their own data; scale only on durations", f1_field_roles, floor=18)
    ctx.run("C16-F1b", "pragmatic reader feeds MatrixData durations/distances from the right matrix fields", f1b_matrix_data_roles, floor=5)
    ctx.run("C16-F2", "index shape agreement: from * size + to in every provider", f2_index_shape, floor=8)
    ctx.run("C16-I1", "time-dependent routing: linear interpolation formula, (idx-1, idx) bracket with matching values/timestamps, left distance", i1_interpolation, floor=1)
    ctx.run("C16-T1", "time-aware provider: timestamp index co-sorted with the matrices", t1_cosorted_timestamps, floor=2)
    try:
        from . import c13
        ctx.run("C13-F3", "scientific coordinate provider: rounding flag and like-coordinate pairing (symmetric, zero diagonal by construction)", c13.f3_rounding_flag, floor=2)
    except (ImportError, AttributeError):
        pass
    try:
        from . import c03
        ctx.run("C03-L1", "distance and duration of a leg are queried for the same (from, to, departure) in every body that asks for both (incl. TransportCost::cost)", c03.l1_leg_queries_agree, floor=4)
    except (ImportError, AttributeError):
        pass
    ctx.run("C16-F3", "build-time rejection: consistency checks present in every provider constructor", f3_build_time_rejection, floor=8)
