"""C08 — a population never loses its best-known solution (structural + finite-ordering clauses)."""
from .. import cg, mir, util
from .. import ordeval as oe
from ..facts import AnchorError

HP = "rosomaxa::population::HeuristicPopulation"
GREEDY = "rosomaxa::population::greedy::Greedy<O, S>"
ELIT = "rosomaxa::population::elitism::Elitism<O, S>"
ROSO = "rosomaxa::population::rosomaxa::Rosomaxa<C, O, S>"

GROW = ("extend", "push", "insert", "append", "extend_from_slice")
SORTS = ("sort_by", "sort_unstable_by", "sort_by_cached_key", "sort_by_key", "sort", "sort_unstable")
SHRINK_TAIL = ("truncate", "dedup_by", "dedup_by_key", "dedup")
SHRINK_ANY = ("drain", "remove", "swap_remove", "pop", "clear", "retain", "retain_mut", "split_off")
READ_ONLY_ELITE = ("add_all", "add", "ranked", "select", "all", "cmp", "size", "on_generation", "selection_phase", "fmt")


def impl_method(F, self_ty, name):
    for im in F.impls_of.get(HP, []):
        if im["self"] == self_ty:
            for tm, m in im["m"]:
                if tm == f"{HP}::{name}":
                    return m
    raise AnchorError(f"no impl of HeuristicPopulation::{name} for {self_ty}")


def kept_ok(kept, o):
    """kept symbol after an offer with order(best,new)=o must be no worse than both"""
    if kept == "best":
        return o in "LE"
    if kept == "new":
        return o in "GE"
    return False


def o1_incumbent(F, r):
    # Greedy::add over {None, Some(best)} x {L,E,G}
    g = impl_method(F, GREEDY, "add")
    for o in "LEG":
        it = oe.Interp(F, g, {1: oe.ref(oe.sym("self")), 2: oe.sym("new")}, rel={("best", "new"): o},
                       heap={("self", "best_known"): oe.some(oe.sym("best"))})
        for p in it.explore():
            kept = p.heap.get(("self", "best_known"))
            ks = kept[1][1] if kept and kept[0] == "some" and kept[1][0] == "sym" else None
            inst = f"Greedy::add[total_order(best,new)={o}]"
            if ks is not None and kept_ok(ks, o):
                r.ok(inst, f"keeps `{ks}`, returns {p.ret}")
            else:
                r.fail(inst, f"after add the stored individual is {kept}: worse than an offered one (incumbent must be replaced only by a no-worse individual and kept otherwise)", F.loc(g))
    it = oe.Interp(F, g, {1: oe.ref(oe.sym("self")), 2: oe.sym("new")}, heap={("self", "best_known"): oe.NONE})
    for p in it.explore():
        kept = p.heap.get(("self", "best_known"))
        if kept == oe.some(oe.sym("new")):
            r.ok("Greedy::add[empty]", "first individual stored")
        else:
            r.fail("Greedy::add[empty]", f"first offered individual not stored ({kept})", F.loc(g))
    # Rosomaxa::is_comparable_with_best_known: the filter in front of the elite — the whole function is evaluated (form independent: closures of Option
    # combinators are interpreted), for an empty elite and for every ordering of (individual, best)
    root = F.find1("Rosomaxa::is_comparable_with_best_known")
    it = oe.Interp(F, root, {1: oe.ref(oe.sym("self")), 2: oe.ref(oe.sym("ind")), 3: oe.NONE}, fresh=True)
    try:
        rets = {p.ret for p in it.explore()}
    except oe.Undecided as e:
        rets = {("undecided", str(e))}
    if rets == {("bool", True)}:
        r.ok("Rosomaxa::is_comparable_with_best_known[no best]", "true when the elite is empty")
    else:
        r.fail("Rosomaxa::is_comparable_with_best_known[no best]", f"with an empty elite the filter answers {sorted(map(str, rets))}: the first individuals never reach the elite", F.loc(root))
    for o in "LEG":
        it = oe.Interp(F, root, {1: oe.ref(oe.sym("self")), 2: oe.ref(oe.sym("ind")), 3: oe.some(oe.ref(oe.sym("best")))}, rel={("ind", "best"): o}, fresh=True)
        inst = f"Rosomaxa::is_comparable_with_best_known[total_order(ind,best)={o}]"
        try:
            paths = it.explore()
        except oe.Undecided as e:
            r.fail(inst, f"not decidable by the ordering evaluator ({e})", F.loc(root))
            continue
        for p in paths:
            if o in "LE" and p.ret != ("bool", True):
                r.fail(inst, f"an individual that is no worse than the elite's best is filtered out before the elite (returns {p.ret}): the elite can end up worse than an offered individual", F.loc(root))
            elif not p.ret or p.ret[0] != "bool":
                r.fail(inst, f"not decidable by the ordering evaluator (returns {p.ret})", F.loc(root))
            else:
                r.ok(inst, f"returns {p.ret[1]}")


def o2_every_offer_compared(F, r):
    # Greedy::add_all: fold closure must call add whatever the accumulator says
    g = impl_method(F, GREEDY, "add_all")
    fn = F.fns[g]
    cls = [c for c in F.children.get(g, [])]
    folds = [t for _, t in mir.calls(fn) if t["callee"].split("::")[-1] in ("fold", "for_each", "try_fold", "map", "any", "all", "filter", "count")]
    bad_adapter = [t["callee"] for t in folds if t["callee"].split("::")[-1] in ("any", "all", "try_fold", "find", "position")]
    if bad_adapter:
        r.fail("Greedy::add_all", f"short-circuiting adapter {bad_adapter[0]} stops offering individuals after the first hit", F.loc(g))
    if not cls:
        # a plain loop calling add: must-pass on each iteration is structural; accept a direct call dominated by nothing but the loop header
        direct = [bi for bi, t in mir.calls(fn) if t["callee"] == f"{HP}::add"]
        if direct:
            r.ok("Greedy::add_all", "direct loop calling add")
        else:
            r.fail("Greedy::add_all", "does not reach HeuristicPopulation::add", F.loc(g))
    for c in cls:
        cf = F.fns[c]
        nargs = cf["argc"]
        sc = []
        # parameters: (env, acc: bool, individual) or (env, individual)
        bool_params = [i for i in range(2, nargs + 1) if cf["locals"][i] == "bool"]
        for acc in ([True, False] if bool_params else [None]):
            env = {1: oe.ref(("closure", c, [oe.ref(oe.sym("self"))]))}
            for i in range(2, nargs + 1):
                env[i] = ("bool", acc) if i in bool_params else oe.sym("ind")
            it = oe.Interp(F, c, env, observe=("HeuristicPopulation::add",))
            for p in it.explore():
                inst = f"Greedy::add_all closure[acc={acc}]"
                if any(cl[0] == "HeuristicPopulation::add" for cl in p.calls):
                    r.ok(inst, "individual offered to add")
                else:
                    r.fail(inst, "a path through the fold step skips `add` (short-circuit on the accumulator): after the first improving individual "
                                 "of a batch the remaining ones are never compared, a better one is lost", F.loc(c))
    # Elitism::add_all: add_with_iter on every path except the empty-input early return
    e = impl_method(F, ELIT, "add_all")
    fn = F.fns[e]
    awi = [bi for bi, t in mir.calls(fn) if t["callee"].endswith("Elitism::<O, S>::add_with_iter")]
    empties = [(bi, t) for bi, t in mir.calls(fn) if t["callee"].endswith("::is_empty")]
    true_edges = []
    for bi, t in empties:
        nb = t["tgt"]
        sw = fn["bbs"][nb]["t"]
        if sw["k"] == "switch" and mir.is_place(sw["o"]):
            # edge taken when is_empty == true is the `else` edge of switch [(0, false_bb)]
            true_edges.append((nb, sw["else"]))
    rr = mir.reach(fn, [0], blocked=awi, blocked_edges=true_edges)
    if awi and not (set(mir.ret_blocks(fn)) & rr):
        r.ok("Elitism::add_all", "every non-empty batch reaches add_with_iter")
    else:
        r.fail("Elitism::add_all", "a path returns without add_with_iter although the batch is not known to be empty", F.loc(e))
    ea = impl_method(F, ELIT, "add")
    fn = F.fns[ea]
    awi = [bi for bi, t in mir.calls(fn) if t["callee"].endswith("Elitism::<O, S>::add_with_iter")]
    if awi and not (set(mir.ret_blocks(fn)) & mir.reach(fn, [0], blocked=awi)):
        r.ok("Elitism::add", "always reaches add_with_iter")
    else:
        r.fail("Elitism::add", "a path returns without add_with_iter", F.loc(ea))
    # Rosomaxa::add_all: elite.add_all unconditionally, fed by filter(is_comparable) over the offered individuals
    ra = impl_method(F, ROSO, "add_all")
    fn = F.fns[ra]
    el = []
    for bi, t in mir.calls(fn):
        if t["callee"] == f"{HP}::add_all" and t["args"]:
            roots = mir.trace(fn, t["args"][0])
            if any(k == "arg" and v == 1 and p[:1] == ("elite",) for k, v, p in roots):
                el.append((bi, t))
    if not el:
        r.fail("Rosomaxa::add_all", "no call of self.elite.add_all: offered individuals never reach the elite", F.loc(ra))
        return
    if set(mir.ret_blocks(fn)) & mir.reach(fn, [0], blocked=[b for b, _ in el]):
        r.fail("Rosomaxa::add_all", "a path returns without offering the batch to the elite", F.loc(ra))
    else:
        r.ok("Rosomaxa::add_all", "elite.add_all on every path")
    # provenance of the batch handed to the elite: iter() over the parameter, one filter whose closure is the comparability test
    bi, t = el[0]
    chain = []
    cur = t["args"][1]
    ok = True
    for _ in range(12):
        roots = mir.trace(fn, cur)
        calls_ = [v for k, v, p in roots if k == "call"]
        if not calls_:
            break
        ct = fn["bbs"][calls_[0]]["t"]
        chain.append(ct)
        cur = ct["args"][0] if ct["args"] else None
        if cur is None:
            break
    names = [c["callee"].split("::")[-1] for c in chain]
    src = mir.trace(fn, cur) if cur else set()
    from_param = any(k == "arg" and v == 2 for k, v, p in src)
    filters = [c for c in chain if c["callee"].split("::")[-1] in ("filter", "filter_map", "take", "skip", "take_while", "skip_while", "step_by")]
    filt_ok = True
    for c in filters:
        if c["callee"].split("::")[-1] != "filter":
            filt_ok = False
            continue
        cl = [v for k, v, p in mir.trace(fn, c["args"][1]) if k == "agg"]
        if not cl:
            filt_ok = False
            continue
        rv = fn["bbs"][cl[0][0]]["s"][cl[0][1]]["r"]
        cfn = F.fns.get(rv["n"])
        callees = [tt["callee"] for _, tt in mir.calls(cfn)] if cfn else []
        if not any(x.endswith("is_comparable_with_best_known") for x in callees) or len([x for x in callees if not x.startswith("core::")]) != 1:
            filt_ok = False
    if names == ["new"] or names[-1:] == ["new"] or names[-1:] == ["with_capacity"]:
        ok_loop, why_loop = _loop_form_batch(F, fn, t["args"][1])
        if ok_loop:
            r.ok("Rosomaxa::add_all batch", "elite batch = loop over the offered individuals, pushed under the comparability test only")
        else:
            r.fail("Rosomaxa::add_all batch", f"batch handed to the elite is not `offered individuals filtered only by is_comparable_with_best_known` ({why_loop})", F.loc(ra, t["ln"]))
        return
    if from_param and filt_ok and "collect" in names:
        r.ok("Rosomaxa::add_all batch", f"elite batch = individuals.{'.'.join(reversed(names))}, only filter is the comparability test")
    else:
        r.fail("Rosomaxa::add_all batch", f"batch handed to the elite is not `offered individuals filtered only by is_comparable_with_best_known` (chain {list(reversed(names))})", F.loc(ra, t["ln"]))


def _indiv_ops(F, fid, field="individuals"):
    """calls in fid whose receiver (&mut) is self.<field>: list of (bi, name, term)"""
    fn = F.fns[fid]
    out = []
    for bi, t in mir.calls(fn):
        if not t["args"] or not t["callee"]:
            continue
        a0 = t["args"][0]
        roots = mir.trace(fn, a0)
        if any(k == "arg" and v == 1 and p[:1] == (field,) for k, v, p in roots):
            if t["argtys"] and t["argtys"][0].startswith("&mut"):
                out.append((bi, t["callee"].split("::")[-1], t))
    return out


def o3_elitism_order(F, r):
    meths = [i for i, f in F.fns.items() if f["kind"] == "AssocFn" and f["impl_self"] == ELIT]
    if len(meths) < 10:
        raise AnchorError("Elitism methods not found")
    ops = {m: _indiv_ops(F, m) for m in meths}
    # classify helper methods
    sorters = set()
    for m in meths:
        fn = F.fns[m]
        srt = [(bi, t) for bi, n, t in ops[m] if n in SORTS]
        for bi, t in srt:
            good = False
            if t["callee"].split("::")[-1] in ("sort_by", "sort_unstable_by") and len(t["args"]) > 1:
                cl = [v for k, v, p in mir.trace(fn, t["args"][1]) if k == "agg"]
                if cl:
                    rv = fn["bbs"][cl[0][0]]["s"][cl[0][1]]["r"]
                    cfn = F.fns.get(rv["n"])
                    if cfn:
                        for _, ct in mir.calls(cfn):
                            if ct["callee"].endswith("HeuristicObjective::total_order") and len(ct["args"]) == 3:
                                a = mir.trace(cfn, ct["args"][1])
                                b = mir.trace(cfn, ct["args"][2])
                                if a == {("arg", 2, ())} and b == {("arg", 3, ())}:
                                    good = True
                                else:
                                    r.fail(f"{util.short_fn(m)} comparator", f"sort comparator passes ({sorted(a)}, {sorted(b)}) to total_order instead of (a, b): ranking reversed, truncation drops the best", F.loc(rv["n"]))
            if good and not (set(mir.ret_blocks(fn)) & mir.reach(fn, [0], blocked=[bi])):
                sorters.add(m)
                r.ok(f"{util.short_fn(m)} comparator", "sort_by(|a,b| objective.total_order(a,b)) on every path")
    if not sorters:
        r.fail("Elitism sort", "no method sorts `individuals` by objective.total_order(a, b) on every path")
        return

    def blocks_of(fid, names=None, callee_in=None):
        fn = F.fns[fid]
        out = []
        for bi, n, t in ops[fid]:
            if names and n in names:
                out.append(bi)
        if callee_in:
            for bi, t in mir.calls(fn):
                if t["callee"] in callee_in or t["res"] in callee_in:
                    out.append(bi)
        return out

    def strip(m):
        return m

    shrinkers = {m for m in meths if any(n in SHRINK_TAIL or n in SHRINK_ANY for _, n, _ in ops[m])}
    for m in meths:
        fn = F.fns[m]
        grow = blocks_of(m, GROW)
        if not grow:
            continue
        sort_b = blocks_of(m, SORTS, sorters)
        shrink_b = blocks_of(m, SHRINK_TAIL + SHRINK_ANY, shrinkers - sorters)
        after = set()
        for gb in grow:
            after |= mir.reach_from_succs(fn, gb, blocked=sort_b)
        name = util.short_fn(m)
        if set(mir.ret_blocks(fn)) & after:
            r.fail(name, "individuals added and a path returns without re-sorting: ranked()/select() no longer start with the best", F.loc(m))
        elif set(shrink_b) & after:
            r.fail(name, "population truncated/deduplicated before it is sorted: the best individual of the batch can be dropped", F.loc(m))
        else:
            r.ok(name, "extend ≺ sort ≺ truncate on every path")
    # truncation keeps at least one: constructor asserts max_population_size > 0
    ctor = [m for m in meths if m.endswith("::new_with_dedup")]
    if ctor:
        fn = F.fns[ctor[0]]
        has_assert = any(t["callee"].startswith("core::panicking::panic") for _, t in mir.calls(fn)) and any(
            s["r"]["k"] == "bin" and s["r"]["op"] in ("Gt", "Ne", "Ge", "Lt") for _, _, s in mir.stmts(fn))
        if has_assert:
            r.ok("Elitism::new_with_dedup", "asserts max_population_size > 0")
        else:
            r.fail("Elitism::new_with_dedup", "no assertion that max_population_size > 0: truncate(0) would drop the best", F.loc(ctor[0]))
    # SHRINK_ANY only in the public maintenance API (not reachable on the elite, see O4)
    for m in meths:
        for bi, n, t in ops[m]:
            if n in SHRINK_ANY and not m.endswith("::drain"):
                r.fail(f"{util.short_fn(m)}:{n}", "removes arbitrary individuals from the population outside the `drain` API", F.loc(m, t["ln"]))


def o4_rosomaxa_elite(F, r):
    meths = [i for i, f in F.fns.items() if f["impl_self"] == ROSO or (f["kind"] == "Closure" and F.fns.get(f["parent"], {}).get("impl_self") == ROSO)]
    n = 0
    for m in meths:
        fn = F.fns[m]
        for bi, t in mir.calls(fn):
            if not t["args"] or not t["callee"]:
                continue
            roots = mir.trace(fn, t["args"][0])
            if any(p[:1] == ("elite",) and k in ("arg", "local") for k, v, p in roots) and "Rosomaxa" in fn["locals"][1] if len(fn["locals"]) > 1 else False:
                n += 1
                last = t["callee"].split("::")[-1]
                if last in READ_ONLY_ELITE or t["callee"].startswith("core::"):
                    r.ok(f"{util.short_fn(m)}:{last}", "elite used through add/ranked/select API only")
                else:
                    r.fail(f"{util.short_fn(m)}:{last}", f"elite population manipulated through `{t['callee']}` (may drop or reorder the best-known individual)", F.loc(m, t["ln"]))
    rk = impl_method(F, ROSO, "ranked")
    fn = F.fns[rk]
    if any(t["callee"] == f"{HP}::ranked" for _, t in mir.calls(fn)):
        r.ok("Rosomaxa::ranked", "delegates to elite.ranked()")
    else:
        r.fail("Rosomaxa::ranked", "does not delegate to elite.ranked()", F.loc(rk))
    # the phase assignments never touch elite (field stores to `elite` outside the constructor)
    for m in meths:
        fn = F.fns[m]
        for bi, si, s in mir.stmts(fn):
            pf = mir.proj_fields(s["d"])
            if pf and pf[0][1] == "elite" and pf[0][0].endswith("::Rosomaxa"):
                r.fail(f"{util.short_fn(m)}:elite=", "elite population replaced after construction", F.loc(m, s["ln"]))


def o5_merge_best(F, r):
    """decomposition merge: the decomposed sub-solution replaces the original part only if it is not worse"""
    m = F.find1("decompose_search::merge_best")
    fn = F.fns[m]
    src = [int(k) for k, v in fn["names"].items() if v == "source_solution"]
    loop_blocks = set().union(*mir.natural_loops(fn).values()) if mir.natural_loops(fn) else set()
    has_loop = any(t["callee"].endswith("Iterator::next") and bi in loop_blocks for bi, t in mir.calls(fn))
    paths = []
    for length in ((0, 1) if has_loop else (None,)):
        it = oe.Interp(F, m, {1: oe.sym("decomposed"), 2: oe.ref(oe.sym("orig")), 3: oe.sym("acc")}, fresh=True, max_steps=3000 if has_loop else 800)
        it.drop_panics = True          # `assert!(registry.use_route(..))` inside the loop: the panicking path returns no merged solution
        if length is not None:
            oe.script_next(it, length, make=lambda i: oe.some(oe.ref(oe.sym(f"route{i}"))))   # `for route_ctx in source.routes.iter()` evaluated over 0 and 1 routes
        paths += it.explore()
    n = 0
    for p in paths:
        cmp_ = [a for a in p.assumptions if len(a) == 3 and isinstance(a[2], str) and a[2] in "LEG" and a[0] != "switch"]
        if not cmp_:
            r.fail("merge_best", "no comparison of the decomposed and the original partial solution on this path (not decidable)", F.loc(m))
            continue
        a, b, o = cmp_[0]
        chosen = None
        for l in src:
            v = oe.strip_refs(p.env.get(l))
            if v and v[0] == "sym":
                chosen = v[1]
        if not src:
            # fall back: any reference local rooted at a or b whose name is unknown
            chosen = None
        n += 1
        inst = f"merge_best[total_order(decomposed,original)={o}]"
        if chosen is None:
            r.fail(inst, "chosen source solution not identifiable (variable renamed: re-confirm)", F.loc(m))
        elif o == "G" and chosen.startswith(a):
            r.fail(inst, "the decomposed sub-solution is merged although it is WORSE than the original part: the merged solution can be worse than the parent", F.loc(m))
        else:
            r.ok(inst, f"merges {'the decomposed' if chosen.startswith(a) else 'the original'} part")
    if n < 3:
        r.fail("merge_best coverage", f"only {n} orderings explored")


def _const_ge1(op):
    if not mir.is_const(op):
        return False
    txt = str(op["c"]).replace("_usize", "").replace("f64", "").replace("_i32", "").replace("_f64", "")
    try:
        return float(txt) >= 1.0
    except ValueError:
        return False


def s1_selection_size_clamped(F, r):
    """float -> usize casts in population code that produce a selection size must be clamped to >= 1"""
    thru = mir.PASS_THROUGH_CALLS + ("std::f64::<impl f64>::round", "std::f64::<impl f64>::floor", "std::f64::<impl f64>::ceil", "std::f64::<impl f64>::trunc",
                                     "core::f64::<impl f64>::round", "core::f64::<impl f64>::floor", "core::f64::<impl f64>::ceil")
    for fid, fn in F.fns.items():
        root = F.root_of(fid)
        if not F.fns.get(root, {}).get("module", "").startswith("rosomaxa::population"):
            continue
        for bi, si, s in mir.stmts(fn):
            rv = s["r"]
            if rv["k"] != "cast" or rv["ty"] != "usize" or not mir.is_place(rv["o"][0]):
                continue
            if fn["locals"][rv["o"][0]["l"]] not in ("f64", "f32"):
                continue
            inst = f"{util.short_fn(root)}@cast"
            flow0 = mir.forward(fn, [s["d"]["l"]])
            is_sel = False
            for cb, t in mir.calls(fn):
                if t["callee"].endswith("Iterator::take") and len(t["args"]) > 1 and mir.is_place(t["args"][1]) and t["args"][1]["l"] in flow0:
                    is_sel = True
            for b2, s2i, s2 in mir.stmts(fn):
                r2 = s2["r"]
                if r2["k"] == "agg" and "selection_size" in r2.get("fs", []):
                    o = r2["o"][r2["fs"].index("selection_size")]
                    if mir.is_place(o) and o["l"] in flow0:
                        is_sel = True
                pf = mir.field_path(s2["d"])
                if pf and pf[-1].endswith("selection_size") and any(mir.is_place(o) and o["l"] in flow0 for o in r2.get("o", [])):
                    is_sel = True
            if not is_sel:
                r.skip()
                continue
            roots = mir.trace(fn, rv["o"][0], through_calls=thru)
            clamped = False
            for k, v, p in roots:
                if k == "call":
                    t = fn["bbs"][v]["t"]
                    last = t["callee"].split("::")[-1]
                    if last == "max" and any(_const_ge1(a) for a in t["args"]):
                        clamped = True
                    if last == "clamp" and len(t["args"]) >= 2 and _const_ge1(t["args"][1]):
                        clamped = True
            if not clamped:
                # integer-side clamp of the cast result
                flow = mir.forward(fn, [s["d"]["l"]])
                for cb, t in mir.calls(fn):
                    last = t["callee"].split("::")[-1]
                    if last in ("max", "clamp") and t["args"] and mir.is_place(t["args"][0]) and t["args"][0]["l"] in flow and any(_const_ge1(a) for a in t["args"][1:2]):
                        clamped = True
            if clamped:
                r.ok(inst, "scaled size clamped to >= 1 before use")
            else:
                r.fail(inst, "a selection/population size computed from a float ratio is cast to usize without a lower clamp of 1: it can round to 0 and "
                             "select() returns nothing from a non-empty population", F.loc(fid, s["ln"]))


DROPPING = ("adapters::filter::", "adapters::filter_map::", "adapters::skip::", "adapters::take::", "adapters::skip_while::", "adapters::take_while::",
            "adapters::step_by::", "adapters::map_while::")


def _loop_form_batch(F, fn, batch_op):
    """loop form of `individuals.iter().filter(is_comparable).map(..).collect()`: a Vec filled by `push` inside ONE loop over the offered individuals (parameter 2),
    every push guarded only by the loop's own `next()` and the comparability test"""
    roots = [v for k, v, p in mir.trace(fn, batch_op) if k == "local" or k == "call"]
    lset = set()
    for k, v, p in mir.trace(fn, batch_op):
        if k == "call":
            lset.add(fn["bbs"][v]["t"]["dest"]["l"] if isinstance(fn["bbs"][v]["t"].get("dest"), dict) else None)
    lset.discard(None)
    if not lset:
        return False, "batch vector not found"
    pushes = []
    for bi, t in mir.calls(fn):
        if t["callee"].split("::")[-1] == "push" and t["args"] and any(k == "local" and v in lset or k == "call" and fn["bbs"][v]["t"].get("dest", {}).get("l") in lset for k, v, p in mir.trace(fn, t["args"][0])):
            pushes.append(bi)
    if not pushes:
        return False, "nothing is pushed into the batch"
    loops = mir.natural_loops(fn)
    for pb in pushes:
        inl = [(h, body) for h, body in loops.items() if pb in body]
        if len(inl) != 1:
            return False, "push not inside exactly one loop"
        h, body = inl[0]
        nexts = [(bi, t) for bi, t in mir.calls(fn) if bi in body and t["callee"] == "core::iter::traits::iterator::Iterator::next"]
        if len(nexts) != 1:
            return False, "loop does not advance exactly one iterator"
        nb, nt = nexts[0]
        ity = nt["ga"][0] if nt["ga"] else ""
        if any(d in ity for d in DROPPING):
            return False, "the loop's iterator drops elements"
        src, crossed = mir.deep_leaves(fn, nt["args"][0])
        if not any(k == "arg" and v == 2 for k, v, p in src):
            return False, "the loop does not walk the offered individuals"
        # every switch of the loop that separates the header from the push tests next() or the comparability call
        for sb in sorted(body):
            tt = fn["bbs"][sb]["t"]
            if tt["k"] != "switch" or not mir.dominates(fn, sb, pb) or sb == pb:
                continue
            dd = [d for d in mir.defs(fn).get(tt["o"].get("l"), []) if d[0] == "s"] if mir.is_place(tt["o"]) else []
            if len(dd) == 1 and dd[0][3]["r"]["k"] == "discr" and mir.is_place(dd[0][3]["r"]["o"][0]) and not dd[0][3]["r"]["o"][0]["p"] and dd[0][3]["r"]["o"][0]["l"] == nt["dest"]["l"]:
                continue        # the loop's own test: discriminant of next()'s result
            inner, neg = tt["o"], False
            dn = [d for d in mir.defs(fn).get(inner.get("l"), []) if d[0] == "s"] if mir.is_place(inner) else []
            if len(dn) == 1 and dn[0][3]["r"]["k"] == "un" and dn[0][3]["r"].get("op") == "Not":
                inner, neg = dn[0][3]["r"]["o"][0], True
            tr_ = mir.trace(fn, inner)
            direct = [fn["bbs"][v]["t"]["callee"] for k, v, p in tr_ if k == "call"]
            if direct and all(c.endswith("is_comparable_with_best_known") for c in direct) and len(tr_) == len(direct):
                # the comparability test itself: the push must lie on the `comparable` side only
                zero = [tb for v, tb in tt["tg"] if v == 0]
                not_comparable_edge = (tt["else"] if neg else (zero[0] if zero else None))
                if not_comparable_edge is not None and pb in mir.reach(fn, [not_comparable_edge], blocked=[h]):
                    return False, "individuals that are NOT comparable with the best known are pushed"
                continue
            return False, f"the push is also guarded by another test (line {tt.get('ln', '?')})"
    return True, ""


def a1_elite_ranked_by_main_objective(F, r):
    """the population's own elite is ranked by the MAIN objective: `Elitism::maybe_change` (which may switch a population to an alternative objective, meant for the network's
    node storages) is never applied to the value stored into `Rosomaxa.elite` — otherwise `ranked().next()` is no longer the best individual ever offered"""
    roso = [a for a in F.adts if a.endswith("population::rosomaxa::Rosomaxa")]
    if len(roso) != 1:
        raise AnchorError(f"Rosomaxa ADT resolves to {roso}")
    n = 0
    for fid, fn in sorted(F.fns.items()):
        if "::promoted[" in fid or not fid.lstrip("<").startswith("rosomaxa::population::rosomaxa"):
            continue
        for bi, si, st in mir.stmts(fn):
            rv = st["r"]
            if rv["k"] != "agg" or not rv.get("n", "").startswith(roso[0] + "#") or "elite" not in (rv.get("fs") or []):
                continue
            n += 1
            _, crossed = mir.deep_leaves(fn, rv["o"][rv["fs"].index("elite")])
            todo = [c for c in crossed if c in F.fns]
            seen = set()
            hit = None
            while todo:
                c = todo.pop()
                if c in seen:
                    continue
                seen.add(c)
                for g in F.family(c):
                    for _, t in mir.calls(F.fns[g]):
                        tg = t.get("res") or t["callee"]
                        if tg.endswith("Elitism::<O, S>::maybe_change") or tg.endswith("::maybe_change"):
                            hit = (g, t)
                        elif tg in F.fns and tg.startswith("rosomaxa::population") and len(seen) < 30:
                            todo.append(tg)
            inst = f"{util.short_fn(fid)}: elite"
            if hit:
                r.fail(inst, "the population's elite is built by a function that applies `maybe_change`: with an objective that has a real alternative the elite is sorted and truncated "
                       "under the alternative ordering, so its first ranked individual is not the best one offered", F.loc(hit[0], hit[1]["ln"]))
            else:
                r.ok(inst, "built without maybe_change (ranked by the main objective)")
    if n == 0:
        raise AnchorError("no construction of Rosomaxa { elite, .. } found")


def run(ctx):
    ctx.explanation = (
        "Finite-ordering evaluation (E-C) of the incumbent-replacement code over every abstract ordering of (best,new) and "
        "Some/None incumbents (exhaustive over that finite space), must-call analysis of every HeuristicPopulation::add_all "
        "impl (each offered individual reaches the comparison on every path), ordering of extend ≺ sort(total_order(a,b)) ≺ "
        "truncate in Elitism, and use of Rosomaxa's elite only through its add/ranked/select API.")
    ctx.explanation += ' The elite of the self-organising population is built without maybe_change, followed through helpers (A1); Rosomaxa::add_all batch provenance is decided in chain and loop form.'
    ctx.not_decided = ("size bounds along histories, selection non-emptiness, the seeded-solve corollary, std contracts of "
                       "sort_by/dedup_by/truncate (trusted: they never remove index 0 of a non-empty sorted vector).")
    ctx.assumptions += ["HeuristicObjective::total_order is a total preorder (C09)", "std Vec::sort_by/dedup_by/truncate contracts"]
    ctx.run("C08-O1", "incumbents are replaced only by no-worse individuals; no-worse individuals pass the elite filter (E-C over all orderings)", o1_incumbent, floor=7)
    ctx.run("C08-O2", "every offered individual reaches the comparison in every HeuristicPopulation::add_all/add impl", o2_every_offer_compared, floor=5)
    ctx.run("C08-A1", "the elite of the self-organising population is ranked by the main objective (no maybe_change on it)", a1_elite_ranked_by_main_objective, floor=1)
    ctx.run("C08-O3", "Elitism: additions are followed by sort(total_order(a,b)) before any truncation; max size > 0", o3_elitism_order, floor=3)
    ctx.run("C08-O5", "decomposition merge never prefers a worse sub-solution (E-C over the three orderings)", o5_merge_best, floor=3)
    ctx.run("C08-S1", "sizes derived from float ratios in population code are clamped to at least one", s1_selection_size_clamped, floor=2)
    ctx.run("C08-O4", "Rosomaxa uses its elite only through add/ranked/select and never replaces it", o4_rosomaxa_elite, floor=4)
