"""Compile-fail witnesses (thorough tier): rustc confirms the encapsulation facts on the current tree.
`witness/` is a tiny crate path-depending on /repo/vrp-core and /repo/rosomaxa; every compile_fail block has a compiling twin."""
import os
import re
import shutil
import subprocess

from . import extract, report

WITNESSES = {
    "C14": ["TourIsEncapsulated", "ActivitiesMutIsCratePrivate", "RegistryIsEncapsulated"],
    "C05": ["StaleBitIsUnforgeable"],
    "C04": ["ParentIsShared"],
    "C19": ["NodeMapIsPrivate"],
    "C18": ["SlotMachineStateIsPrivate"],
}


def add(ctx):
    names = WITNESSES.get(ctx.prop)
    if not names:
        return
    r = ctx.rule(f"{ctx.prop}-W1", "compile-fail witnesses: rustc rejects the offending access (E0616/E0624/E0596) and accepts the twin", floor=len(names), tier="thorough")
    wdir = os.path.join(report.VERIF, "witness")
    try:
        shutil.copy(os.path.join(extract.REPO, "Cargo.lock"), os.path.join(wdir, "Cargo.lock"))
    except OSError:
        pass
    env = dict(os.environ)
    env["CARGO_NET_OFFLINE"] = "true"
    env["CARGO_TARGET_DIR"] = os.path.join(extract.CACHE, "witness-target")
    env.pop("RUSTC_WORKSPACE_WRAPPER", None)
    env.pop("RUSTFLAGS", None)
    pr = subprocess.run(["cargo", "+nightly", "test", "--doc", "--offline", "--"] + names, cwd=wdir, env=env, stdout=subprocess.PIPE, stderr=subprocess.STDOUT, text=True)
    out = pr.stdout
    res = {}
    for m in re.finditer(r"test src/lib\.rs - (\w+) \(line (\d+)\)( - compile fail)? \.\.\. (\w+)", out):
        res.setdefault(m.group(1), []).append((m.group(2), bool(m.group(3)), m.group(4)))
    for n in names:
        rows = res.get(n)
        if not rows:
            r.fail(n, "witness did not run (vrp-core no longer builds for an external user, or the doc-test was not found): " + out[-300:].replace("\n", " "))
            continue
        bad = [x for x in rows if x[2] != "ok"]
        if bad:
            kind = "an access that must be rejected now compiles" if bad[0][1] else "the compiling twin no longer compiles (API changed: re-confirm the witness)"
            r.fail(n, f"witness at witness/src/lib.rs:{bad[0][0]} failed: {kind}")
        else:
            r.ok(n, f"{sum(1 for x in rows if x[1])} rejected accesses, {sum(1 for x in rows if not x[1])} compiling twin(s)")
