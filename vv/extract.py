"""Fact extraction: hash /repo's working tree, run the rustc_private driver under cargo +nightly check
(fresh target dir, so cargo cannot skip the wrapper), cache the fact files by content hash."""
import fcntl
import hashlib
import os
import shutil
import subprocess
import sys
import time

VERIF = os.path.dirname(os.path.dirname(os.path.abspath(__file__)))
REPO = os.environ.get("VV_REPO", "/repo")
CACHE = os.path.join(VERIF, ".cache")
DRIVER = os.path.join(VERIF, "driver", "target", "release", "vvdriver")
ATTRSCAN = os.path.join(VERIF, "attrscan", "target", "release", "attrscan")
CRATES = ["rosomaxa", "vrp_core", "vrp_pragmatic", "vrp_scientific", "vrp_cli"]
PKGS = ["rosomaxa", "vrp-core", "vrp-pragmatic", "vrp-scientific", "vrp-cli"]
EXPECTED_FILES = ["rosomaxa.jsonl", "vrp_core.jsonl", "vrp_pragmatic.jsonl", "vrp_scientific.jsonl",
                  "vrp_cli.jsonl", "vrp_cli-bin.jsonl"]
DOCS = "docs/src/concepts/pragmatic/errors/index.md"
SKIP_DIRS = {"target", ".git", "node_modules"}


class ExtractionError(Exception):
    pass


def repo_files(repo=None):
    repo = repo or REPO
    out = []
    for root, dirs, files in os.walk(repo):
        dirs[:] = sorted(d for d in dirs if d not in SKIP_DIRS)
        for f in sorted(files):
            if f.endswith(".rs") or f in ("Cargo.toml", "Cargo.lock"):
                out.append(os.path.join(root, f))
    d = os.path.join(repo, DOCS)
    if os.path.exists(d):
        out.append(d)
    return out


def repo_hash(repo=None):
    repo = repo or REPO
    h = hashlib.sha256()
    # the extractor and scanner are part of the key: a rebuilt driver must not reuse old facts
    for tool in (DRIVER, ATTRSCAN):
        if os.path.exists(tool):
            st = os.stat(tool)
            h.update(f"{tool}:{st.st_size}:{int(st.st_mtime)}".encode())
    for p in repo_files(repo):
        h.update(os.path.relpath(p, repo).encode())
        h.update(b"\0")
        with open(p, "rb") as fh:
            h.update(fh.read())
        h.update(b"\0")
    return h.hexdigest()[:20]


def nightly_sysroot():
    return subprocess.check_output(["rustc", "+nightly", "--print", "sysroot"], text=True).strip()


_IN_USE = []      # shared "in use" locks held for the life of this process: a cache directory that is being read is never pruned


def _mark_in_use(h):
    try:
        fh = open(os.path.join(CACHE, h + ".use"), "w")
        fcntl.flock(fh, fcntl.LOCK_SH)
        _IN_USE.append(fh)
    except OSError:
        pass


def _prune(keep):
    """drop old cache directories of OTHER trees (disk is limited) — only those no process is reading (exclusive `.use` lock obtainable) and that were not touched for 10 minutes"""
    try:
        ents = [e for e in os.listdir(CACHE) if os.path.isdir(os.path.join(CACHE, e)) and e != keep]
    except FileNotFoundError:
        return
    ents.sort(key=lambda e: os.path.getmtime(os.path.join(CACHE, e)), reverse=True)
    now = time.time()
    for e in ents[5:]:
        try:
            if now - os.path.getmtime(os.path.join(CACHE, e)) < 600:
                continue
            with open(os.path.join(CACHE, e + ".use"), "w") as uf:
                try:
                    fcntl.flock(uf, fcntl.LOCK_EX | fcntl.LOCK_NB)
                except OSError:
                    continue                    # somebody is reading it
                shutil.rmtree(os.path.join(CACHE, e), ignore_errors=True)
                fcntl.flock(uf, fcntl.LOCK_UN)
            for suffix in (".lock", ".use"):
                try:
                    os.unlink(os.path.join(CACHE, e + suffix))
                except OSError:
                    pass
        except OSError:
            continue


def _manifest(facts):
    return {f: os.path.getsize(os.path.join(facts, f)) for f in sorted(os.listdir(facts)) if f.endswith(".jsonl")}     # facts.pkl is a derived parse cache


def _intact(done, facts):
    """the DONE marker lists every fact file with its size: a directory that was copied / pruned half-way is re-extracted instead of being analysed"""
    try:
        import json
        m = json.load(open(done))
        return isinstance(m, dict) and m.get("files") and m["files"] == _manifest(facts) and all(f in m["files"] for f in EXPECTED_FILES)
    except (OSError, ValueError):
        return False


def ensure_facts(repo=None, log=sys.stderr):
    """Returns (facts_dir, hash, info). Raises ExtractionError when the tree cannot be analysed."""
    repo = repo or REPO
    if not os.path.exists(DRIVER):
        raise ExtractionError(f"driver not built: {DRIVER} (run MANIFEST.setup_cmd)")
    h = repo_hash(repo)
    os.makedirs(CACHE, exist_ok=True)
    d = os.path.join(CACHE, h)
    facts = os.path.join(d, "facts")
    lock_path = os.path.join(CACHE, h + ".lock")
    with open(lock_path, "w") as lk:
        fcntl.flock(lk, fcntl.LOCK_EX)
        try:
            done = os.path.join(d, "DONE")
            failed = os.path.join(d, "FAILED")
            if os.path.exists(done) and _intact(done, facts):
                os.utime(d)
                _mark_in_use(h)
                return facts, h, {"cached": True, "extract_s": 0.0}
            if os.path.exists(failed):
                raise ExtractionError(open(failed).read())
            shutil.rmtree(d, ignore_errors=True)
            os.makedirs(facts)
            target = os.path.join(d, "target")
            env = dict(os.environ)
            env["LD_LIBRARY_PATH"] = nightly_sysroot() + "/lib" + (":" + env["LD_LIBRARY_PATH"] if env.get("LD_LIBRARY_PATH") else "")
            env["RUSTFLAGS"] = "-Zmir-opt-level=0 -Awarnings"
            env["RUSTC_WORKSPACE_WRAPPER"] = DRIVER
            env["VV_OUT"] = facts
            env["VV_CRATES"] = ",".join(CRATES)
            env["CARGO_TARGET_DIR"] = target
            env["CARGO_NET_OFFLINE"] = "true"
            env.pop("RUSTC_WRAPPER", None)
            cmd = ["cargo", "+nightly", "check", "--offline"]
            for p in PKGS:
                cmd += ["-p", p]
            cmd += ["--lib", "--bins"]
            t0 = time.time()
            print(f"[vv] extracting facts for tree {h} ...", file=log)
            pr = subprocess.run(cmd, cwd=repo, env=env, stdout=subprocess.PIPE, stderr=subprocess.STDOUT, text=True)
            dt = time.time() - t0
            shutil.rmtree(target, ignore_errors=True)
            if pr.returncode != 0:
                tail = "\n".join(pr.stdout.splitlines()[-40:])
                msg = f"cargo check failed (exit {pr.returncode}) on the current tree:\n{tail}"
                with open(failed, "w") as fh:
                    fh.write(msg)
                raise ExtractionError(msg)
            missing = [f for f in EXPECTED_FILES if not os.path.exists(os.path.join(facts, f))]
            if missing:
                msg = f"fact files missing after extraction: {missing} (wrapper skipped?)"
                with open(failed, "w") as fh:
                    fh.write(msg)
                raise ExtractionError(msg)
            # syn-based attribute scan (serde attrs, derive lists, crate attrs, format templates)
            if os.path.exists(ATTRSCAN):
                ar = subprocess.run([ATTRSCAN, repo], stdout=subprocess.PIPE, stderr=subprocess.PIPE, text=True)
                if ar.returncode != 0:
                    msg = f"attrscan failed: {ar.stderr[-2000:]}"
                    with open(failed, "w") as fh:
                        fh.write(msg)
                    raise ExtractionError(msg)
                with open(os.path.join(facts, "attrs.jsonl"), "w") as fh:
                    fh.write(ar.stdout)
            import json as _json
            with open(done, "w") as fh:
                _json.dump({"extract_s": round(dt, 1), "files": _manifest(facts)}, fh)
            _mark_in_use(h)
            print(f"[vv] extraction done in {dt:.1f}s", file=log)
            _prune(h)
            return facts, h, {"cached": False, "extract_s": round(dt, 1)}
        finally:
            fcntl.flock(lk, fcntl.LOCK_UN)


if __name__ == "__main__":
    try:
        print(ensure_facts())
    except ExtractionError as e:
        print("EXTRACTION FAILED:", e)
        sys.exit(1)
