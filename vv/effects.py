"""Effect reachability: RNG / clock / IO / interior mutability / thread-local / logger effects per function."""
from . import cg, mir, util

RNG = ("rosomaxa::utils::random::", "rand::", "rand_core::", "rand_distr::", "<rosomaxa::utils::random::", "rosomaxa::utils::noise::")
CLOCK = ("std::time::", "rosomaxa::utils::timing::", "core::time::", "<std::time::")
IO = ("std::io::", "std::fs::", "std::process::", "std::env::", "std::net::", "<std::io::", "<std::fs::")
INTERIOR = ("core::cell::", "<core::cell::", "std::sync::poison::", "core::sync::atomic::", "std::thread::local::", "<std::thread::local::", "std::sync::mpsc::", "std::sync::once")


def direct_effects(F, fid):
    fn = F.fns.get(fid)
    if fn is None:
        return []
    e = fn.get("_effects")
    if e is not None:
        return e
    e = []
    for bi, t in mir.calls(fn):
        for name in (t["callee"], t["res"]):
            if not name:
                continue
            if name.startswith(RNG):
                e.append(("rng", name, t["ln"]))
            elif name.startswith(CLOCK):
                e.append(("clock", name, t["ln"]))
            elif name.startswith(IO):
                e.append(("io", name, t["ln"]))
            elif name.startswith(INTERIOR):
                e.append(("interior", name, t["ln"]))
    for bi, si, s in mir.stmts(fn):
        if s["r"]["k"] == "tls":
            e.append(("thread-local", s["r"]["n"], s["ln"]))
    for p in util.all_places(fn):
        for a, f in mir.proj_fields(p):
            if f == "logger" and a.endswith("environment::Environment"):
                e.append(("logger", "Environment.logger", 0))
                break
    # dedupe
    seen = set()
    out = []
    for x in e:
        if (x[0], x[1]) not in seen:
            seen.add((x[0], x[1]))
            out.append(x)
    fn["_effects"] = out
    return out


def reach_effects(F, roots, edge_filter=None, stop=None):
    par = cg.reach(F, roots, stop=stop, edge_filter=edge_filter)
    found = []
    for g in par:
        for e in direct_effects(F, g):
            found.append((g, e))
    return par, found


def impure_set(F):
    """workspace functions from which an RNG / clock / IO / interior-mutability / thread-local effect is reachable (reverse call-graph closure)"""
    s = getattr(F, "_impure_set", None)
    if s is not None:
        return s
    idx = cg.callers_index(F)
    s = set()
    work = [fid for fid in F.fns if any(e[0] != "logger" for e in direct_effects(F, fid))]
    s.update(work)
    while work:
        g = work.pop()
        for c in idx.get(g, ()):
            cid = c[0] if isinstance(c, tuple) else c
            if cid not in s:
                s.add(cid)
                work.append(cid)
    F._impure_set = s
    return s


def impure_call(F):
    imp = impure_set(F)

    def pred(t):
        for name in (t["callee"], t.get("res")):
            if name and name.startswith(RNG + CLOCK + IO + INTERIOR):
                return True
        try:
            tg = cg.call_targets(F, t)
        except Exception:
            return True
        return any(g in imp for g in tg)
    return pred
